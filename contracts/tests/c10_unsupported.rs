//! C10 — unsupported codes are rejected by the function-pointer dispatchers
//! (concrete native obligations: `anyhow` error construction is out of reach of CBMC).
use dsi_bitstream::prelude::*;

fn unsupported() -> Vec<Codes> {
    let mut v = vec![Codes::Zeta { k: 0 }, Codes::Golomb { b: 0 }];
    for k in [11usize, 12, 63, 64, 1 << 20, usize::MAX] {
        v.extend([Codes::Zeta { k }, Codes::Rice { log2_b: k }, Codes::Pi { k }, Codes::Golomb { b: k }, Codes::ExpGolomb { k }]);
    }
    v
}
type W<'a> = BufBitWriter<BE, MemWordWriterVec<u64, &'a mut Vec<u64>>>;
type R<'a> = BufBitReader<LE, MemWordReader<u32, &'a [u32]>>;

#[test]
fn c10_unsupported_len() {
    for c in unsupported() {
        assert!(FuncCodeLen::new(c).is_err(), "{c:?}");
    }
}
#[test]
fn c10_unsupported_writer() {
    for c in unsupported() {
        assert!(FuncCodeWriter::<BE, W>::new(c).is_err(), "{c:?}");
    }
}
#[test]
fn c10_unsupported_reader() {
    for c in unsupported() {
        assert!(FuncCodeReader::<LE, R>::new(c).is_err(), "{c:?}");
    }
}
