//! C20 — `FindChangePoints` on step functions: concrete native obligation paired
//! with the Verus unit find_change.rs (which decides the property for every
//! monotone function), so that a violation comes with a failing input. A symbolic
//! step position is out of reach of CBMC here (two 64-iteration search loops).
use dsi_bitstream::utils::FindChangePoints;

fn positions() -> Vec<u64> {
    let mut v = vec![0u64, 1, 2, 3, 4, 5, 7, 8, 9, 100, 1000, 65535, 65536, 65537];
    for e in [10u32, 20, 31, 32, 33, 40, 50, 62, 63] {
        let p = 1u64 << e;
        v.extend([p - 1, p, p + 1]);
    }
    v.extend([(1u64 << 63) + 12345, u64::MAX - 2, u64::MAX - 1, u64::MAX]);
    v
}

#[test]
fn c20_fcp_single_step() {
    for t in positions() {
        let f = |x: u64| if x >= t { 9usize } else { 4 };
        let mut it = FindChangePoints::new(f);
        assert_eq!(it.next(), Some((0, f(0))), "first item, step at {t}");
        let second = it.next();
        if t == 0 {
            assert_eq!(second, None, "constant function: the iterator must end (step at {t})");
        } else if t <= 1u64 << 63 {
            assert_eq!(second, Some((t, 9)), "the change point must be found exactly (step at {t})");
            assert_eq!(it.next(), None, "the iterator must end after the last change point (step at {t})");
        } else if let Some((x, v)) = second {
            assert_eq!((x, v), (t, 9), "only real change points may be yielded (step at {t})");
        }
    }
}

#[test]
fn c20_fcp_two_steps() {
    for t1 in positions() {
        for d in [1u64, 2, 3, 63, 64, 65, 1 << 20, (1 << 33) + 7] {
            if t1 == 0 || t1 >= 1 << 62 {
                continue;
            }
            let t2 = t1 + d;
            let f = |x: u64| if x >= t2 { 7usize } else if x >= t1 { 5 } else { 2 };
            let got: Vec<_> = FindChangePoints::new(f).collect();
            assert_eq!(got, vec![(0, 2), (t1, 5), (t2, 7)], "steps at {t1} and {t2}");
        }
    }
}

#[test]
fn c20_fcp_library_lengths() {
    use dsi_bitstream::codes::{len_delta, len_gamma, len_omega, len_zeta};
    fn check(name: &str, f: impl Fn(u64) -> usize + Copy) {
        let mut prev: Option<(u64, usize)> = None;
        for (x, v) in FindChangePoints::new(f).take(200) {
            assert_eq!(v, f(x), "{name}: value at {x}");
            if let Some((px, pv)) = prev {
                assert!(x > px && v != pv, "{name}: increasing change points");
                assert_eq!(f(x - 1), pv, "{name}: {x} is the first value with the new length");
            } else {
                assert_eq!(x, 0, "{name}: starts at 0");
            }
            prev = Some((x, v));
        }
    }
    check("gamma", len_gamma);
    check("delta", len_delta);
    check("omega", len_omega);
    check("zeta3", |n| len_zeta(n, 3));
}

/// functions whose first plateau has height 0 (the sentinel-sensitive case): the iterator still
/// starts with (0, 0)
#[test]
fn c20_fcp_zero_first_plateau() {
    let mut it = FindChangePoints::new(|_x: u64| 0usize);
    assert_eq!(it.next(), Some((0, 0)), "constant zero: first item");
    assert_eq!(it.next(), None, "constant zero: the iterator must end");
    for t in positions() {
        if t == 0 || t > 1u64 << 63 {
            continue;
        }
        let f = |x: u64| if x >= t { 3usize } else { 0 };
        let mut it = FindChangePoints::new(f);
        assert_eq!(it.next(), Some((0, 0)), "first item of a function starting at 0, step at {t}");
        assert_eq!(it.next(), Some((t, 3)), "the change point must be found exactly (step at {t})");
        assert_eq!(it.next(), None, "the iterator must end after the last change point (step at {t})");
    }
}
