//! C10 — function-pointer dispatchers built from a caller-supplied function perform exactly that
//! function, and the pointer a dispatcher hands out (`get_func` / `inner`) performs the code the
//! dispatcher was built for (concrete; both endiannesses).
use dsi_bitstream::prelude::*;
use dsi_contracts::model::{Bits, BitsStream, ModelErr};

const GRID: &[u64] = &[0, 1, 2, 5, 7, 77, 1000, 65_535, (1 << 20) - 1, (1 << 32) + 5, (1 << 40) + 7];

macro_rules! wf {
    ($m:ident, $e:ty) => {
        mod $m {
            use super::*;
            type S = BitsStream<$e>;
            fn pre() -> Bits {
                let mut p = Bits::new();
                assert!(p.push(0b10110, 5));
                p
            }
            struct Fac(Bits, usize);
            impl CodesReaderFactory<$e> for Fac {
                type CodesReader<'a> = S where Self: 'a;
                fn new_reader(&self) -> S {
                    let mut s = S::new(self.0, true, 16);
                    s.pos = self.1;
                    s
                }
            }
            fn my_write(w: &mut S, n: u64) -> Result<usize, ModelErr> {
                w.write_zeta(n, 4)
            }
            fn my_read(r: &mut S) -> Result<u64, ModelErr> {
                r.read_zeta(4)
            }
            fn my_len(n: u64) -> usize {
                len_zeta(n, 4)
            }
            pub fn check() {
                let codes = [Codes::Gamma, Codes::Delta, Codes::Zeta { k: 3 }, Codes::Pi { k: 2 }, Codes::Rice { log2_b: 5 }, Codes::Golomb { b: 7 }, Codes::ExpGolomb { k: 2 }, Codes::Omega];
                for &n in GRID {
                    // caller-supplied functions
                    let (mut a, mut b) = (S::new(pre(), true, 16), S::new(pre(), true, 16));
                    let fw = FuncCodeWriter::<$e, S>::new_with_func(my_write);
                    assert_eq!(fw.write(&mut a, n), my_write(&mut b, n), "new_with_func writer: returned value, n {n}");
                    assert_eq!(a.bits, b.bits, "new_with_func writer: bits, n {n}");
                    assert_eq!(FuncCodeLen::new_with_func(my_len).len(n), my_len(n), "new_with_func len, n {n}");
                    let (mut ra, mut rb) = (S::new(b.bits, true, 16), S::new(b.bits, true, 16));
                    ra.pos = 5;
                    rb.pos = 5;
                    let fr = FuncCodeReader::<$e, S>::new_with_func(my_read);
                    assert_eq!(fr.read(&mut ra), my_read(&mut rb), "new_with_func reader: value, n {n}");
                    assert_eq!(ra.pos, rb.pos, "new_with_func reader: bits consumed, n {n}");
                    let ff = FactoryFuncCodeReader::<$e, Fac>::new_with_func(my_read);
                    let fac = Fac(b.bits, 5);
                    let mut rd = fac.new_reader();
                    assert_eq!(ff.get().read(&mut rd), Ok(n), "factory new_with_func: value, n {n}");
                    assert_eq!(rd.pos, rb.pos, "factory new_with_func: bits consumed, n {n}");
                    // the pointers handed out by dispatchers built for a code
                    for code in codes {
                        let (mut a, mut b) = (S::new(pre(), true, 16), S::new(pre(), true, 16));
                        let wa = (FuncCodeWriter::<$e, S>::new(code).unwrap().get_func())(&mut a, n);
                        let wb = code.write(&mut b, n);
                        assert_eq!(wa, wb, "get_func writer {code}: returned value, n {n}");
                        assert_eq!(a.bits, b.bits, "get_func writer {code}: bits, n {n}");
                        assert_eq!((FuncCodeLen::new(code).unwrap().get_func())(n), code.len(n), "get_func len {code}, n {n}");
                        if wb.is_ok() {
                            let (mut ra, mut rb) = (S::new(b.bits, true, 16), S::new(b.bits, true, 16));
                            ra.pos = 5;
                            rb.pos = 5;
                            assert_eq!((FuncCodeReader::<$e, S>::new(code).unwrap().get_func())(&mut ra), code.read(&mut rb), "get_func reader {code}: value, n {n}");
                            assert_eq!(ra.pos, rb.pos, "get_func reader {code}: bits consumed, n {n}");
                            let fac = Fac(b.bits, 5);
                            let mut rd = fac.new_reader();
                            assert_eq!((FactoryFuncCodeReader::<$e, Fac>::new(code).unwrap().inner())(&mut rd), Ok(n), "factory inner {code}: value, n {n}");
                            assert_eq!(rd.pos, rb.pos, "factory inner {code}: bits consumed, n {n}");
                        }
                    }
                }
            }
        }
    };
}
wf!(be, BE);
wf!(le, LE);

#[test]
fn c10_with_func_be() {
    be::check();
}
#[test]
fn c10_with_func_le() {
    le::check();
}
