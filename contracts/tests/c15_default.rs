//! C15 — the default `CodesStats<10, 20, 10, 10, 10>` instance: concrete native
//! obligations (the symbolic obligations `c15.{update,best}.dflt` exceed the solver
//! budget: 60 tracked codes with 20 Golomb moduli; the <3,4,3,3,3> instance is
//! proved symbolically by `c15.*.small`, the index-to-parameter map being the same
//! generic code).
use dsi_bitstream::prelude::*;
use dsi_bitstream::utils::CodesStats;

fn values() -> Vec<u64> {
    let mut v = vec![0u64, 1, 2, 3, 5, 7, 8, 15, 16, 100, 255, 256, 1000, 65_535, 65_536, 1 << 20];
    for e in [31u32, 32, 33, 40, 48, 56, 62, 63] {
        v.extend([(1u64 << e) - 1, 1u64 << e, (1u64 << e) + 12345]);
    }
    v.push(u64::MAX - 1);
    v
}

/// every tracked code with the exact number of bits needed for `vals` (independent recomputation)
fn expected(vals: &[(u64, u64)]) -> Vec<(Codes, u64)> {
    let mut codes = vec![Codes::Unary, Codes::Gamma, Codes::Delta, Codes::Omega, Codes::VByteBe];
    codes.extend((1..=10).map(|k| Codes::Zeta { k }));
    codes.extend((1..=20).map(|b| Codes::Golomb { b }));
    codes.extend((0..10).map(|k| Codes::ExpGolomb { k }));
    codes.extend((0..10).map(|log2_b| Codes::Rice { log2_b }));
    codes.extend((2..12).map(|k| Codes::Pi { k }));
    codes.into_iter().map(|c| (c, vals.iter().map(|&(n, m)| c.len(n) as u64 * m).sum())).collect()
}

fn totals(s: &CodesStats) -> Vec<u64> {
    let mut t = vec![s.unary, s.gamma, s.delta, s.omega, s.vbyte];
    t.extend(s.zeta);
    t.extend(s.golomb);
    t.extend(s.exp_golomb);
    t.extend(s.rice);
    t.extend(s.pi);
    t
}

fn small(n: u64) -> bool {
    // keep the unary / Rice_0 / Golomb_1 totals within 64 bits (the property's restriction)
    n < 1 << 40
}

#[test]
fn c15_default_update_exact() {
    for &n in values().iter().filter(|&&n| small(n)) {
        for m in [1u64, 2, 7, 1000] {
            let mut s = CodesStats::<10, 20, 10, 10, 10>::default();
            s.update_many(n, m);
            let exp = expected(&[(n, m)]);
            assert_eq!(s.total, m, "count for {n} x {m}");
            assert_eq!(totals(&s), exp.iter().map(|e| e.1).collect::<Vec<_>>(), "totals for {n} x {m}");
        }
    }
}

#[test]
fn c15_default_best_is_minimum() {
    let vs: Vec<u64> = values().into_iter().filter(|&n| small(n)).collect();
    // single values, pairs and one long multiset
    let mut multisets: Vec<Vec<(u64, u64)>> = vs.iter().map(|&n| vec![(n, 1)]).collect();
    for i in 0..vs.len() {
        for j in (i + 1..vs.len()).step_by(3) {
            multisets.push(vec![(vs[i], 3), (vs[j], 2)]);
        }
    }
    multisets.push(vs.iter().map(|&n| (n, 1 + n % 5)).collect());
    for ms in multisets {
        let mut s = CodesStats::<10, 20, 10, 10, 10>::default();
        for &(n, m) in &ms {
            s.update_many(n, m);
        }
        let (best, cost) = s.best_code();
        let exp = expected(&ms);
        let min = exp.iter().map(|e| e.1).min().unwrap();
        assert_eq!(cost, min, "reported cost is the minimum total for {ms:?}");
        let real: u64 = ms.iter().map(|&(n, m)| best.len(n) as u64 * m).sum();
        assert_eq!(real, cost, "the reported code {best:?} really needs the reported number of bits for {ms:?}");
        assert!(exp.iter().any(|e| e.0 == best), "the reported code {best:?} is a tracked code");
    }
}

#[test]
fn c15_default_merge_is_union() {
    let vs: Vec<u64> = values().into_iter().filter(|&n| small(n)).collect();
    let (a, b) = vs.split_at(vs.len() / 2);
    let mut sa = CodesStats::<10, 20, 10, 10, 10>::default();
    let mut sb = CodesStats::<10, 20, 10, 10, 10>::default();
    let mut all = CodesStats::<10, 20, 10, 10, 10>::default();
    for &n in a {
        sa.update(n);
        all.update(n);
    }
    for &n in b {
        sb.update_many(n, 3);
        all.update_many(n, 3);
    }
    let mut m1 = sa;
    m1.add(&sb);
    let m2 = sa + sb;
    let mut m3 = sa;
    m3 += sb;
    let m4: CodesStats<10, 20, 10, 10, 10> = [sa, sb].into_iter().sum();
    for m in [m1, m2, m3, m4] {
        assert_eq!(m.total, all.total);
        assert_eq!(totals(&m), totals(&all), "merge = union");
    }
}
