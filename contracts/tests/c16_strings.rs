//! C16 (textual part) — concrete obligations executed natively on the real code:
//! for every variant and a grid of parameters, Display then FromStr yields the
//! same code; malformed strings are rejected. Bounded (a grid), not a proof.
use dsi_bitstream::dispatch::Codes;
use std::str::FromStr;

const PARAMS: &[usize] = &[0, 1, 2, 3, 7, 10, 11, 63, 64, 1 << 32, usize::MAX];

fn rt(c: Codes) {
    let s = c.to_string();
    match Codes::from_str(&s) {
        // structural identity, not the coarser PartialEq of Codes
        Ok(d) => assert_eq!(format!("{:?}", d), format!("{:?}", c), "parsing {s:?}"),
        Err(e) => panic!("formatting {:?} gives {s:?}, which does not parse: {e}", c),
    }
}

#[test]
fn c16_str_parameterless() {
    for c in [Codes::Unary, Codes::Gamma, Codes::Delta, Codes::Omega, Codes::VByteBe, Codes::VByteLe] {
        rt(c);
    }
}
#[test]
fn c16_str_zeta() {
    for &k in PARAMS {
        rt(Codes::Zeta { k });
    }
}
#[test]
fn c16_str_pi() {
    for &k in PARAMS {
        rt(Codes::Pi { k });
    }
}
#[test]
fn c16_str_golomb() {
    for &b in PARAMS {
        rt(Codes::Golomb { b });
    }
}
#[test]
fn c16_str_exp_golomb() {
    for &k in PARAMS {
        rt(Codes::ExpGolomb { k });
    }
}
#[test]
fn c16_str_rice() {
    for &k in PARAMS {
        rt(Codes::Rice { log2_b: k });
    }
}
#[test]
fn c16_reject_malformed() {
    for s in [
        "", " ", "gamma", "GAMMA", "Gama", "Zeta", "Zeta()", "Zeta(", "Zeta(x)", "Zeta(-1)", "Zeta(1.5)", "Zeta( 3)",
        "Zeta(99999999999999999999999)", "Foo(3)", "(3)", "Rice", "Pi()", "Golomb(abc)", "ExpGolomb(",
    ] {
        assert!(Codes::from_str(s).is_err(), "{s:?} must be rejected, got {:?}", Codes::from_str(s));
    }
}

#[test]
fn c16_ids_out_of_range_rejected() {
    for id in [51usize, 52, 64, 100, 1 << 20, usize::MAX] {
        assert!(Codes::from_code_const(id).is_err(), "identifier {id} must be rejected");
    }
    for id in 0..=50usize {
        assert!(Codes::from_code_const(id).is_ok(), "identifier {id} must be accepted");
    }
}
#[test]
fn c16_codes_without_identifier_rejected() {
    for c in [Codes::Zeta { k: 0 }, Codes::Zeta { k: 11 }, Codes::Pi { k: 11 }, Codes::Golomb { b: 0 }, Codes::Golomb { b: 11 },
              Codes::ExpGolomb { k: 11 }, Codes::Rice { log2_b: 11 }, Codes::Rice { log2_b: usize::MAX }] {
        assert!(c.to_code_const().is_err(), "{c:?} has no identifier");
    }
}
