//! Native self-test of the specification (run by `bin/setup` and by hand:
//! `cargo test --offline` in /verif/contracts). It never involves the
//! library's encoders for its verdict: the oracle is the list of literal
//! codewords transcribed from the repository's own tests and doc tables.

use crate::model::Bits;
use crate::spec;
use crate::vectors_gen::VECTORS;

fn spec_bits(code: &str, le: bool, n: u64, k: u64) -> Bits {
    let mut b = Bits::new();
    let ok = match code {
        "unary" => spec::push_unary(&mut b, n),
        "gamma" => spec::push_gamma(&mut b, le, n),
        "delta" => spec::push_delta(&mut b, le, n),
        "omega" => spec::push_omega(&mut b, le, n),
        "zeta" => spec::push_zeta(&mut b, le, n, k as usize),
        "pi" => spec::push_pi(&mut b, le, n, k as usize),
        _ => panic!("unknown code {code}"),
    };
    assert!(ok);
    b
}

fn check(code: &str, le: bool, n: u64, k: u64, word: u64) {
    let b = spec_bits(code, le, n, k);
    assert!(b.clean());
    for i in 0..64 {
        let vb = if le { (word >> i) & 1 != 0 } else { (word >> (63 - i)) & 1 != 0 };
        let sb = i < b.len && b.bit(i);
        assert_eq!(sb, vb, "{code}({n},{k}) le={le} bit {i}: spec {sb} literal {vb} (spec len {})", b.len);
    }
    assert!(b.len <= 64);
}

#[test]
fn spec_matches_literal_vectors() {
    let mut n_checked = 0;
    for &(code, n, k, be, le) in VECTORS {
        if let Some(c) = code.strip_suffix("_doc_be") {
            check(c, false, n, 0, be);
            assert_eq!(spec_bits(c, false, n, 0).len as u64, k, "doc table length of {c}({n})");
        } else if let Some(c) = code.strip_suffix("_be") {
            check(c, false, n, k, be);
        } else {
            check(code, false, n, k, be);
            check(code, true, n, k, le);
        }
        n_checked += 1;
    }
    assert!(n_checked >= 140, "only {n_checked} vectors");
}

#[test]
fn spec_lengths_are_consistent() {
    let vals: Vec<u64> = (0..300u64)
        .chain((1..64).flat_map(|i| [(1u64 << i) - 1, 1u64 << i, (1u64 << i) + 1]))
        .chain([u64::MAX - 1])
        .collect();
    for &n in &vals {
        for le in [false, true] {
            let mut b = Bits::new();
            assert!(spec::push_gamma(&mut b, le, n));
            assert_eq!(b.len as u128, spec::len_gamma(n));
            let mut b = Bits::new();
            assert!(spec::push_delta(&mut b, le, n));
            assert_eq!(b.len as u128, spec::len_delta(n));
            let mut b = Bits::new();
            assert!(spec::push_omega(&mut b, le, n));
            assert_eq!(b.len as u128, spec::len_omega(n));
            for k in 1..=63usize {
                let mut b = Bits::new();
                assert!(spec::push_zeta(&mut b, le, n, k));
                assert_eq!(b.len as u128, spec::len_zeta(n, k), "zeta {n} {k}");
            }
            for k in 0..=63usize {
                let mut b = Bits::new();
                assert!(spec::push_pi(&mut b, le, n, k));
                assert_eq!(b.len as u128, spec::len_pi(n, k));
                let mut b = Bits::new();
                assert!(spec::push_exp_golomb(&mut b, le, n, k));
                assert_eq!(b.len as u128, spec::len_exp_golomb(n, k));
                if n >> k < 150 {
                    let mut b = Bits::new();
                    assert!(spec::push_rice(&mut b, le, n, k));
                    assert_eq!(b.len as u128, spec::len_rice(n, k));
                }
            }
            for big in [false, true] {
                let mut b = Bits::new();
                assert!(spec::push_vbyte(&mut b, le, n, big));
                assert_eq!(b.len as u128, spec::len_vbyte(n));
            }
        }
    }
}

/// The documented examples: minimal binary with bound 7 (codes/mod.rs), ω(10)
/// (codes/omega.rs), γ(4) LE = 01100 (codes/mod.rs), VByte length steps.
#[test]
fn spec_matches_documented_examples() {
    let words = ["00", "010", "011", "100", "101", "110", "111"];
    for (x, w) in words.iter().enumerate() {
        let mut b = Bits::new();
        assert!(spec::push_minimal_binary(&mut b, false, x as u64, 7));
        let s: String = (0..b.len).map(|i| if b.bit(i) { '1' } else { '0' }).collect();
        assert_eq!(&s, w);
    }
    // "we have to encode 2 as 011 in the big-endian case, and as 101 in the little-endian case"
    // (the LE string is written most-significant-bit first, i.e. stream order reversed)
    let mut b = Bits::new();
    assert!(spec::push_minimal_binary(&mut b, true, 2, 7));
    let s: String = (0..b.len).rev().map(|i| if b.bit(i) { '1' } else { '0' }).collect();
    assert_eq!(s, "101");
    let mut b = Bits::new();
    assert!(spec::push_omega(&mut b, false, 10));
    let s: String = (0..b.len).map(|i| if b.bit(i) { '1' } else { '0' }).collect();
    assert_eq!(s, "1110110");
    let mut b = Bits::new();
    assert!(spec::push_omega(&mut b, true, 10));
    let s: String = (0..b.len).rev().map(|i| if b.bit(i) { '1' } else { '0' }).collect();
    assert_eq!(s, "0011111");
    let mut b = Bits::new();
    assert!(spec::push_gamma(&mut b, true, 4));
    let s: String = (0..b.len).rev().map(|i| if b.bit(i) { '1' } else { '0' }).collect();
    assert_eq!(s, "01100");
    assert_eq!(spec::vbyte_len(127), 1);
    assert_eq!(spec::vbyte_len(128), 2);
    assert_eq!(spec::vbyte_len(128 + 128 * 128 - 1), 2);
    assert_eq!(spec::vbyte_len(128 + 128 * 128), 3);
    assert_eq!(spec::vbyte_len(u64::MAX), 10);
    // git's varint (big-endian complete ungrouped): 128 -> 0x80 0x00
    assert_eq!(spec::vbyte_byte(128, true, 0), 0x80);
    assert_eq!(spec::vbyte_byte(128, true, 1), 0x00);
}

/// Informational only (not a deciding step, `#[ignore]`d): on the tree the spec
/// was written against, the real library over the model produces the spec's
/// bits on a grid. Run by hand with `cargo test -- --ignored` when editing spec.rs.
#[test]
#[ignore]
fn informational_spec_vs_library_grid() {
    use crate::model::BitsStream;
    use dsi_bitstream::prelude::*;
    let vals: Vec<u64> = (0..200u64)
        .chain((1..64).flat_map(|i| [(1u64 << i) - 1, 1u64 << i, (1u64 << i) + 1]))
        .chain([u64::MAX - 1])
        .collect();
    macro_rules! both {
        ($e:ty, $le:expr) => {{
            for &n in &vals {
                macro_rules! cmp {
                    ($name:expr, $w:expr, $s:expr) => {{
                        let mut m = BitsStream::<$e>::empty();
                        let r: Result<usize, _> = $w(&mut m);
                        let mut b = Bits::new();
                        let ok: bool = $s(&mut b);
                        if let (Ok(len), true) = (r, ok) {
                            assert_eq!(m.bits, b, "{} n={} le={} (bb/k in scope: see backtrace)", $name, n, $le);
                            assert_eq!(len, b.len, "{} n={} le={} returned length", $name, n, $le);
                        }
                    }};
                }
                cmp!("gamma", |m: &mut BitsStream<$e>| m.write_gamma_param::<false>(n), |b: &mut Bits| spec::push_gamma(b, $le, n));
                cmp!("gamma_t", |m: &mut BitsStream<$e>| m.write_gamma_param::<true>(n), |b: &mut Bits| spec::push_gamma(b, $le, n));
                cmp!("delta", |m: &mut BitsStream<$e>| m.write_delta_param::<false, false>(n), |b: &mut Bits| spec::push_delta(b, $le, n));
                cmp!("delta_t", |m: &mut BitsStream<$e>| m.write_delta_param::<true, true>(n), |b: &mut Bits| spec::push_delta(b, $le, n));
                cmp!("omega", |m: &mut BitsStream<$e>| m.write_omega(n), |b: &mut Bits| spec::push_omega(b, $le, n));
                cmp!("vbyte_be", |m: &mut BitsStream<$e>| m.write_vbyte_be(n), |b: &mut Bits| spec::push_vbyte(b, $le, n, true));
                cmp!("vbyte_le", |m: &mut BitsStream<$e>| m.write_vbyte_le(n), |b: &mut Bits| spec::push_vbyte(b, $le, n, false));
                cmp!("zeta3_t", |m: &mut BitsStream<$e>| m.write_zeta3_param::<true>(n), |b: &mut Bits| spec::push_zeta(b, $le, n, 3));
                for k in 1..=63usize {
                    cmp!("zeta", |m: &mut BitsStream<$e>| m.write_zeta_param::<false>(n, k), |b: &mut Bits| spec::push_zeta(b, $le, n, k));
                }
                for k in 0..=63usize {
                    cmp!("pi", |m: &mut BitsStream<$e>| m.write_pi(n, k), |b: &mut Bits| spec::push_pi(b, $le, n, k));
                    cmp!("exp_golomb", |m: &mut BitsStream<$e>| m.write_exp_golomb(n, k), |b: &mut Bits| spec::push_exp_golomb(b, $le, n, k));
                    cmp!("rice", |m: &mut BitsStream<$e>| m.write_rice(n, k), |b: &mut Bits| spec::push_rice(b, $le, n, k));
                }
                for bb in (1..70u64).chain([127, 128, 129, 1 << 32, (1 << 63) - 1, 1 << 63, (1 << 63) + 1, u64::MAX]) {
                    cmp!("golomb", |m: &mut BitsStream<$e>| m.write_golomb(n, bb), |b: &mut Bits| spec::push_golomb(b, $le, n, bb));
                    if n < bb {
                        cmp!("minimal_binary", |m: &mut BitsStream<$e>| m.write_minimal_binary(n, bb), |b: &mut Bits| spec::push_minimal_binary(b, $le, n, bb));
                    }
                }
            }
        }};
    }
    both!(BE, false);
    both!(LE, true);
}
