//! C13 — in-memory word streams behave as an array with a cursor.
//!
//! Functions under contract: `MemWordReader::{new, new_strict, read_word,
//! word_pos, set_word_pos}` (INF = true / false), `MemWordWriterSlice::{new, len,
//! is_empty, read_word, write_word, flush, word_pos, set_word_pos, into_inner}`,
//! `MemWordWriterVec::{…same…}` (owned and borrowed storage).
//!
//! Model: (array `a` of length `len`, cursor `c`). Every obligation starts from
//! an arbitrary model state, reached through the public API (`new` +
//! `set_word_pos`), performs one operation and compares with the model; the
//! array length is bounded by K (contents, length and cursor symbolic).

use crate::vw::VW;
use common_traits::CastableInto;
use dsi_bitstream::impls::{MemWordReader, MemWordWriterSlice, MemWordWriterVec};
use dsi_bitstream::traits::{WordRead, WordSeek, WordWrite};

/// positions are below 2^56 words (the stream is shorter than 2^64 bits)
const MAXPOS: u64 = 1 << 56;

pub fn reader_inf<W: VW, const K: usize>()
where
    u64: CastableInto<W>,
{
    let arr: [W; K] = W::any_array::<K>();
    let len: usize = kani::any();
    kani::assume(len <= K);
    let mut r = MemWordReader::<W, &[W]>::new(&arr[..len]);
    let Ok(p0) = r.word_pos();
    kani::assert(p0 == 0, "OBS c13.reader: a new reader is at position 0");
    let c: u64 = kani::any();
    kani::assume(c <= MAXPOS);
    let Ok(()) = r.set_word_pos(c);
    let Ok(p1) = r.word_pos();
    kani::assert(p1 == c, "OBS c13.reader.inf: position is reported exactly");
    let Ok(w) = r.read_word();
    let expect = if (c as usize) < len { arr[c as usize] } else { W::from128(0) };
    kani::assert(w == expect, "OBS c13.reader.inf: read returns the word under the cursor, zero beyond the end");
    let Ok(p2) = r.word_pos();
    kani::assert(p2 == c + 1, "OBS c13.reader.inf: read advances the cursor by one");
    kani::cover!((c as usize) < len, "c13.reader.inf reachable (inside)");
    kani::cover!((c as usize) > len, "c13.reader.inf reachable (beyond)");
}

pub fn reader_strict<W: VW, const K: usize>()
where
    u64: CastableInto<W>,
{
    let arr: [W; K] = W::any_array::<K>();
    let len: usize = kani::any();
    kani::assume(len <= K);
    let mut r = MemWordReader::<W, &[W], false>::new_strict(&arr[..len]);
    kani::assert(matches!(r.word_pos(), Ok(0)), "OBS c13.reader: a new reader is at position 0");
    let c: u64 = kani::any();
    let ok = r.set_word_pos(c).is_ok();
    kani::assert(ok == (c <= len as u64), "OBS c13.reader.strict: set_word_pos succeeds iff position <= length");
    let cur = if ok { c } else { 0 };
    kani::assert(matches!(r.word_pos(), Ok(p) if p == cur), "OBS c13.reader.strict: a rejected set_word_pos leaves the position unchanged");
    // a second, possibly rejected, seek from an arbitrary cursor
    let c2: u64 = kani::any();
    let ok2 = r.set_word_pos(c2).is_ok();
    kani::assert(ok2 == (c2 <= len as u64), "OBS c13.reader.strict: set_word_pos succeeds iff position <= length (2)");
    let cur = if ok2 { c2 } else { cur };
    kani::assert(matches!(r.word_pos(), Ok(p) if p == cur), "OBS c13.reader.strict: rejected seek from an arbitrary cursor leaves it unchanged");
    match r.read_word() {
        Ok(w) => {
            kani::assert((cur as usize) < len && w == arr[cur as usize], "OBS c13.reader.strict: read returns the word under the cursor");
            kani::assert(matches!(r.word_pos(), Ok(p) if p == cur + 1), "OBS c13.reader.strict: read advances the cursor by one");
        }
        Err(_) => {
            kani::assert(cur as usize == len, "OBS c13.reader.strict: error only at the end");
            kani::assert(matches!(r.word_pos(), Ok(p) if p == cur), "OBS c13.reader.strict: a failed read does not move the cursor");
        }
    }
    kani::cover!(ok && !ok2, "c13.reader.strict reachable (rejected seek)");
    kani::cover!(cur as usize == len && len > 0, "c13.reader.strict reachable (end)");
}

pub fn writer_slice<W: VW, const K: usize>()
where
    u64: CastableInto<W>,
{
    let orig: [W; K] = W::any_array::<K>();
    let mut arr = orig;
    let len: usize = kani::any();
    kani::assume(len <= K);
    let owned: bool = kani::any();
    let c: u64 = kani::any();
    let c2: u64 = kani::any();
    let w: W = W::any();
    let op: u8 = kani::any();
    kani::assume(op < 3);
    let i: usize = kani::any();

    // the same sequence on borrowed (&mut [W]) and owned ([W; K], full length) storage
    macro_rules! body {
        ($wr:expr, $len:expr) => {{
            let mut wr = $wr;
            let len: usize = $len;
            kani::assert(wr.len() == len && wr.is_empty() == (len == 0), "OBS c13.slice: len/is_empty report the storage length");
            kani::assert(matches!(wr.word_pos(), Ok(0)), "OBS c13.slice: a new writer is at position 0");
            let ok = wr.set_word_pos(c).is_ok();
            kani::assert(ok == (c <= len as u64), "OBS c13.slice: set_word_pos succeeds iff position <= length");
            let cur = if ok { c } else { 0 };
            let ok2 = wr.set_word_pos(c2).is_ok();
            kani::assert(ok2 == (c2 <= len as u64), "OBS c13.slice: set_word_pos succeeds iff position <= length (2)");
            let cur = if ok2 { c2 } else { cur };
            kani::assert(matches!(wr.word_pos(), Ok(p) if p == cur), "OBS c13.slice: a rejected set_word_pos leaves the position unchanged");
            let mut wrote = false;
            match op {
                0 => match wr.write_word(w) {
                    Ok(()) => {
                        wrote = true;
                        kani::assert((cur as usize) < len, "OBS c13.slice: write succeeds only inside the slice");
                        kani::assert(matches!(wr.word_pos(), Ok(p) if p == cur + 1), "OBS c13.slice: write advances the cursor by one");
                    }
                    Err(_) => {
                        kani::assert(cur as usize == len, "OBS c13.slice: write fails only at the end");
                        kani::assert(matches!(wr.word_pos(), Ok(p) if p == cur), "OBS c13.slice: a failed write does not move the cursor");
                    }
                },
                1 => match wr.read_word() {
                    Ok(x) => {
                        kani::assert((cur as usize) < len && x == orig[cur as usize], "OBS c13.slice: read returns the word under the cursor");
                        kani::assert(matches!(wr.word_pos(), Ok(p) if p == cur + 1), "OBS c13.slice: read advances the cursor by one");
                    }
                    Err(_) => {
                        kani::assert(cur as usize == len, "OBS c13.slice: read fails only at the end");
                        kani::assert(matches!(wr.word_pos(), Ok(p) if p == cur), "OBS c13.slice: a failed read does not move the cursor");
                    }
                },
                _ => {
                    kani::assert(wr.flush().is_ok(), "OBS c13.slice: flush succeeds");
                    kani::assert(matches!(wr.word_pos(), Ok(p) if p == cur), "OBS c13.slice: flush does not move the cursor");
                }
            }
            let data = wr.into_inner();
            let after: &[W] = AsRef::<[W]>::as_ref(&data);
            kani::assert(after.len() == len, "OBS c13.slice: the storage length never changes");
            if i < len {
                let expect = if wrote && i == cur as usize { w } else { orig[i] };
                kani::assert(after[i] == expect, "OBS c13.slice: write stores at the cursor and changes nothing else");
            }
        }};
    }
    if owned {
        kani::assume(len == K);
        body!(MemWordWriterSlice::<W, [W; K]>::new(arr), K);
    } else {
        body!(MemWordWriterSlice::<W, &mut [W]>::new(&mut arr[..len]), len);
    }
    kani::cover!(op == 0 && !owned && len > 0, "c13.slice reachable (borrowed write)");
    kani::cover!(op == 1 && owned, "c13.slice reachable (owned read)");
}

pub fn writer_vec<W: VW, const LEN: usize, const OWNED: bool>()
where
    u64: CastableInto<W>,
{
    let orig: [W; LEN] = W::any_array::<LEN>();
    let len: usize = LEN;
    let mut v: Vec<W> = orig.to_vec();
    let c: u64 = kani::any();
    let c2: u64 = kani::any();
    let w: W = W::any();
    let op: u8 = kani::any();
    kani::assume(op < 3);
    let i: usize = kani::any();

    macro_rules! body {
        ($wr:expr) => {{
            let mut wr = $wr;
            kani::assert(wr.len() == len && wr.is_empty() == (len == 0), "OBS c13.vec: len/is_empty report the vector length");
            kani::assert(matches!(wr.word_pos(), Ok(0)), "OBS c13.vec: a new writer is at position 0");
            let ok = wr.set_word_pos(c).is_ok();
            kani::assert(ok == (c <= len as u64), "OBS c13.vec: set_word_pos succeeds iff position <= length");
            let cur = if ok { c } else { 0 };
            let ok2 = wr.set_word_pos(c2).is_ok();
            kani::assert(ok2 == (c2 <= len as u64), "OBS c13.vec: set_word_pos succeeds iff position <= length (2)");
            let cur = if ok2 { c2 } else { cur };
            kani::assert(matches!(wr.word_pos(), Ok(p) if p == cur), "OBS c13.vec: a rejected set_word_pos leaves the position unchanged");
            let mut wrote = false;
            match op {
                0 => {
                    let Ok(()) = wr.write_word(w);
                    wrote = true;
                    kani::assert(matches!(wr.word_pos(), Ok(p) if p == cur + 1), "OBS c13.vec: write advances the cursor by one");
                }
                1 => match wr.read_word() {
                    Ok(x) => {
                        kani::assert((cur as usize) < len && x == orig[cur as usize % LEN.max(1)], "OBS c13.vec: read returns the word under the cursor");
                        kani::assert(matches!(wr.word_pos(), Ok(p) if p == cur + 1), "OBS c13.vec: read advances the cursor by one");
                    }
                    Err(_) => {
                        kani::assert(cur as usize == len, "OBS c13.vec: read fails only at the end");
                        kani::assert(matches!(wr.word_pos(), Ok(p) if p == cur), "OBS c13.vec: a failed read does not move the cursor");
                    }
                },
                _ => {
                    let Ok(()) = wr.flush();
                }
            }
            let new_len = if wrote && cur as usize == len { len + 1 } else { len };
            kani::assert(wr.len() == new_len, "OBS c13.vec: the vector grows by one only when writing at its end");
            let data = wr.into_inner();
            let after: &Vec<W> = AsRef::<Vec<W>>::as_ref(&data);
            if i < new_len {
                let expect = if wrote && i == cur as usize { w } else { orig[i % LEN.max(1)] };
                kani::assert(after[i] == expect, "OBS c13.vec: write stores at the cursor and changes nothing else");
            }
        }};
    }
    if OWNED {
        body!(MemWordWriterVec::<W, Vec<W>>::new(v));
    } else {
        body!(MemWordWriterVec::<W, &mut Vec<W>>::new(&mut v));
    }
    kani::cover!(op == 0 && c2 as usize == LEN, "c13.vec reachable (append)");
    kani::cover!(op == 1, "c13.vec reachable (read)");
}

macro_rules! c13_for {
    ($w:ty, $wl:ident) => {
        pub mod $wl {
            use super::*;
            #[kani::proof]
            #[kani::stub(alloc::fmt::format, crate::stubs::format_stub)]
            #[kani::unwind(8)]
            pub fn reader_inf_k3() { reader_inf::<$w, 3>() }
            #[kani::proof]
            #[kani::stub(alloc::fmt::format, crate::stubs::format_stub)]
            #[kani::unwind(8)]
            pub fn reader_strict_k3() { reader_strict::<$w, 3>() }
            #[kani::proof]
            #[kani::stub(alloc::fmt::format, crate::stubs::format_stub)]
            #[kani::unwind(8)]
            pub fn writer_slice_k3() { writer_slice::<$w, 3>() }
            #[kani::proof]
            #[kani::stub(alloc::fmt::format, crate::stubs::format_stub)]
            #[kani::unwind(8)]
            pub fn reader_inf_k6() { reader_inf::<$w, 6>() }
            #[kani::proof]
            #[kani::stub(alloc::fmt::format, crate::stubs::format_stub)]
            #[kani::unwind(8)]
            pub fn reader_strict_k6() { reader_strict::<$w, 6>() }
            #[kani::proof]
            #[kani::stub(alloc::fmt::format, crate::stubs::format_stub)]
            #[kani::unwind(8)]
            pub fn writer_slice_k6() { writer_slice::<$w, 6>() }
            #[kani::proof]
            #[kani::stub(alloc::fmt::format, crate::stubs::format_stub)]
            #[kani::unwind(8)]
            pub fn writer_vec_len0_owned() { writer_vec::<$w, 0, true>() }
            #[kani::proof]
            #[kani::stub(alloc::fmt::format, crate::stubs::format_stub)]
            #[kani::unwind(8)]
            pub fn writer_vec_len0_borrowed() { writer_vec::<$w, 0, false>() }
            #[kani::proof]
            #[kani::stub(alloc::fmt::format, crate::stubs::format_stub)]
            #[kani::unwind(8)]
            pub fn writer_vec_len1_owned() { writer_vec::<$w, 1, true>() }
            #[kani::proof]
            #[kani::stub(alloc::fmt::format, crate::stubs::format_stub)]
            #[kani::unwind(8)]
            pub fn writer_vec_len1_borrowed() { writer_vec::<$w, 1, false>() }
            #[kani::proof]
            #[kani::stub(alloc::fmt::format, crate::stubs::format_stub)]
            #[kani::unwind(8)]
            pub fn writer_vec_len2_owned() { writer_vec::<$w, 2, true>() }
            #[kani::proof]
            #[kani::stub(alloc::fmt::format, crate::stubs::format_stub)]
            #[kani::unwind(8)]
            pub fn writer_vec_len2_borrowed() { writer_vec::<$w, 2, false>() }
            #[kani::proof]
            #[kani::stub(alloc::fmt::format, crate::stubs::format_stub)]
            #[kani::unwind(8)]
            pub fn writer_vec_len3_owned() { writer_vec::<$w, 3, true>() }
            #[kani::proof]
            #[kani::stub(alloc::fmt::format, crate::stubs::format_stub)]
            #[kani::unwind(8)]
            pub fn writer_vec_len3_borrowed() { writer_vec::<$w, 3, false>() }
        }
    };
}
c13_for!(u8, u8_);
c13_for!(u16, u16_);
c13_for!(u32, u32_);
c13_for!(u64, u64_);
c13_for!(u128, u128_);
