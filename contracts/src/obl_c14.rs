//! C14 — counting and tracing wrappers are transparent and count exactly
//! (client obligations: the wrappers over the abstract model).
//!
//! Functions under contract: every method of `CountBitWriter`, `CountBitReader`
//! (src/utils/count.rs) and `DbgBitWriter`, `DbgBitReader` (src/utils/dbg_codes.rs),
//! and, through them, the codes that reach the stream via the wrapper's
//! primitives (ω, π, Rice, …, table-parameterised γ/δ/ζ, default copy loops).

use crate::model::{Bits, BitsStream, ModelErr};
use crate::vw::VE;
use dsi_bitstream::codes::*;
use dsi_bitstream::traits::{BitRead, BitSeek, BitWrite, BE, LE};
use dsi_bitstream::utils::{CountBitReader, CountBitWriter, DbgBitReader, DbgBitWriter};

macro_rules! c14_for {
    ($e:ty, $m:ident) => {
        pub mod $m {
            use super::*;
            pub type S = BitsStream<$e>;

            /// one symbolically chosen write operation through a writer `W`
            /// (wrapper or bare stream); returns the operation's result
            macro_rules! write_op {
                ($w:expr, $op:expr, $n:expr, $k:expr, $src:expr) => {
                    match $op {
                        0 => $w.write_bits($n, $k),
                        1 => $w.write_unary($n),
                        2 => $w.write_gamma($n),
                        3 => $w.write_delta($n),
                        4 => $w.write_zeta($n, $k),
                        5 => $w.write_zeta3($n),
                        6 => $w.write_omega($n),
                        7 => $w.write_pi($n, $k),
                        8 => $w.write_rice($n, $k),
                        9 => $w.write_exp_golomb($n, $k),
                        10 => $w.write_vbyte_be($n),
                        11 => $w.write_gamma_param::<true>($n),
                        12 => $w.write_delta_param::<true, false>($n),
                        13 => $w.write_minimal_binary($n % 11, 11),
                        _ => match $w.copy_from($src, $k as u64) {
                            Ok(()) => Ok($k),
                            Err(_) => Err(ModelErr::End),
                        },
                    }
                };
            }

            fn write_args(op: u8) -> (u8, u64, usize) {
                let n: u64 = kani::any();
                let k: usize = kani::any();
                match op {
                    0 => kani::assume(k <= 64 && (k == 64 || n >> k == 0)),
                    1 => kani::assume(n < 200),
                    4 => kani::assume(k >= 1 && k <= 8 && n < u64::MAX),
                    7 | 8 | 9 => kani::assume(k <= 8 && n < u64::MAX && (op != 8 || n >> k < 200)),
                    14 => kani::assume(k <= 100),
                    _ => kani::assume(n < u64::MAX),
                }
                (op, n, k)
            }

            /// CountBitWriter: same bits, same results, counter = bits appended
            pub fn count_writer(opfix: u8) {
                let pre = Bits::any(8);
                let (op, n, k) = write_args(opfix);
                let src_bits = Bits::any(128);
                let mut src_a = S::new(src_bits, true, 16);
                let mut src_b = S::new(src_bits, true, 16);
                let mut bare = S::new(pre, true, 16);
                let mut cw = CountBitWriter::<$e, S>::new(S::new(pre, true, 16));
                let c0: usize = kani::any();
                kani::assume(c0 < 1 << 40);
                cw.bits_written = c0;
                let rb = write_op!(bare, op, n, k, &mut src_b);
                let rw = write_op!(cw, op, n, k, &mut src_a);
                let counter = cw.bits_written;
                let inner = cw.into_inner();
                kani::assert(rw == rb, "OBS c14.count_writer: the wrapper returns what the wrapped writer returns");
                kani::assert(inner.bits.same(&bare.bits), "OBS c14.count_writer: the wrapper writes exactly the bits the wrapped writer would");
                if rw.is_ok() {
                    kani::assert(
                        counter - c0 == inner.bits.len - pre.len,
                        "OBS c14.count_writer: bits_written grows by exactly the number of bits appended to the stream",
                    );
                }
                if rw.is_err() && inner.bits.len == pre.len {
                    kani::assert(counter == c0, "OBS c14.count_writer.err: a failed operation that appended nothing to the stream is not counted");
                }
                kani::cover!(rw.is_ok() && inner.bits.len > pre.len, "c14.count_writer reachable (bits appended)");
            }

            /// flush appends nothing to the stream: the counter must not change
            pub fn count_writer_flush() {
                let pre = Bits::any(8);
                let mut inner0 = S::new(pre, true, 16);
                let pending: usize = kani::any();
                kani::assume(pending < 128);
                inner0.flush_ret = pending;
                let mut cw = CountBitWriter::<$e, S>::new(inner0);
                let c0: usize = kani::any();
                kani::assume(c0 < 1 << 40);
                cw.bits_written = c0;
                let r = cw.flush();
                kani::assert(r == Ok(pending), "OBS c14.count_writer.flush: returns what the wrapped writer returns");
                kani::assert(
                    cw.bits_written == c0,
                    "OBS c14.count_writer.flush: flushing writes no new stream bits, so bits_written does not change",
                );
                let inner = cw.into_inner();
                kani::assert(inner.flushes == 1 && inner.bits.same(&pre), "OBS c14.count_writer.flush: the wrapped writer is flushed once");
                kani::cover!(pending > 0, "c14.count_writer.flush reachable");
            }

            macro_rules! read_op {
                ($r:expr, $op:expr, $k:expr, $dst:expr) => {
                    match $op {
                        0 => $r.read_bits($k),
                        1 => $r.read_unary(),
                        2 => $r.read_gamma(),
                        3 => $r.read_delta(),
                        4 => $r.read_zeta($k),
                        5 => $r.read_zeta3(),
                        6 => $r.read_omega(),
                        7 => $r.read_pi($k),
                        8 => $r.read_rice($k),
                        9 => $r.read_exp_golomb($k),
                        10 => $r.read_vbyte_le(),
                        11 => $r.read_gamma_param::<true>(),
                        12 => $r.read_delta_param::<true, true>(),
                        13 => $r.read_zeta3_param::<true>(),
                        14 => $r.read_minimal_binary(11),
                        15 => match $r.skip_bits($k) {
                            Ok(()) => Ok(0),
                            Err(e) => Err(e),
                        },
                        16 => match $r.peek_bits(if $k == 0 { 1 } else { $k }) {
                            Ok(v) => {
                                $r.skip_bits_after_peek($k);
                                Ok(v)
                            }
                            Err(e) => Err(e),
                        },
                        _ => match $r.copy_to($dst, $k as u64) {
                            Ok(()) => Ok(0),
                            Err(_) => Err(ModelErr::End),
                        },
                    }
                };
            }

            /// a valid stream for read operation `op`: written by the library's own
            /// (bare) writer, followed by arbitrary bits
            fn read_setup(op: u8) -> (u8, usize, Bits, usize) {
                let n: u64 = kani::any();
                let k: usize = kani::any();
                let pre = Bits::any(8);
                let mut w = S::new(pre, true, 16);
                let start = pre.len;
                let wr = match op {
                    0 | 15 | 16 | 17 => {
                        kani::assume(if op == 16 { k <= 16 } else if op == 0 { k <= 64 } else { k <= 100 });
                        Ok(0)
                    }
                    1 => {
                        kani::assume(n < 150);
                        w.write_unary(n)
                    }
                    2 | 11 => {
                        kani::assume(n < u64::MAX);
                        w.write_gamma(n)
                    }
                    3 | 12 => {
                        kani::assume(n < u64::MAX);
                        w.write_delta(n)
                    }
                    4 => {
                        kani::assume(k >= 1 && k <= 8 && n < u64::MAX);
                        w.write_zeta(n, k)
                    }
                    5 | 13 => {
                        kani::assume(n < u64::MAX);
                        w.write_zeta3(n)
                    }
                    6 => {
                        kani::assume(n < u64::MAX);
                        w.write_omega(n)
                    }
                    7 => {
                        kani::assume(k <= 8 && n < u64::MAX);
                        w.write_pi(n, k)
                    }
                    8 => {
                        kani::assume(k <= 8 && n >> k < 150);
                        w.write_rice(n, k)
                    }
                    9 => {
                        kani::assume(k <= 8 && n < u64::MAX);
                        w.write_exp_golomb(n, k)
                    }
                    10 => w.write_vbyte_le(n),
                    _ => w.write_minimal_binary(n % 11, 11),
                };
                kani::assume(wr.is_ok());
                // arbitrary following bits
                let suf: u128 = kani::any();
                let nsuf: usize = kani::any();
                kani::assume(nsuf <= 110);
                kani::assume(w.bits.push(suf, nsuf));
                (op, k, w.bits, start)
            }

            /// CountBitReader / CountBitWriter as BitSeek: positions are those of the wrapped stream
            pub fn count_reader_seek() {
                let bits = Bits::any(64);
                let strict: bool = kani::any();
                let start: usize = kani::any();
                kani::assume(start <= bits.len);
                let mut bare = S::new(bits, strict, 16);
                bare.pos = start;
                let mut inner0 = S::new(bits, strict, 16);
                inner0.pos = start;
                let mut cr = CountBitReader::<$e, S>::new(inner0);
                let c0: usize = kani::any();
                kani::assume(c0 < 1 << 40);
                cr.bits_read = c0;
                kani::assert(cr.bit_pos() == bare.bit_pos(), "OBS c14.count_reader.bit_pos: the wrapper reports the position of the wrapped stream");
                let q: u64 = kani::any();
                kani::assume(q <= 300);
                let rb = bare.set_bit_pos(q);
                let rr = cr.set_bit_pos(q);
                kani::assert(rr == rb, "OBS c14.count_reader.set_bit_pos: the wrapper returns what the wrapped stream returns");
                kani::assert(cr.bit_pos() == bare.bit_pos(), "OBS c14.count_reader.set_bit_pos: the wrapper reports the position of the wrapped stream after a seek");
                let inner = cr.into_inner();
                kani::assert(inner.pos == bare.pos, "OBS c14.count_reader.set_bit_pos: the wrapped stream is positioned where the bare stream is");
                kani::cover!(rr.is_ok() && q as usize != start && start > 0 && c0 != start, "c14.count_reader.seek reachable");
            }

            pub fn count_writer_seek() {
                let pre = Bits::any(64);
                let start: usize = kani::any();
                kani::assume(start <= pre.len);
                let mut bare = S::new(pre, true, 16);
                bare.pos = start;
                let mut inner0 = S::new(pre, true, 16);
                inner0.pos = start;
                let mut cw = CountBitWriter::<$e, S>::new(inner0);
                let c0: usize = kani::any();
                kani::assume(c0 < 1 << 40);
                cw.bits_written = c0;
                kani::assert(cw.bit_pos() == bare.bit_pos(), "OBS c14.count_writer.bit_pos: the wrapper reports the position of the wrapped stream");
                let q: u64 = kani::any();
                kani::assume(q <= 300);
                let rb = bare.set_bit_pos(q);
                let rw = cw.set_bit_pos(q);
                kani::assert(rw == rb, "OBS c14.count_writer.set_bit_pos: the wrapper returns what the wrapped stream returns");
                kani::assert(cw.bit_pos() == bare.bit_pos(), "OBS c14.count_writer.set_bit_pos: the wrapper reports the position of the wrapped stream after a seek");
                kani::assert(cw.bits_written == c0, "OBS c14.count_writer.set_bit_pos: seeking writes nothing, so bits_written does not change");
                kani::cover!(rw.is_ok() && q as usize != start && c0 != start, "c14.count_writer.seek reachable");
            }

            /// CountBitReader: same values, same position, counter = bits consumed
            pub fn count_reader(opfix: u8) {
                let (op, k, bits, start) = read_setup(opfix);
                let strict: bool = kani::any();
                let mut bare = S::new(bits, strict, 16);
                bare.pos = start;
                let mut inner0 = S::new(bits, strict, 16);
                inner0.pos = start;
                let mut cr = CountBitReader::<$e, S>::new(inner0);
                let c0: usize = kani::any();
                kani::assume(c0 < 1 << 40);
                cr.bits_read = c0;
                let mut dst_a = S::empty();
                let mut dst_b = S::empty();
                let rb = read_op!(bare, op, k, &mut dst_b);
                let rr = read_op!(cr, op, k, &mut dst_a);
                let counter = cr.bits_read;
                let inner = cr.into_inner();
                kani::assert(rr == rb, "OBS c14.count_reader: the wrapper returns what the wrapped reader returns");
                kani::assert(dst_a.bits.same(&dst_b.bits), "OBS c14.count_reader: a copy through the wrapper transfers the same bits");
                if rr.is_ok() {
                    kani::assert(inner.pos == bare.pos, "OBS c14.count_reader: the wrapper leaves the stream at the same position");
                    kani::assert(
                        counter - c0 == inner.pos - start,
                        "OBS c14.count_reader: bits_read grows by exactly the number of bits consumed from the stream",
                    );
                }
                if rr.is_err() && inner.pos == start {
                    kani::assert(counter == c0, "OBS c14.count_reader.err: a failed operation that consumed nothing from the stream is not counted");
                }
                kani::cover!(rr.is_ok() && inner.pos > start, "c14.count_reader reachable (bits consumed)");
                kani::cover!((op != 0 && op != 15) || (rr.is_err() && inner.pos == start), "c14.count_reader reachable (failed fixed-width read / skip, nothing consumed)");
            }

            /// DbgBitWriter / DbgBitReader are transparent
            pub fn dbg_writer(opfix: u8) {
                let pre = Bits::any(8);
                let (op, n, k) = write_args(opfix);
                let src_bits = Bits::any(128);
                let mut src_a = S::new(src_bits, true, 16);
                let mut src_b = S::new(src_bits, true, 16);
                let mut bare = S::new(pre, true, 16);
                let mut dw = DbgBitWriter::<$e, S>::new(S::new(pre, true, 16));
                let rb = write_op!(bare, op, n, k, &mut src_b);
                let rw = write_op!(dw, op, n, k, &mut src_a);
                kani::assert(rw == rb, "OBS c14.dbg_writer: the wrapper returns what the wrapped writer returns");
                // the wrapped stream is private: observe it through a final flush marker and the source cursor
                kani::assert(src_a.pos == src_b.pos, "OBS c14.dbg_writer: a copy through the wrapper consumes the same source bits");
                kani::cover!(rw.is_ok(), "c14.dbg_writer reachable");
            }

            pub fn dbg_reader(opfix: u8) {
                let (op, k, bits, start) = read_setup(opfix);
                let mut bare = S::new(bits, true, 16);
                bare.pos = start;
                let mut inner0 = S::new(bits, true, 16);
                inner0.pos = start;
                let mut dr = DbgBitReader::<$e, S>::new(inner0);
                let mut dst_a = S::empty();
                let mut dst_b = S::empty();
                let rb = read_op!(bare, op, k, &mut dst_b);
                let rr = read_op!(dr, op, k, &mut dst_a);
                kani::assert(rr == rb, "OBS c14.dbg_reader: the wrapper returns what the wrapped reader returns");
                kani::assert(dst_a.bits.same(&dst_b.bits), "OBS c14.dbg_reader: a copy through the wrapper transfers the same bits");
                // continue with a plain read on both: same value <=> same position
                let m: usize = kani::any();
                kani::assume(m <= 16);
                let xa = dr.read_bits(m);
                let xb = bare.read_bits(m);
                kani::assert(rr.is_err() || xa == xb, "OBS c14.dbg_reader: the wrapper leaves the stream at the same position");
                kani::cover!(rr.is_ok(), "c14.dbg_reader reachable");
            }
        }
    };
}
c14_for!(BE, be);
c14_for!(LE, le);

macro_rules! h {
    ($name:ident, $unw:expr, $body:expr) => {
        #[kani::proof]
        #[kani::unwind($unw)]
        pub fn $name() {
            $body
        }
    };
}
pub mod hbe {
    use super::*;
    h!(count_writer_flush, 4, be::count_writer_flush());
    h!(count_reader_seek, 4, be::count_reader_seek());
    h!(count_writer_seek, 4, be::count_writer_seek());
    h!(count_writer_write_bits, 12, be::count_writer(0));
    h!(dbg_writer_write_bits, 12, be::dbg_writer(0));
    h!(count_writer_write_unary, 12, be::count_writer(1));
    h!(dbg_writer_write_unary, 12, be::dbg_writer(1));
    h!(count_writer_write_gamma, 12, be::count_writer(2));
    h!(dbg_writer_write_gamma, 12, be::dbg_writer(2));
    h!(count_writer_write_delta, 12, be::count_writer(3));
    h!(dbg_writer_write_delta, 12, be::dbg_writer(3));
    h!(count_writer_write_zeta, 12, be::count_writer(4));
    h!(dbg_writer_write_zeta, 12, be::dbg_writer(4));
    h!(count_writer_write_zeta3, 12, be::count_writer(5));
    h!(dbg_writer_write_zeta3, 12, be::dbg_writer(5));
    h!(count_writer_write_omega, 12, be::count_writer(6));
    h!(dbg_writer_write_omega, 12, be::dbg_writer(6));
    h!(count_writer_write_pi, 12, be::count_writer(7));
    h!(dbg_writer_write_pi, 12, be::dbg_writer(7));
    h!(count_writer_write_rice, 12, be::count_writer(8));
    h!(dbg_writer_write_rice, 12, be::dbg_writer(8));
    h!(count_writer_write_exp_golomb, 12, be::count_writer(9));
    h!(dbg_writer_write_exp_golomb, 12, be::dbg_writer(9));
    h!(count_writer_write_vbyte_be, 12, be::count_writer(10));
    h!(dbg_writer_write_vbyte_be, 12, be::dbg_writer(10));
    h!(count_writer_write_gamma_table, 12, be::count_writer(11));
    h!(dbg_writer_write_gamma_table, 12, be::dbg_writer(11));
    h!(count_writer_write_delta_table, 12, be::count_writer(12));
    h!(dbg_writer_write_delta_table, 12, be::dbg_writer(12));
    h!(count_writer_write_minimal_binary, 12, be::count_writer(13));
    h!(dbg_writer_write_minimal_binary, 12, be::dbg_writer(13));
    h!(count_writer_copy_from, 12, be::count_writer(14));
    h!(dbg_writer_copy_from, 12, be::dbg_writer(14));
    h!(count_reader_read_bits, 12, be::count_reader(0));
    h!(dbg_reader_read_bits, 12, be::dbg_reader(0));
    h!(count_reader_read_unary, 12, be::count_reader(1));
    h!(dbg_reader_read_unary, 12, be::dbg_reader(1));
    h!(count_reader_read_gamma, 12, be::count_reader(2));
    h!(dbg_reader_read_gamma, 12, be::dbg_reader(2));
    h!(count_reader_read_delta, 12, be::count_reader(3));
    h!(dbg_reader_read_delta, 12, be::dbg_reader(3));
    h!(count_reader_read_zeta, 12, be::count_reader(4));
    h!(dbg_reader_read_zeta, 12, be::dbg_reader(4));
    h!(count_reader_read_zeta3, 12, be::count_reader(5));
    h!(dbg_reader_read_zeta3, 12, be::dbg_reader(5));
    h!(count_reader_read_omega, 12, be::count_reader(6));
    h!(dbg_reader_read_omega, 12, be::dbg_reader(6));
    h!(count_reader_read_pi, 12, be::count_reader(7));
    h!(dbg_reader_read_pi, 12, be::dbg_reader(7));
    h!(count_reader_read_rice, 12, be::count_reader(8));
    h!(dbg_reader_read_rice, 12, be::dbg_reader(8));
    h!(count_reader_read_exp_golomb, 12, be::count_reader(9));
    h!(dbg_reader_read_exp_golomb, 12, be::dbg_reader(9));
    h!(count_reader_read_vbyte_le, 12, be::count_reader(10));
    h!(dbg_reader_read_vbyte_le, 12, be::dbg_reader(10));
    h!(count_reader_read_gamma_table, 12, be::count_reader(11));
    h!(dbg_reader_read_gamma_table, 12, be::dbg_reader(11));
    h!(count_reader_read_delta_table, 12, be::count_reader(12));
    h!(dbg_reader_read_delta_table, 12, be::dbg_reader(12));
    h!(count_reader_read_zeta3_table, 12, be::count_reader(13));
    h!(dbg_reader_read_zeta3_table, 12, be::dbg_reader(13));
    h!(count_reader_read_minimal_binary, 12, be::count_reader(14));
    h!(dbg_reader_read_minimal_binary, 12, be::dbg_reader(14));
    h!(count_reader_skip_bits, 12, be::count_reader(15));
    h!(dbg_reader_skip_bits, 12, be::dbg_reader(15));
    h!(count_reader_peek_skip_after_peek, 12, be::count_reader(16));
    h!(dbg_reader_peek_skip_after_peek, 12, be::dbg_reader(16));
    h!(count_reader_copy_to, 12, be::count_reader(17));
    h!(dbg_reader_copy_to, 12, be::dbg_reader(17));
}
pub mod hle {
    use super::*;
    h!(count_writer_flush, 4, le::count_writer_flush());
    h!(count_reader_seek, 4, le::count_reader_seek());
    h!(count_writer_seek, 4, le::count_writer_seek());
    h!(count_writer_write_bits, 12, le::count_writer(0));
    h!(dbg_writer_write_bits, 12, le::dbg_writer(0));
    h!(count_writer_write_unary, 12, le::count_writer(1));
    h!(dbg_writer_write_unary, 12, le::dbg_writer(1));
    h!(count_writer_write_gamma, 12, le::count_writer(2));
    h!(dbg_writer_write_gamma, 12, le::dbg_writer(2));
    h!(count_writer_write_delta, 12, le::count_writer(3));
    h!(dbg_writer_write_delta, 12, le::dbg_writer(3));
    h!(count_writer_write_zeta, 12, le::count_writer(4));
    h!(dbg_writer_write_zeta, 12, le::dbg_writer(4));
    h!(count_writer_write_zeta3, 12, le::count_writer(5));
    h!(dbg_writer_write_zeta3, 12, le::dbg_writer(5));
    h!(count_writer_write_omega, 12, le::count_writer(6));
    h!(dbg_writer_write_omega, 12, le::dbg_writer(6));
    h!(count_writer_write_pi, 12, le::count_writer(7));
    h!(dbg_writer_write_pi, 12, le::dbg_writer(7));
    h!(count_writer_write_rice, 12, le::count_writer(8));
    h!(dbg_writer_write_rice, 12, le::dbg_writer(8));
    h!(count_writer_write_exp_golomb, 12, le::count_writer(9));
    h!(dbg_writer_write_exp_golomb, 12, le::dbg_writer(9));
    h!(count_writer_write_vbyte_be, 12, le::count_writer(10));
    h!(dbg_writer_write_vbyte_be, 12, le::dbg_writer(10));
    h!(count_writer_write_gamma_table, 12, le::count_writer(11));
    h!(dbg_writer_write_gamma_table, 12, le::dbg_writer(11));
    h!(count_writer_write_delta_table, 12, le::count_writer(12));
    h!(dbg_writer_write_delta_table, 12, le::dbg_writer(12));
    h!(count_writer_write_minimal_binary, 12, le::count_writer(13));
    h!(dbg_writer_write_minimal_binary, 12, le::dbg_writer(13));
    h!(count_writer_copy_from, 12, le::count_writer(14));
    h!(dbg_writer_copy_from, 12, le::dbg_writer(14));
    h!(count_reader_read_bits, 12, le::count_reader(0));
    h!(dbg_reader_read_bits, 12, le::dbg_reader(0));
    h!(count_reader_read_unary, 12, le::count_reader(1));
    h!(dbg_reader_read_unary, 12, le::dbg_reader(1));
    h!(count_reader_read_gamma, 12, le::count_reader(2));
    h!(dbg_reader_read_gamma, 12, le::dbg_reader(2));
    h!(count_reader_read_delta, 12, le::count_reader(3));
    h!(dbg_reader_read_delta, 12, le::dbg_reader(3));
    h!(count_reader_read_zeta, 12, le::count_reader(4));
    h!(dbg_reader_read_zeta, 12, le::dbg_reader(4));
    h!(count_reader_read_zeta3, 12, le::count_reader(5));
    h!(dbg_reader_read_zeta3, 12, le::dbg_reader(5));
    h!(count_reader_read_omega, 12, le::count_reader(6));
    h!(dbg_reader_read_omega, 12, le::dbg_reader(6));
    h!(count_reader_read_pi, 12, le::count_reader(7));
    h!(dbg_reader_read_pi, 12, le::dbg_reader(7));
    h!(count_reader_read_rice, 12, le::count_reader(8));
    h!(dbg_reader_read_rice, 12, le::dbg_reader(8));
    h!(count_reader_read_exp_golomb, 12, le::count_reader(9));
    h!(dbg_reader_read_exp_golomb, 12, le::dbg_reader(9));
    h!(count_reader_read_vbyte_le, 12, le::count_reader(10));
    h!(dbg_reader_read_vbyte_le, 12, le::dbg_reader(10));
    h!(count_reader_read_gamma_table, 12, le::count_reader(11));
    h!(dbg_reader_read_gamma_table, 12, le::dbg_reader(11));
    h!(count_reader_read_delta_table, 12, le::count_reader(12));
    h!(dbg_reader_read_delta_table, 12, le::dbg_reader(12));
    h!(count_reader_read_zeta3_table, 12, le::count_reader(13));
    h!(dbg_reader_read_zeta3_table, 12, le::dbg_reader(13));
    h!(count_reader_read_minimal_binary, 12, le::count_reader(14));
    h!(dbg_reader_read_minimal_binary, 12, le::dbg_reader(14));
    h!(count_reader_skip_bits, 12, le::count_reader(15));
    h!(dbg_reader_skip_bits, 12, le::dbg_reader(15));
    h!(count_reader_peek_skip_after_peek, 12, le::count_reader(16));
    h!(dbg_reader_peek_skip_after_peek, 12, le::dbg_reader(16));
    h!(count_reader_copy_to, 12, le::count_reader(17));
    h!(dbg_reader_copy_to, 12, le::dbg_reader(17));
}
