//! Contract harnesses for dsi-bitstream (see /verif/DESIGN.md).
//!
//! Every `#[kani::proof]` in this crate is one *obligation*: it assumes the
//! representation invariant and the precondition of one real function of
//! `/repo`, calls that function on the real type, and asserts the
//! postcondition stated over the abstract views of DESIGN 2.1.
//!
//! Harness modules are gated by cargo features `m_<module>` so that a check
//! compiles only what it runs.
#![allow(clippy::all)]
#![allow(unused_imports, dead_code, unused_macros)]

pub mod ghost;
pub mod layout;
pub mod model;
pub mod spec;
pub mod stubs;
pub mod vectors_gen;
pub mod vw;
#[cfg(all(test, not(kani)))]
mod selftest;

#[cfg(all(kani, feature = "m_c01"))]
pub mod obl_c01;
#[cfg(all(kani, any(feature = "m_reader", feature = "m_c08", feature = "m_c12", feature = "m_params")))]
pub mod obl_reader;
#[cfg(all(kani, any(feature = "m_bitreader", feature = "m_c12")))]
pub mod obl_bitreader;
#[cfg(all(kani, feature = "m_c08"))]
pub mod obl_c08;
#[cfg(all(kani, any(feature = "m_c10", feature = "m_c16", feature = "m_c10x")))]
pub mod obl_c10;
#[cfg(all(kani, feature = "m_c10x"))]
pub mod obl_c10x;
#[cfg(all(kani, feature = "m_c11"))]
pub mod obl_c11;
#[cfg(all(kani, feature = "m_c12"))]
pub mod obl_c12;
#[cfg(all(kani, feature = "m_c13"))]
pub mod obl_c13;
#[cfg(all(kani, feature = "m_c14"))]
pub mod obl_c14;
#[cfg(all(kani, feature = "m_c15"))]
pub mod obl_c15;
#[cfg(all(kani, feature = "m_c16"))]
pub mod obl_c16;
#[cfg(all(kani, feature = "m_c17"))]
pub mod obl_c17;
#[cfg(all(kani, feature = "m_c18"))]
pub mod obl_c18;
#[cfg(all(kani, any(feature = "m_codes", feature = "m_golomb")))]
pub mod obl_codes;
#[cfg(all(kani, feature = "m_params"))]
pub mod obl_params;
#[cfg(all(kani, feature = "m_stdspec"))]
pub mod obl_stdspec;

/// Concrete-playback tests written by /verif/bin/check when an obligation
/// fails (empty otherwise); run natively with `cargo kani playback`.
#[cfg(all(kani, test))]
mod playback_gen;
