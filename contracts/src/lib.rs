//! Contract harnesses for dsi-bitstream (see /verif/DESIGN.md).
//!
//! Every `#[kani::proof]` in this crate is one *obligation*: it assumes the
//! representation invariant and the precondition of one real function of
//! `/repo`, calls that function on the real type, and asserts the
//! postcondition stated over the abstract views of DESIGN §2.1.
#![allow(clippy::all)]
#![allow(unused_imports, dead_code)]

pub mod ghost;
pub mod layout;
pub mod vw;
pub mod stubs;
pub mod model;
pub mod spec;
pub mod vectors_gen;
#[cfg(all(test, not(kani)))]
mod selftest;

#[cfg(kani)]
pub mod obl_c01;
#[cfg(kani)]
pub mod obl_reader;
#[cfg(kani)]
pub mod obl_bitreader;
#[cfg(kani)]
pub mod obl_c13;
#[cfg(kani)]
pub mod obl_c08;
#[cfg(kani)]
pub mod obl_codes;
#[cfg(kani)]
pub mod obl_c11;
#[cfg(kani)]
pub mod obl_c17;

/// Concrete-playback tests written by /verif/bin/check when an obligation
/// fails (empty otherwise); run natively with `cargo kani playback`.
#[cfg(all(kani, test))]
mod playback_gen;
