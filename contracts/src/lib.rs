//! Contract harnesses for dsi-bitstream (see /verif/DESIGN.md).
//!
//! Every `#[kani::proof]` in this crate is one *obligation*: it assumes the
//! representation invariant and the precondition of one real function of
//! `/repo`, calls that function on the real type, and asserts the
//! postcondition stated over the abstract views of DESIGN §2.1.
#![allow(clippy::all)]
#![allow(unused_imports, dead_code)]

pub mod ghost;
pub mod layout;
pub mod vw;

#[cfg(kani)]
mod obl_c01;

/// Concrete-playback tests written by /verif/bin/check when an obligation
/// fails (empty otherwise); run natively with `cargo kani playback`.
#[cfg(all(kani, test))]
mod playback_gen;
