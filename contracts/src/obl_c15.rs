//! C15 — code statistics are exact and mergeable (sequential contracts; thread
//! interleavings are reduced to these by the `Mutex` in `CodesStatsWrapper`,
//! which is trusted, cf. DESIGN §4/C15).
//!
//! Functions under contract: `CodesStats::{default, update, update_many, add,
//! add_assign, add (operator), sum, best_code}`.

use dsi_bitstream::codes::*;
use dsi_bitstream::dispatch::Codes;
use dsi_bitstream::utils::CodesStats;

/// Sizes of the tracked families (the library is generic in them; the default
/// is <10,20,10,10,10>, verified in the thorough tier).
macro_rules! c15_for {
    ($m:ident, $z:expr, $g:expr, $eg:expr, $r:expr, $p:expr) => {
        pub mod $m {
            use super::*;
            pub type St = CodesStats<$z, $g, $eg, $r, $p>;

            /// a symbolic statistics value whose totals are below 2^40
            pub fn any_stats() -> St {
                let mut s = St::default();
                s.total = kani::any();
                s.unary = kani::any();
                s.gamma = kani::any();
                s.delta = kani::any();
                s.omega = kani::any();
                s.vbyte = kani::any();
                s.zeta = kani::any();
                s.golomb = kani::any();
                s.exp_golomb = kani::any();
                s.rice = kani::any();
                s.pi = kani::any();
                s
            }
            pub fn small(s: &St, bound: u64) -> bool {
                let mut ok = s.total < bound && s.unary < bound && s.gamma < bound && s.delta < bound && s.omega < bound && s.vbyte < bound;
                let mut i = 0;
                while i < $g {
                    ok = ok && s.golomb[i] < bound;
                    if i < $z {
                        ok = ok && s.zeta[i] < bound;
                    }
                    if i < $eg {
                        ok = ok && s.exp_golomb[i] < bound;
                    }
                    if i < $r {
                        ok = ok && s.rice[i] < bound;
                    }
                    if i < $p {
                        ok = ok && s.pi[i] < bound;
                    }
                    i += 1;
                }
                ok
            }

            /// the total a statistics value keeps for tracked code number `j`
            /// (0 unary, 1 gamma, 2 delta, 3 omega, 4 vbyte, then zeta, golomb, exp-golomb, rice, pi)
            pub fn field(s: &St, j: usize) -> u64 {
                match j {
                    0 => s.unary,
                    1 => s.gamma,
                    2 => s.delta,
                    3 => s.omega,
                    4 => s.vbyte,
                    _ => {
                        let j = j - 5;
                        if j < $z {
                            s.zeta[j]
                        } else if j < $z + $g {
                            s.golomb[j - $z]
                        } else if j < $z + $g + $eg {
                            s.exp_golomb[j - $z - $g]
                        } else if j < $z + $g + $eg + $r {
                            s.rice[j - $z - $g - $eg]
                        } else {
                            s.pi[j - $z - $g - $eg - $r]
                        }
                    }
                }
            }
            pub const NF: usize = 5 + $z + $g + $eg + $r + $p;

            /// bits needed to write `n` with tracked code `j` — the documented
            /// index -> parameter map: zeta_{i+1}, Golomb_{i+1}, exp-Golomb_i, Rice_i, pi_{i+2}
            pub fn len_of(j: usize, n: u64) -> u64 {
                (match j {
                    0 => n as usize + 1,
                    1 => len_gamma(n),
                    2 => len_delta(n),
                    3 => len_omega(n),
                    4 => bit_len_vbyte(n),
                    _ => {
                        let j = j - 5;
                        if j < $z {
                            len_zeta(n, j + 1)
                        } else if j < $z + $g {
                            len_golomb(n, (j - $z + 1) as u64)
                        } else if j < $z + $g + $eg {
                            len_exp_golomb(n, j - $z - $g)
                        } else if j < $z + $g + $eg + $r {
                            len_rice(n, j - $z - $g - $eg)
                        } else {
                            len_pi(n, j - $z - $g - $eg - $r + 2)
                        }
                    }
                }) as u64
            }
            /// the code a tracked index stands for
            pub fn code_of(j: usize) -> Codes {
                match j {
                    0 => Codes::Unary,
                    1 => Codes::Gamma,
                    2 => Codes::Delta,
                    3 => Codes::Omega,
                    4 => Codes::VByteBe,
                    _ => {
                        let j = j - 5;
                        if j < $z {
                            Codes::Zeta { k: j + 1 }
                        } else if j < $z + $g {
                            Codes::Golomb { b: j - $z + 1 }
                        } else if j < $z + $g + $eg {
                            Codes::ExpGolomb { k: j - $z - $g }
                        } else if j < $z + $g + $eg + $r {
                            Codes::Rice { log2_b: j - $z - $g - $eg }
                        } else {
                            Codes::Pi { k: j - $z - $g - $eg - $r + 2 }
                        }
                    }
                }
            }

            /// the tracked index a code stands for (inverse of `code_of`)
            pub fn index_of(c: Codes) -> Option<usize> {
                match c {
                    Codes::Unary => Some(0),
                    Codes::Gamma => Some(1),
                    Codes::Delta => Some(2),
                    Codes::Omega => Some(3),
                    Codes::VByteBe => Some(4),
                    Codes::Zeta { k } if k >= 1 && k <= $z => Some(5 + k - 1),
                    Codes::Golomb { b } if b >= 1 && b <= $g => Some(5 + $z + b - 1),
                    Codes::ExpGolomb { k } if k < $eg => Some(5 + $z + $g + k),
                    Codes::Rice { log2_b } if log2_b < $r => Some(5 + $z + $g + $eg + log2_b),
                    Codes::Pi { k } if k >= 2 && k < $p + 2 => Some(5 + $z + $g + $eg + $r + k - 2),
                    _ => None,
                }
            }

            /// update / update_many with multiplicity 1: every tracked total grows by
            /// the bits needed to write n with that code (n symbolic)
            pub fn update() {
                let old = any_stats();
                kani::assume(small(&old, 1 << 40));
                let n: u64 = kani::any();
                // restriction of the property: the totals fit in 64 bits
                kani::assume(n < 1 << 40);
                let single: bool = kani::any();
                let mut s = old;
                let r = if single { s.update(n) } else { s.update_many(n, 1) };
                kani::assert(r == n, "OBS c15.update: returns the observed value");
                kani::assert(s.total == old.total + 1, "OBS c15.update: the element count grows by one");
                let mut j = 0;
                while j < NF {
                    kani::assert(
                        field(&s, j) == field(&old, j) + len_of(j, n),
                        "OBS c15.update: each tracked total grows by the bits needed with that code",
                    );
                    j += 1;
                }
                kani::cover!(!single, "c15.update reachable");
            }

            /// update_many: symbolic multiplicity, value from a grid (a symbolic value
            /// times a symbolic multiplicity is a multiplier-equivalence problem for SAT)
            pub fn update_many(n: u64) {
                let old = any_stats();
                kani::assume(small(&old, 1 << 40));
                let count: u64 = kani::any();
                kani::assume(count < 1 << 20);
                let mut s = old;
                let r = s.update_many(n, count);
                kani::assert(r == n, "OBS c15.update_many: returns the observed value");
                kani::assert(s.total == old.total + count, "OBS c15.update_many: the element count grows by the multiplicity");
                let mut j = 0;
                while j < NF {
                    kani::assert(
                        field(&s, j) == field(&old, j) + len_of(j, n) * count,
                        "OBS c15.update_many: each tracked total grows by (bits needed with that code) x multiplicity",
                    );
                    j += 1;
                }
                kani::cover!(count > 1, "c15.update_many reachable");
            }

            /// merging (add, +=, +, sum) is the field-wise sum, i.e. observing the union
            pub fn merge() {
                let a = any_stats();
                let b = any_stats();
                let c = any_stats();
                kani::assume(small(&a, 1 << 60) && small(&b, 1 << 60) && small(&c, 1 << 60));
                let how: u8 = kani::any();
                kani::assume(how < 4);
                let m: St = match how {
                    0 => {
                        let mut x = a;
                        x.add(&b);
                        x
                    }
                    1 => {
                        let mut x = a;
                        x += b;
                        x
                    }
                    2 => a + b,
                    _ => [a, b, c].into_iter().sum(),
                };
                let extra = how == 3;
                kani::assert(
                    m.total == a.total + b.total + if extra { c.total } else { 0 },
                    "OBS c15.merge: merged element count = sum of the partial counts",
                );
                let j: usize = kani::any();
                if j < NF {
                    kani::assert(
                        field(&m, j) == field(&a, j) + field(&b, j) + if extra { field(&c, j) } else { 0 },
                        "OBS c15.merge: each merged total = sum of the partial totals",
                    );
                }
                kani::cover!(how == 3, "c15.merge reachable (sum)");
            }

            /// best_code: a tracked code with the minimum total, and that minimum
            pub fn best() {
                let s = any_stats();
                let (code, cost) = s.best_code();
                let mut j = 0;
                while j < NF {
                    kani::assert(cost <= field(&s, j), "OBS c15.best_code: the reported cost is the minimum over the tracked codes");
                    j += 1;
                }
                // the reported code is a tracked code whose total is the reported cost
                match index_of(code) {
                    Some(i) => kani::assert(field(&s, i) == cost, "OBS c15.best_code: the total kept for the reported code equals the reported cost"),
                    None => kani::assert(false, "OBS c15.best_code: the reported code is one of the tracked codes"),
                }
                kani::cover!(code != Codes::Unary, "c15.best reachable");
            }

            // ---- the shared wrapper under interference (rely/guarantee on the lock) ----
            //
            // `CodesStatsWrapper` protects its statistics with a `std::sync::Mutex`. Mutual
            // exclusion of the mutex is trusted; what is proved here, on the real wrapper code, is
            // the part of thread safety that is the wrapper's own job: whatever other threads do to
            // the protected value while the lock is NOT held, each critical section of a
            // read/write through the wrapper either leaves the value as it found it or applies
            // exactly `update(value)` to it, and exactly one section applies the update. Every
            // interleaving of such operations is then equivalent to a sequential order of
            // `update` calls (c15.update gives the totals of that order).
            //
            // `Mutex::lock` is replaced by `lock_stub`: it (1) records the value the previous
            // critical section left behind, (2) overwrites the protected value with an arbitrary
            // one (the interference of other threads), records it as the value found at
            // acquisition, and (3) acquires the real lock with `try_lock` (a lock while the guard
            // is still alive would be a deadlock and is reported).
            pub const MAXSEC: usize = 3;
            pub static mut SECTIONS: usize = 0;
            pub static mut ACQ: [Option<St>; MAXSEC] = [None; MAXSEC];
            pub static mut LEFT: [Option<St>; MAXSEC] = [None; MAXSEC];
            pub static mut DEADLOCK: bool = false;

            pub fn same(a: &St, b: &St) -> bool {
                let mut ok = a.total == b.total;
                let mut j = 0;
                while j < NF {
                    ok = ok && field(a, j) == field(b, j);
                    j += 1;
                }
                ok
            }

            #[allow(static_mut_refs)]
            pub fn lock_stub<T: ?Sized>(m: &std::sync::Mutex<T>) -> std::sync::LockResult<std::sync::MutexGuard<'_, T>> {
                unsafe {
                    // in these harnesses the only mutex ever locked protects the statistics
                    let ms: &std::sync::Mutex<St> = &*(m as *const std::sync::Mutex<T> as *const () as *const std::sync::Mutex<St>);
                    match ms.try_lock() {
                        Ok(mut g) => {
                            let k = SECTIONS;
                            if k < MAXSEC {
                                if k > 0 {
                                    LEFT[k - 1] = Some(*g);
                                }
                                let h = any_stats();
                                kani::assume(small(&h, 1 << 40));
                                *g = h;
                                ACQ[k] = Some(h);
                            }
                            SECTIONS = k + 1;
                        }
                        Err(_) => DEADLOCK = true,
                    }
                }
                match m.try_lock() {
                    Ok(g) => Ok(g),
                    Err(std::sync::TryLockError::Poisoned(p)) => Err(p),
                    Err(std::sync::TryLockError::WouldBlock) => {
                        kani::assert(false, "OBS c15.shared: the wrapper locks its statistics while it already holds the lock (deadlock)");
                        kani::assume(false);
                        unreachable!()
                    }
                }
            }

            /// one read or write through a shared wrapper, other threads interfering at every
            /// point where the lock is not held
            #[allow(static_mut_refs)]
            pub fn shared(read: bool, stat: bool) {
                use crate::model::{Bits, BitsStream};
                use dsi_bitstream::dispatch::{code_consts, ConstCode, DynamicCodeRead, DynamicCodeWrite, StaticCodeRead, StaticCodeWrite};
                use dsi_bitstream::traits::BE;
                use dsi_bitstream::utils::CodesStatsWrapper;
                type S = BitsStream<BE>;
                let n: u64 = kani::any();
                kani::assume(n < 1 << 40);
                let mut s = S::new(Bits::any(8), true, 16);
                let start = s.bits.len;
                if read {
                    if s.write_gamma(n).is_err() {
                        return;
                    }
                    s.pos = start;
                }
                let (r, fin) = if stat {
                    let w = CodesStatsWrapper::<ConstCode<{ code_consts::GAMMA }>, $z, $g, $eg, $r, $p>::new(ConstCode::<{ code_consts::GAMMA }>);
                    let r = if read {
                        StaticCodeRead::<BE, S>::read(&w, &mut s)
                    } else {
                        match StaticCodeWrite::<BE, S>::write(&w, &mut s, n) {
                            Ok(_) => Ok(n),
                            Err(e) => Err(e),
                        }
                    };
                    (r, w.into_inner().1)
                } else {
                    let w = CodesStatsWrapper::<Codes, $z, $g, $eg, $r, $p>::new(Codes::Gamma);
                    let r = if read {
                        DynamicCodeRead::read(&w, &mut s)
                    } else {
                        match DynamicCodeWrite::write(&w, &mut s, n) {
                            Ok(_) => Ok(n),
                            Err(e) => Err(e),
                        }
                    };
                    (r, w.into_inner().1)
                };
                if r == Ok(n) {
                    unsafe {
                        kani::assert(!DEADLOCK, "OBS c15.shared: the statistics lock is free whenever the wrapper acquires it");
                        kani::assert(SECTIONS >= 1 && SECTIONS <= MAXSEC, "INT c15.shared: between 1 and 3 critical sections per operation (observation window)");
                        if SECTIONS >= 1 && SECTIONS <= MAXSEC {
                            LEFT[SECTIONS - 1] = Some(fin);
                            let mut updates = 0;
                            let mut k = 0;
                            while k < MAXSEC {
                                if k < SECTIONS {
                                    let a = ACQ[k].unwrap();
                                    let l = LEFT[k].unwrap();
                                    let mut u = a;
                                    u.update(n);
                                    let is_update = same(&l, &u);
                                    kani::assert(
                                        is_update || same(&l, &a),
                                        "OBS c15.shared: a critical section leaves the statistics it found either unchanged or updated with exactly the value (no lost update under interference)",
                                    );
                                    if is_update {
                                        updates += 1;
                                    }
                                }
                                k += 1;
                            }
                            kani::assert(updates == 1, "OBS c15.shared: exactly one critical section applies update(value)");
                        }
                    }
                }
                kani::cover!(r == Ok(n), "c15.shared reachable");
            }

            /// Default::default() is the empty observation
            pub fn default_() {
                let s = St::default();
                kani::assert(s.total == 0, "OBS c15.default: no elements");
                let j: usize = kani::any();
                if j < NF {
                    kani::assert(field(&s, j) == 0, "OBS c15.default: all totals are zero");
                }
                kani::cover!(true, "c15.default reachable");
            }
        }
    };
}
c15_for!(small_, 3, 4, 3, 3, 3);
c15_for!(dflt, 10, 20, 10, 10, 10);

macro_rules! h {
    ($name:ident, $unw:expr, $body:expr) => {
        #[kani::proof]
        #[kani::unwind($unw)]
        pub fn $name() {
            $body
        }
    };
}
h!(small_update, 24, small_::update());
h!(small_update_many_0, 24, small_::update_many(0));
h!(small_update_many_77, 24, small_::update_many(77));
h!(small_update_many_big, 24, small_::update_many((1 << 33) + 12345));
h!(small_merge, 24, small_::merge());
h!(small_best, 24, small_::best());
h!(small_default, 24, small_::default_());
macro_rules! hs {
    ($name:ident, $read:expr, $stat:expr) => {
        #[kani::proof]
        #[kani::unwind(24)]
        #[kani::stub(std::sync::Mutex::lock, small_::lock_stub)]
        #[kani::stub(alloc::fmt::format, crate::stubs::format_stub)]
        pub fn $name() {
            small_::shared($read, $stat)
        }
    };
}
hs!(small_shared_write, false, false);
hs!(small_shared_read, true, false);
hs!(small_shared_static_write, false, true);
hs!(small_shared_static_read, true, true);
h!(dflt_update, 70, dflt::update());
h!(dflt_update_many_0, 70, dflt::update_many(0));
h!(dflt_update_many_77, 70, dflt::update_many(77));
h!(dflt_update_many_big, 70, dflt::update_many((1 << 33) + 12345));
h!(dflt_merge, 70, dflt::merge());
h!(dflt_best, 70, dflt::best());
h!(dflt_default, 70, dflt::default_());
