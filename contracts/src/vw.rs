//! `VW`: the word types the library is instantiated with, seen through u128
//! so that the specification side never uses the library's own generic
//! arithmetic (`common_traits`) to state what is required.

use common_traits::{CastableInto, DoubleType, UpcastableInto};
use dsi_bitstream::traits::Word;

pub trait VW: Word + Copy + core::fmt::Debug + 'static
where
    u64: CastableInto<Self>,
{
    const NBITS: usize;
    const NBYTES: usize;
    fn to128(self) -> u128;
    fn from128(x: u128) -> Self;
    /// Byte `j` of the word's memory image (`to_ne_bytes()[j]`), computed
    /// independently of the library: this target is little-endian.
    fn ne_byte(self, j: usize) -> u8 {
        debug_assert!(j < Self::NBYTES);
        #[cfg(target_endian = "little")]
        {
            (self.to128() >> (8 * j)) as u8
        }
        #[cfg(target_endian = "big")]
        {
            (self.to128() >> (8 * (Self::NBYTES - 1 - j))) as u8
        }
    }
    #[cfg(kani)]
    fn any() -> Self;
    #[cfg(kani)]
    fn any_array<const N: usize>() -> [Self; N];
    /// Numeric value whose most significant bit is the first stream bit of the
    /// word in a big-endian stream (independent of the library's `to_be`).
    fn be_val(self) -> u128 {
        let mut r: u128 = 0;
        let mut j = 0;
        while j < Self::NBYTES {
            r = (r << 8) | self.ne_byte(j) as u128;
            j += 1;
        }
        r
    }
    /// Numeric value whose least significant bit is the first stream bit of the
    /// word in a little-endian stream.
    fn le_val(self) -> u128 {
        let mut r: u128 = 0;
        let mut j = 0;
        while j < Self::NBYTES {
            r |= (self.ne_byte(j) as u128) << (8 * j);
            j += 1;
        }
        r
    }
}

macro_rules! impl_vw {
    ($($t:ty),*) => {$(
        impl VW for $t {
            const NBITS: usize = <$t>::BITS as usize;
            const NBYTES: usize = (<$t>::BITS / 8) as usize;
            #[inline(always)]
            fn to128(self) -> u128 { self as u128 }
            #[inline(always)]
            fn from128(x: u128) -> Self { x as $t }
            #[cfg(kani)]
            fn any() -> Self { kani::any() }
            #[cfg(kani)]
            fn any_array<const N: usize>() -> [Self; N] { kani::any() }
        }
    )*};
}
impl_vw!(u8, u16, u32, u64, u128);

/// Words a buffered reader can be built on (they have a double type).
pub trait RW: VW + DoubleType + UpcastableInto<u64>
where
    u64: CastableInto<Self>,
    <Self as DoubleType>::DoubleType: CastableInto<u64> + Copy,
{
    fn bb_to128(b: <Self as DoubleType>::DoubleType) -> u128;
    fn bb_from128(x: u128) -> <Self as DoubleType>::DoubleType;
}

macro_rules! impl_rw {
    ($($t:ty => $d:ty),*) => {$(
        impl RW for $t {
            #[inline(always)]
            fn bb_to128(b: $d) -> u128 { b as u128 }
            #[inline(always)]
            fn bb_from128(x: u128) -> $d { x as $d }
        }
    )*};
}
impl_rw!(u8 => u16, u16 => u32, u32 => u64, u64 => u128);

/// The two endianness selectors, with the one bit of information the
/// specification needs.
pub trait VE: dsi_bitstream::traits::Endianness {
    const LITTLE: bool;
}
impl VE for dsi_bitstream::traits::BE {
    const LITTLE: bool = false;
}
impl VE for dsi_bitstream::traits::LE {
    const LITTLE: bool = true;
}
