//! C16 — code identifiers round-trip (Kani obligations); the textual part
//! (Display / FromStr) and the rejection of out-of-range identifiers are
//! concrete native obligations in tests/c16_strings.rs (symbolic strings and
//! `anyhow` error construction are out of reach of CBMC in reasonable time).
//!
//! Functions under contract: `Codes::{to_code_const, from_code_const, eq}`.

use crate::model::{Bits, BitsStream};
use crate::obl_c10::{code_of_id, N_IDS};
use dsi_bitstream::dispatch::*;
use dsi_bitstream::traits::{BE, LE};

/// a symbolic `Codes` value that has a compile-time identifier
pub fn any_const_code() -> Codes {
    let which: u8 = kani::any();
    let k: usize = kani::any();
    kani::assume(k <= 10);
    match which % 11 {
        0 => Codes::Unary,
        1 => Codes::Gamma,
        2 => Codes::Delta,
        3 => Codes::Omega,
        4 => Codes::VByteLe,
        5 => Codes::VByteBe,
        6 => {
            kani::assume(k >= 1);
            Codes::Zeta { k }
        }
        7 => Codes::Pi { k },
        8 => {
            kani::assume(k >= 1);
            Codes::Golomb { b: k }
        }
        9 => Codes::ExpGolomb { k },
        _ => Codes::Rice { log2_b: k },
    }
}

/// an arbitrary `Codes` value (any parameter)
pub fn any_code() -> Codes {
    let which: u8 = kani::any();
    let k: usize = kani::any();
    match which % 11 {
        0 => Codes::Unary,
        1 => Codes::Gamma,
        2 => Codes::Delta,
        3 => Codes::Omega,
        4 => Codes::VByteLe,
        5 => Codes::VByteBe,
        6 => Codes::Zeta { k },
        7 => Codes::Pi { k },
        8 => Codes::Golomb { b: k },
        9 => Codes::ExpGolomb { k },
        _ => Codes::Rice { log2_b: k },
    }
}

/// structural identity (same variant, same parameter)
fn identical(a: Codes, b: Codes) -> bool {
    match (a, b) {
        (Codes::Unary, Codes::Unary)
        | (Codes::Gamma, Codes::Gamma)
        | (Codes::Delta, Codes::Delta)
        | (Codes::Omega, Codes::Omega)
        | (Codes::VByteLe, Codes::VByteLe)
        | (Codes::VByteBe, Codes::VByteBe) => true,
        (Codes::Zeta { k: a }, Codes::Zeta { k: b }) => a == b,
        (Codes::Pi { k: a }, Codes::Pi { k: b }) => a == b,
        (Codes::Golomb { b: a }, Codes::Golomb { b }) => a == b,
        (Codes::ExpGolomb { k: a }, Codes::ExpGolomb { k: b }) => a == b,
        (Codes::Rice { log2_b: a }, Codes::Rice { log2_b: b }) => a == b,
        _ => false,
    }
}

/// The classes of structurally different codes that have identical codewords
/// (proved codeword-identical, for every value, by `class_*` below): 1 = unary,
/// 2 = gamma (incl. zeta_1, exp-Golomb_0, pi_0, which the identifier table aliases to GAMMA), 3 = Rice_1, 4 = Rice_2, 5 = Rice_3.
fn class(c: Codes) -> u8 {
    match c {
        Codes::Unary | Codes::Rice { log2_b: 0 } | Codes::Golomb { b: 1 } => 1,
        Codes::Gamma | Codes::Zeta { k: 1 } | Codes::ExpGolomb { k: 0 } | Codes::Pi { k: 0 } => 2,
        Codes::Rice { log2_b: 1 } | Codes::Golomb { b: 2 } => 3,
        Codes::Rice { log2_b: 2 } | Codes::Golomb { b: 4 } => 4,
        Codes::Rice { log2_b: 3 } | Codes::Golomb { b: 8 } => 5,
        _ => 0,
    }
}

/// every identifier constant maps to the code its name says, which maps back to
/// the same identifier (all 51 identifiers, enumerated concretely: a symbolic
/// identifier would make CBMC build the `anyhow` error of the unreachable arm)
pub fn ids() {
    let mut id = 0;
    while id < N_IDS {
        match Codes::from_code_const(id) {
            Ok(c) => {
                kani::assert(identical(c, code_of_id(id)), "OBS c16.ids: identifier constants name the code their name says");
                match c.to_code_const() {
                    Ok(back) => kani::assert(back == id, "OBS c16.ids: from_code_const then to_code_const is the identity on identifiers"),
                    Err(_) => kani::assert(false, "OBS c16.ids: a code obtained from an identifier has an identifier"),
                }
            }
            Err(_) => kani::assert(false, "OBS c16.ids: every identifier constant 0..=50 is accepted"),
        }
        id += 1;
    }
    kani::cover!(id == N_IDS, "c16.ids reachable (all ids)");
}

fn back_one(c: Codes) {
    match c.to_code_const() {
        Ok(id) => {
            kani::assert(id < N_IDS, "OBS c16.back: identifiers are in range");
            match Codes::from_code_const(id) {
                Ok(c2) => kani::assert(
                    identical(c, c2) || (class(c) != 0 && class(c) == class(c2)),
                    "OBS c16.back: to_code_const then from_code_const yields a code with identical codewords",
                ),
                Err(_) => kani::assert(false, "OBS c16.back: the identifier of a code is accepted by from_code_const"),
            }
        }
        Err(_) => kani::assert(false, "OBS c16.back: every code with parameter <= 10 has an identifier"),
    }
}

/// to_code_const then from_code_const yields the same code or a member of its
/// codeword-identical class (every code that has an identifier, enumerated)
pub fn code_to_id_and_back() {
    back_one(Codes::Unary);
    back_one(Codes::Gamma);
    back_one(Codes::Delta);
    back_one(Codes::Omega);
    back_one(Codes::VByteLe);
    back_one(Codes::VByteBe);
    let mut k = 0;
    while k <= 10 {
        if k >= 1 {
            back_one(Codes::Zeta { k });
            back_one(Codes::Golomb { b: k });
        }
        back_one(Codes::Pi { k });
        back_one(Codes::ExpGolomb { k });
        back_one(Codes::Rice { log2_b: k });
        k += 1;
    }
    kani::cover!(k == 11, "c16.back reachable (all codes)");
}

/// two codes that compare equal are identical or in one codeword-identical class
pub fn eq_implies_same_class() {
    let a = any_code();
    let b = any_code();
    if a == b {
        kani::assert(
            identical(a, b) || (class(a) != 0 && class(a) == class(b)),
            "OBS c16.eq: codes that compare equal have identical codewords (same code or same codeword-identical class)",
        );
    }
    kani::cover!(a == b && matches!(a, Codes::Rice { .. }) && matches!(b, Codes::Golomb { .. }), "c16.eq reachable (equivalence class)");
}

/// the members of each class have identical codewords and lengths, for every value
macro_rules! class_h {
    ($name:ident, $e:ty, [$first:expr $(, $rest:expr)+]) => {
        #[kani::proof]
        #[kani::unwind(12)]
        pub fn $name() {
            let n: u64 = kani::any();
            kani::assume(n < u64::MAX);
            let pre = Bits::any(8);
            let mut s0 = BitsStream::<$e>::new(pre, true, 16);
            let r0 = $first.write(&mut s0, n);
            let l0 = $first.len(n);
            $(
                let mut s = BitsStream::<$e>::new(pre, true, 16);
                let r = $rest.write(&mut s, n);
                kani::assert(r == r0 && s.bits.same(&s0.bits), "OBS c16.class: members of a class of equal codes write identical codewords");
                kani::assert($rest.len(n) == l0, "OBS c16.class: members of a class of equal codes have identical lengths");
            )+
            kani::cover!(r0.is_ok() && n > 3, "c16.class reachable");
        }
    };
}
class_h!(class_unary_be, BE, [Codes::Unary, Codes::Rice { log2_b: 0 }, Codes::Golomb { b: 1 }]);
class_h!(class_unary_le, LE, [Codes::Unary, Codes::Rice { log2_b: 0 }, Codes::Golomb { b: 1 }]);
class_h!(class_gamma_be, BE, [Codes::Gamma, Codes::Zeta { k: 1 }, Codes::ExpGolomb { k: 0 }, Codes::Pi { k: 0 }]);
class_h!(class_gamma_le, LE, [Codes::Gamma, Codes::Zeta { k: 1 }, Codes::ExpGolomb { k: 0 }, Codes::Pi { k: 0 }]);
class_h!(class_rice1_be, BE, [Codes::Rice { log2_b: 1 }, Codes::Golomb { b: 2 }]);
class_h!(class_rice1_le, LE, [Codes::Rice { log2_b: 1 }, Codes::Golomb { b: 2 }]);
class_h!(class_rice2_be, BE, [Codes::Rice { log2_b: 2 }, Codes::Golomb { b: 4 }]);
class_h!(class_rice2_le, LE, [Codes::Rice { log2_b: 2 }, Codes::Golomb { b: 4 }]);
class_h!(class_rice3_be, BE, [Codes::Rice { log2_b: 3 }, Codes::Golomb { b: 8 }]);
class_h!(class_rice3_le, LE, [Codes::Rice { log2_b: 3 }, Codes::Golomb { b: 8 }]);

macro_rules! h {
    ($name:ident, $unw:expr, $body:expr) => {
        #[kani::proof]
        #[kani::stub(alloc::fmt::format, crate::stubs::format_stub)]
        #[kani::unwind($unw)]
        pub fn $name() {
            $body
        }
    };
}
h!(c16_ids, 54, ids());
h!(c16_back, 14, code_to_id_and_back());
h!(c16_eq, 4, eq_implies_same_class());
