//! C03 / C05 — the parameterless default methods of the real readers/writers
//! (codes/params.rs) agree with the parameterised method they name, and the
//! constructors announce no more look-ahead than `peek_bits` guarantees.

use crate::ghost::{GhostErr, Oracle, Rec};
use crate::obl_reader::{any_reader, Rd};
use crate::vw::{RW, VE, VW};
use common_traits::{CastableInto, DoubleType};
use dsi_bitstream::codes::*;
use dsi_bitstream::impls::{BitReader, BufBitReader, BufBitWriter};
use dsi_bitstream::traits::{BitRead, BitWrite, BE, LE};

type DT<W> = <W as DoubleType>::DoubleType;

/// `BufBitReader::new` / `BitReader::new` call `check_tables(w)`; the library
/// prints its insufficient-look-ahead diagnostic for a table iff `w <
/// READ_BITS` of that table. The width announced must not exceed the width for
/// which `peek_bits` meets its contract (c02.peek_bits: 1..=W::BITS for the
/// buffered reader, 0..=32 for the unbuffered one).
pub fn peek_width_buf<E: VE, W: RW>()
where
    u64: CastableInto<W>,
    DT<W>: CastableInto<u64> + Copy,
{
    unsafe {
        crate::stubs::ANNOUNCED_PEEK_BITS = usize::MAX;
    }
    let o = Oracle::<W, 2>::any(1);
    let _r = BufBitReader::<E, Oracle<W, 2>>::new(o);
    let announced = unsafe { crate::stubs::ANNOUNCED_PEEK_BITS };
    kani::assert(announced != usize::MAX, "OBS c05.peek_width: the constructor announces its look-ahead (check_tables is called)");
    // the diagnostic for a table is printed iff announced < READ_BITS of that table
    // (src/traits/bits.rs::check_tables); peek_bits is guaranteed for n <= W::BITS (c02.peek_bits)
    kani::assert(
        announced < gamma_tables::READ_BITS || W::NBITS >= gamma_tables::READ_BITS,
        "OBS c05.peek_width: no diagnostic for the gamma tables only if peek_bits guarantees their index width",
    );
    kani::assert(
        announced < delta_tables::READ_BITS || W::NBITS >= delta_tables::READ_BITS,
        "OBS c05.peek_width: no diagnostic for the delta tables only if peek_bits guarantees their index width",
    );
    kani::assert(
        announced < zeta_tables::READ_BITS || W::NBITS >= zeta_tables::READ_BITS,
        "OBS c05.peek_width: no diagnostic for the zeta tables only if peek_bits guarantees their index width",
    );
    kani::cover!(true, "c05.peek_width reachable");
}

pub fn peek_width_unbuf<E: VE>() {
    unsafe {
        crate::stubs::ANNOUNCED_PEEK_BITS = usize::MAX;
    }
    let o = Oracle::<u64, 2>::any(1);
    let _r = BitReader::<E, Oracle<u64, 2>>::new(o);
    let announced = unsafe { crate::stubs::ANNOUNCED_PEEK_BITS };
    kani::assert(announced != usize::MAX, "OBS c05.peek_width: the constructor announces its look-ahead (check_tables is called)");
    kani::assert(
        (announced < gamma_tables::READ_BITS || 32 >= gamma_tables::READ_BITS)
            && (announced < delta_tables::READ_BITS || 32 >= delta_tables::READ_BITS)
            && (announced < zeta_tables::READ_BITS || 32 >= zeta_tables::READ_BITS),
        "OBS c05.peek_width: no diagnostic for a table only if the unbuffered reader's peek_bits (n <= 32) covers its index width",
    );
    kani::cover!(true, "c05.peek_width.unbuffered reachable");
}

/// End to end on the real types: the real writer's default method writes a code
/// (after arbitrary preceding bits, followed by arbitrary bits), the words it
/// delivered are handed to the real reader, whose default read method must return
/// the value and behave exactly like the parameterised method it names in
/// codes/params.rs. (u16 / u32 readers: their look-ahead covers every table.)
macro_rules! params_reader {
    ($name:ident, $e:ty, $w:ty) => {
        pub fn $name(which: u8) {
            let n: u64 = kani::any();
            kani::assume(n < u64::MAX);
            let npre: usize = kani::any();
            kani::assume(npre <= 9);
            let pre: u64 = kani::any();
            let suf: u64 = kani::any();
            let mut w = BufBitWriter::<$e, Rec<$w, 16>>::new(Rec::new());
            let r0 = w.write_bits(pre, npre);
            let r1 = match which {
                0 => w.write_gamma(n),
                1 => w.write_delta(n),
                2 => w.write_zeta3(n),
                _ => w.write_zeta(n, 2),
            };
            let r2 = w.write_bits(suf, 20);
            let rec = match w.into_inner() {
                Ok(rec) => rec,
                Err(_) => {
                    kani::assert(false, "OBS c03.params: writing into a 16-word window never fails");
                    return;
                }
            };
            kani::assert(r0.is_ok() && r1.is_ok() && r2.is_ok(), "OBS c03.params: writing into a 16-word window never fails");
            let o = Oracle::<$w, 16> { words: rec.words, len: rec.len, pos: 0, zero_ext: true, budget: 40, reads: 0, base: 0 };
            let mut a = BufBitReader::<$e, Oracle<$w, 16>>::new(o.clone());
            let mut b = BufBitReader::<$e, Oracle<$w, 16>>::new(o);
            let pa = a.read_bits(npre);
            let pb = b.read_bits(npre);
            kani::assert(pa == pb && pa.is_ok(), "OBS c03.params: the preceding bits read back");
            let (ra, rb) = match which {
                0 => (a.read_gamma(), b.read_gamma_param::<false>()),
                1 => (a.read_delta(), b.read_delta_param::<false, true>()),
                2 => (a.read_zeta3(), b.read_zeta3_param::<true>()),
                _ => (a.read_zeta(2), b.read_zeta_param(2)),
            };
            kani::assert(ra == Ok(n), "OBS c03.params: the real reader's default method returns the value the real writer's default method wrote");
            kani::assert(ra == rb, "OBS c03.params: the default read method returns what the parameterised method it names returns");
            let (ba, bufa, bitsa) = a.verif_parts();
            let (bb, bufb, bitsb) = b.verif_parts();
            kani::assert(
                ba.pos == bb.pos && bitsa == bitsb && <$w as RW>::bb_to128(bufa) == <$w as RW>::bb_to128(bufb),
                "OBS c03.params: and leaves the reader in the same state",
            );
            kani::assert(
                r1 == Ok(ba.pos * <$w as VW>::NBITS - bitsa - npre),
                "OBS c03.params: bits consumed by the read = bits written = value returned by the write",
            );
            kani::cover!(ra.is_ok() && n > 1000, "c03.params reachable");
        }
    };
}
params_reader!(params_reader_be_u16, BE, u16);
params_reader!(params_reader_le_u16, LE, u16);
params_reader!(params_reader_be_u32, BE, u32);
params_reader!(params_reader_le_u32, LE, u32);

/// default write methods of `BufBitWriter`
macro_rules! params_writer {
    ($name:ident, $e:ty, $w:ty) => {
        pub fn $name(which: u8) {
            let buffer: $w = kani::any();
            let space: usize = kani::any();
            kani::assume(space >= 1 && space <= <$w as VW>::NBITS);
            let n: u64 = kani::any();
            kani::assume(n < u64::MAX);
            let mut a = BufBitWriter::<$e, Rec<$w, 20>>::verif_from_parts(Rec::new(), buffer, space);
            let mut b = BufBitWriter::<$e, Rec<$w, 20>>::verif_from_parts(Rec::new(), buffer, space);
            let (ra, rb) = match which {
                0 => (a.write_gamma(n), b.write_gamma_param::<true>(n)),
                1 => (a.write_delta(n), b.write_delta_param::<true, true>(n)),
                2 => (a.write_zeta3(n), b.write_zeta3_param::<true>(n)),
                _ => (a.write_zeta(n, 2), b.write_zeta_param::<true>(n, 2)),
            };
            kani::assert(ra == rb, "OBS c03.params: the default write method returns what the parameterised method it names returns");
            let (reca, bufa, spa) = a.verif_into_parts();
            let (recb, bufb, spb) = b.verif_into_parts();
            kani::assert(reca.len == recb.len && spa == spb && bufa == bufb, "OBS c03.params: and leaves the writer in the same state");
            let i: usize = kani::any();
            if i < reca.len {
                kani::assert(reca.words[i] == recb.words[i], "OBS c03.params: and delivers the same words");
            }
            kani::cover!(ra.is_ok(), "c03.params.writer reachable");
        }
    };
}
params_writer!(params_writer_be_u8, BE, u8);
params_writer!(params_writer_le_u64, LE, u64);

macro_rules! h {
    ($name:ident, $unw:expr, $body:expr) => {
        #[kani::proof]
        #[kani::stub(dsi_bitstream::traits::check_tables, crate::stubs::check_tables_stub)]
        #[kani::unwind($unw)]
        pub fn $name() {
            $body
        }
    };
}
h!(c05_peek_width_be_u8, 4, peek_width_buf::<BE, u8>());
h!(c05_peek_width_le_u8, 4, peek_width_buf::<LE, u8>());
h!(c05_peek_width_be_u16, 4, peek_width_buf::<BE, u16>());
h!(c05_peek_width_le_u16, 4, peek_width_buf::<LE, u16>());
h!(c05_peek_width_be_u32, 4, peek_width_buf::<BE, u32>());
h!(c05_peek_width_le_u32, 4, peek_width_buf::<LE, u32>());
h!(c05_peek_width_be_u64, 4, peek_width_buf::<BE, u64>());
h!(c05_peek_width_le_u64, 4, peek_width_buf::<LE, u64>());
h!(c05_peek_width_unbuffered_be, 4, peek_width_unbuf::<BE>());
h!(c05_peek_width_unbuffered_le, 4, peek_width_unbuf::<LE>());
h!(c03_params_reader_be_u16_gamma, 20, params_reader_be_u16(0));
h!(c03_params_reader_be_u16_delta, 20, params_reader_be_u16(1));
h!(c03_params_reader_be_u16_zeta3, 20, params_reader_be_u16(2));
h!(c03_params_reader_be_u16_zeta, 20, params_reader_be_u16(3));
h!(c03_params_reader_le_u16_gamma, 20, params_reader_le_u16(0));
h!(c03_params_reader_le_u16_delta, 20, params_reader_le_u16(1));
h!(c03_params_reader_le_u16_zeta3, 20, params_reader_le_u16(2));
h!(c03_params_reader_le_u16_zeta, 20, params_reader_le_u16(3));
h!(c03_params_reader_be_u32_gamma, 20, params_reader_be_u32(0));
h!(c03_params_reader_be_u32_delta, 20, params_reader_be_u32(1));
h!(c03_params_reader_be_u32_zeta3, 20, params_reader_be_u32(2));
h!(c03_params_reader_be_u32_zeta, 20, params_reader_be_u32(3));
h!(c03_params_reader_le_u32_gamma, 20, params_reader_le_u32(0));
h!(c03_params_reader_le_u32_delta, 20, params_reader_le_u32(1));
h!(c03_params_reader_le_u32_zeta3, 20, params_reader_le_u32(2));
h!(c03_params_reader_le_u32_zeta, 20, params_reader_le_u32(3));
h!(c03_params_writer_be_u8_gamma, 20, params_writer_be_u8(0));
h!(c03_params_writer_be_u8_delta, 20, params_writer_be_u8(1));
h!(c03_params_writer_be_u8_zeta3, 20, params_writer_be_u8(2));
h!(c03_params_writer_be_u8_zeta, 20, params_writer_be_u8(3));
h!(c03_params_writer_le_u64_gamma, 20, params_writer_le_u64(0));
h!(c03_params_writer_le_u64_delta, 20, params_writer_le_u64(1));
h!(c03_params_writer_le_u64_zeta3, 20, params_writer_le_u64(2));
h!(c03_params_writer_le_u64_zeta, 20, params_writer_le_u64(3));
