//! C01 — canonical byte image of `BufBitWriter` (implementation obligations).
//!
//! Functions under contract: `BufBitWriter::{new, write_bits, write_unary,
//! flush, into_inner, drop}` for `BE` and `LE` (and the private helpers
//! `flush_be` / `flush_le` they call).

use crate::ghost::{GhostErr, Rec};
use crate::layout::*;
use crate::vw::{VE, VW};
use common_traits::CastableInto;
use dsi_bitstream::impls::BufBitWriter;
use dsi_bitstream::traits::{BitWrite, WordWrite, BE, LE};

/// Window (in words) of the ghost backend for the data-independent zero-word
/// loop of `write_unary`. quick tier: K2, thorough tier: K4.
pub const K2: usize = 2;
pub const K4: usize = 4;

type Wr<E, W, const CAP: usize> = BufBitWriter<E, Rec<W, CAP>>;

/// requires Inv_W: 1 <= space_left <= W::BITS, any buffer content
fn any_writer_state<W: VW>() -> (W, usize)
where
    u64: CastableInto<W>,
{
    let buffer = W::any();
    let space: usize = kani::any();
    kani::assume(space >= 1 && space <= W::NBITS);
    (buffer, space)
}

/// stream bit `i` of (delivered words ++ pending bits)
#[inline(always)]
fn view_bit<W: VW, const CAP: usize>(
    le: bool,
    rec: &Rec<W, CAP>,
    buffer: W,
    pending: usize,
    i: usize,
) -> bool
where
    u64: CastableInto<W>,
{
    let k = rec.len;
    if i < k * W::NBITS {
        image_bit(le, rec.words[i / W::NBITS], i % W::NBITS)
    } else {
        wpending_bit(le, buffer, pending, i - k * W::NBITS)
    }
}

pub fn new<E: VE, W: VW>()
where
    u64: CastableInto<W>,
    Wr<E, W, 1>: BitWrite<E, Error = GhostErr>,
{
    let w = Wr::<E, W, 1>::new(Rec::new());
    let (rec, _buffer, space) = w.verif_into_parts();
    // Inv_W and the empty view
    kani::assert(space == W::NBITS, "OBS c01.new: a new writer has no pending bits");
    kani::assert(rec.len == 0, "OBS c01.new: a new writer has delivered nothing");
    kani::assert(rec.flushes == 0, "OBS c01.new: a new writer has not flushed its backend");
    kani::cover!(true, "c01.new reachable");
}

pub fn write_bits<E: VE, W: VW>()
where
    u64: CastableInto<W>,
    Wr<E, W, 10>: BitWrite<E, Error = GhostErr>,
{
    let le = E::LITTLE;
    let (buffer, space) = any_writer_state::<W>();
    let v: u64 = kani::any();
    let n: usize = kani::any();
    kani::assume(n <= 64);
    // under feature "checks" the trait contract has the extra precondition v < 2^n
    #[cfg(feature = "checks")]
    kani::assume(v & !low_mask(n) == 0);

    let mut w = Wr::<E, W, 10>::verif_from_parts(Rec::new(), buffer, space);
    let r = w.write_bits(v, n);
    let (rec, buffer2, space2) = w.verif_into_parts();

    let p = W::NBITS - space;
    let t = p + n;
    let k = t / W::NBITS;
    let p2 = t % W::NBITS;

    kani::assert(r == Ok(n), "OBS c01.write_bits: returns Ok(n)");
    kani::assert(rec.len == k, "OBS c01.write_bits: delivers floor((pending+n)/BITS) words");
    kani::assert(
        space2 >= 1 && space2 <= W::NBITS && space2 == W::NBITS - p2,
        "OBS c01.write_bits: Inv_W and pending' = (pending+n) mod BITS",
    );
    kani::assert(rec.flushes == 0, "OBS c01.write_bits: does not flush the backend");

    let i: usize = kani::any();
    if i < t {
        let expected = if i < p {
            wpending_bit(le, buffer, p, i)
        } else {
            field_bit(le, v, n, i - p)
        };
        let actual = view_bit(le, &rec, buffer2, p2, i);
        kani::assert(
            expected == actual,
            "OBS c01.write_bits: view' = view ++ field_E(v,n) (bit i of the canonical image)",
        );
    }
    kani::cover!(n == 64 && p == W::NBITS - 1, "c01.write_bits reachable (max span)");
    kani::cover!(n == 0, "c01.write_bits reachable (n = 0)");
}

/// C19 (feature `checks` only): a fixed-width write whose argument has a bit at
/// or above the requested width panics. The harness ends in `assert(false)`: the
/// driver (Obl.expect_panic) accepts it only if the single failed check is the
/// library's own "does not fit" panic, i.e. if no path returns from the call.
/// (`#[kani::should_panic]` with an arithmetic overflow as end marker was unsound
/// for this purpose: Rust's overflow check is itself a panic.)
#[cfg(feature = "checks")]
pub fn write_bits_dirty_panics<E: VE, W: VW>()
where
    u64: CastableInto<W>,
    Wr<E, W, 10>: BitWrite<E, Error = GhostErr>,
{
    let (buffer, space) = any_writer_state::<W>();
    let v: u64 = kani::any();
    let n: usize = kani::any();
    kani::assume(n < 64 && (v >> n) != 0); // every width 0..=63 (a 64-bit argument cannot be dirty)
    let mut w = Wr::<E, W, 10>::verif_from_parts(Rec::new(), buffer, space);
    let _ = w.write_bits(v, n);
    core::mem::forget(w);
    // not reached if the argument check fired (the driver expects the library's own panic and nothing else, see Obl.expect_panic)
    kani::assert(false, "OBS c19.checks.panic: write_bits returned although its argument has a bit at or above n_bits (the argument check did not fire)");
}

/// Bounded in the observation window only: the ghost backend holds `K` words;
/// all `x` are explored.
pub fn write_unary<E: VE, W: VW, const K: usize>()
where
    u64: CastableInto<W>,
    Wr<E, W, K>: BitWrite<E, Error = GhostErr>,
{
    let le = E::LITTLE;
    let (buffer, space) = any_writer_state::<W>();
    let x: u64 = kani::any();
    kani::assume(x != u64::MAX);

    let mut w = Wr::<E, W, K>::verif_from_parts(Rec::new(), buffer, space);
    let r = w.write_unary(x);
    let (rec, buffer2, space2) = w.verif_into_parts();

    let p = W::NBITS - space;
    let t: u128 = p as u128 + x as u128 + 1;
    let k: u128 = t / W::NBITS as u128;
    let p2 = (t % W::NBITS as u128) as usize;
    kani::assert(rec.flushes == 0, "OBS c01.write_unary: does not flush the backend");

    match r {
        Ok(len) => {
            kani::assert(len as u128 == x as u128 + 1, "OBS c01.write_unary: returns x+1");
            kani::assert(
                rec.len as u128 == k,
                "OBS c01.write_unary: delivers floor((pending+x+1)/BITS) words",
            );
            kani::assert(
                space2 >= 1 && space2 <= W::NBITS && space2 == W::NBITS - p2,
                "OBS c01.write_unary: Inv_W and pending' = (pending+x+1) mod BITS",
            );
            let i: usize = kani::any();
            if (i as u128) < t {
                let expected = if i < p {
                    wpending_bit(le, buffer, p, i)
                } else {
                    i as u128 == t - 1
                };
                let actual = view_bit(le, &rec, buffer2, p2, i);
                kani::assert(
                    expected == actual,
                    "OBS c01.write_unary: view' = view ++ 0^x 1 (bit i of the canonical image)",
                );
            }
        }
        Err(e) => {
            kani::assert(
                e == GhostErr::Window && k > K as u128 && rec.len == K,
                "OBS c01.write_unary: fails only when the backend fails",
            );
            // what was delivered is a prefix of the required image
            let i: usize = kani::any();
            if i < K * W::NBITS {
                let expected = if i < p {
                    wpending_bit(le, buffer, p, i)
                } else {
                    i as u128 == t - 1
                };
                kani::assert(
                    expected == image_bit(le, rec.words[i / W::NBITS], i % W::NBITS),
                    "OBS c01.write_unary: words delivered before a backend error are a prefix of view ++ 0^x 1",
                );
            }
        }
    }
    kani::cover!(r.is_ok() && rec.len == K, "c01.write_unary reachable (window filled, Ok)");
    kani::cover!(r.is_err(), "c01.write_unary reachable (window exhausted)");
}

fn flush_effect<W: VW, const CAP: usize>(
    le: bool,
    what: &'static str,
    rec: &Rec<W, CAP>,
    buffer: W,
    p: usize,
) where
    u64: CastableInto<W>,
{
    let _ = what;
    if p == 0 {
        kani::assert(rec.len == 0, "OBS c01.flush: nothing pending => nothing delivered");
    } else {
        kani::assert(rec.len == 1, "OBS c01.flush: pending bits => exactly one padded word");
        let i: usize = kani::any();
        if i < W::NBITS {
            let expected = if i < p { wpending_bit(le, buffer, p, i) } else { false };
            kani::assert(
                expected == image_bit(le, rec.words[0], i),
                "OBS c01.flush: delivered word = pending ++ zero padding",
            );
        }
    }
}

pub fn flush<E: VE, W: VW>()
where
    u64: CastableInto<W>,
    Wr<E, W, 2>: BitWrite<E, Error = GhostErr>,
{
    let le = E::LITTLE;
    let (buffer, space) = any_writer_state::<W>();
    let p = W::NBITS - space;
    let mut w = Wr::<E, W, 2>::verif_from_parts(Rec::new(), buffer, space);
    let r = w.flush();
    kani::assert(r == Ok(p), "OBS c01.flush: reports the number of pending bits");
    {
        let (rec, _b, space2) = w.verif_parts();
        flush_effect(le, "flush", rec, buffer, p);
        kani::assert(rec.flushes == 1, "OBS c01.flush: flushes the backend");
        kani::assert(space2 == W::NBITS, "OBS c01.flush: no bits pending afterwards");
    }
    // idempotent
    let r2 = w.flush();
    kani::assert(r2 == Ok(0), "OBS c01.flush: second flush reports 0 pending bits");
    let (rec, _b, space3) = w.verif_into_parts();
    kani::assert(
        rec.len == if p == 0 { 0 } else { 1 },
        "OBS c01.flush: second flush delivers nothing",
    );
    kani::assert(space3 == W::NBITS, "OBS c01.flush: still no bits pending");
    kani::cover!(p > 0, "c01.flush reachable (pending)");
    kani::cover!(p == 0, "c01.flush reachable (empty)");
}

pub fn into_inner<E: VE, W: VW>()
where
    u64: CastableInto<W>,
    Wr<E, W, 2>: BitWrite<E, Error = GhostErr>,
{
    let le = E::LITTLE;
    let (buffer, space) = any_writer_state::<W>();
    let p = W::NBITS - space;
    let w = Wr::<E, W, 2>::verif_from_parts(Rec::new(), buffer, space);
    match w.into_inner() {
        Ok(rec) => {
            flush_effect(le, "into_inner", &rec, buffer, p);
            kani::assert(rec.flushes == 1, "OBS c01.into_inner: flushes the backend once");
        }
        Err(_) => kani::assert(false, "OBS c01.into_inner: fails only when the backend fails"),
    }
    kani::cover!(p > 0, "c01.into_inner reachable");
}

/// A backend that logs into harness-owned storage, so that the effect of `drop`
/// can be observed.
pub struct RecRef<'a, W: VW, const CAP: usize>(pub &'a mut Rec<W, CAP>)
where
    u64: CastableInto<W>;
impl<'a, W: VW, const CAP: usize> WordWrite for RecRef<'a, W, CAP>
where
    u64: CastableInto<W>,
{
    type Error = GhostErr;
    type Word = W;
    fn write_word(&mut self, word: W) -> Result<(), GhostErr> {
        self.0.write_word(word)
    }
    fn flush(&mut self) -> Result<(), GhostErr> {
        self.0.flush()
    }
}

pub fn drop_<E: VE, W: VW>()
where
    u64: CastableInto<W>,
    for<'a> BufBitWriter<E, RecRef<'a, W, 2>>: BitWrite<E, Error = GhostErr>,
{
    let le = E::LITTLE;
    let (buffer, space) = any_writer_state::<W>();
    let p = W::NBITS - space;
    let mut store = Rec::<W, 2>::new();
    {
        let w = BufBitWriter::<E, RecRef<'_, W, 2>>::verif_from_parts(RecRef(&mut store), buffer, space);
        drop(w);
    }
    flush_effect(le, "drop", &store, buffer, p);
    kani::assert(store.flushes == 1, "OBS c01.drop: flushes the backend once");
    kani::cover!(p > 0, "c01.drop reachable");
}

macro_rules! harness {
    ($name:ident, $unwind:expr, $body:expr) => {
        #[kani::proof]
        #[kani::unwind($unwind)]
        pub fn $name() {
            $body
        }
    };
}

macro_rules! c01_for {
    ($e:ty, $el:ident, $w:ty, $wl:ident) => {
        pub mod $wl {
            use super::super::*;
            harness!(c01_new, 2, new::<$e, $w>());
            harness!(c01_write_bits, 11, write_bits::<$e, $w>());
            harness!(c01_write_unary_k2, 5, write_unary::<$e, $w, K2>());
            harness!(c01_write_unary_k4, 7, write_unary::<$e, $w, K4>());
            harness!(c01_flush, 2, flush::<$e, $w>());
            harness!(c01_into_inner, 2, into_inner::<$e, $w>());
            harness!(c01_drop, 2, drop_::<$e, $w>());
            #[cfg(feature = "checks")]
            #[kani::proof]
            #[kani::unwind(11)]
            pub fn c19_write_bits_dirty_panics() {
                write_bits_dirty_panics::<$e, $w>()
            }
        }
    };
}

pub mod be {
    use super::*;
    c01_for!(BE, be, u8, u8_);
    c01_for!(BE, be, u16, u16_);
    c01_for!(BE, be, u32, u32_);
    c01_for!(BE, be, u64, u64_);
    c01_for!(BE, be, u128, u128_);
}
pub mod le {
    use super::*;
    c01_for!(LE, le, u8, u8_);
    c01_for!(LE, le, u16, u16_);
    c01_for!(LE, le, u32, u32_);
    c01_for!(LE, le, u64, u64_);
    c01_for!(LE, le, u128, u128_);
}
