//! C17 — `ToInt` / `ToNat` are mutually inverse bijections on every width
//! (loop-free, full-domain obligations: complete proofs).

use dsi_bitstream::codes::{ToInt, ToNat};

macro_rules! c17_for {
    ($name:ident, $u:ty, $i:ty) => {
        #[kani::proof]
        pub fn $name() {
            let x: $u = kani::any();
            let y: $i = kani::any();
            kani::assert(x.to_int().to_nat() == x, "OBS c17: to_nat(to_int(x)) = x");
            kani::assert(y.to_nat().to_int() == y, "OBS c17: to_int(to_nat(y)) = y");
            // non-negative y -> 2y ; negative y -> -2y-1 (stated in the unsigned type, exact)
            if y >= 0 {
                kani::assert(y.to_nat() == (y as $u) << 1, "OBS c17: y >= 0 maps to 2y");
                kani::assert(y.to_nat() & 1 == 0, "OBS c17: y >= 0 maps to an even natural");
                kani::assert(y.to_nat() >> 1 == y as $u, "OBS c17: y >= 0: to_nat(y)/2 = y");
            } else {
                // -2y-1 = 2*(-(y+1)) + 1, and -(y+1) = !y as unsigned, which never overflows
                let m: $u = !(y as $u);
                kani::assert(y.to_nat() == (m << 1) | 1, "OBS c17: y < 0 maps to -2y-1");
                kani::assert(y.to_nat() >> 1 == m, "OBS c17: y < 0: (to_nat(y)-1)/2 = -(y+1)");
            }
            // magnitudes close to zero map to small naturals: |y| <= to_nat(y) <= 2|y|
            kani::assert(
                y.to_nat() >> 1 == if y >= 0 { y as $u } else { !(y as $u) },
                "OBS c17: to_nat(y)/2 is |y| or |y|-1",
            );
            kani::cover!(y == <$i>::MIN, "c17 reachable (MIN)");
            kani::cover!(x == <$u>::MAX, "c17 reachable (MAX)");
        }
    };
}

c17_for!(c17_8, u8, i8);
c17_for!(c17_16, u16, i16);
c17_for!(c17_32, u32, i32);
c17_for!(c17_64, u64, i64);
c17_for!(c17_128, u128, i128);
c17_for!(c17_size, usize, isize);
