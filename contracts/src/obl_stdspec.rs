//! Discharge of the `assume_specification`s / replacement rewrites the Verus
//! units rely on, by loop-free full-domain Kani obligations (so that they are
//! not trusted beyond "the two statements say the same thing").

/// `assume_specification[u64::ilog2]` of verus/units/{minimal_binary,golomb}.rs
#[kani::proof]
pub fn std_spec_ilog2() {
    let n: u64 = kani::any();
    kani::assume(n > 0);
    let r = n.ilog2();
    kani::assert(r < 64, "OBS std_spec.ilog2: r < 64");
    kani::assert((1u128 << r) <= n as u128, "OBS std_spec.ilog2: 2^r <= n");
    kani::assert((n as u128) < (1u128 << (r + 1)), "OBS std_spec.ilog2: n < 2^(r+1)");
    kani::cover!(r == 63, "std_spec.ilog2 reachable");
}

/// rewrite `core::cmp::min(n, c)` -> `if n <= c { n } else { c }` of verus/units/copy_*_generic.rs
#[kani::proof]
pub fn std_spec_min_u64() {
    let a: u64 = kani::any();
    let b: u64 = kani::any();
    kani::assert(core::cmp::min(a, b) == if a <= b { a } else { b }, "OBS std_spec.min: min(a,b) = if a <= b { a } else { b }");
    kani::cover!(a > b, "std_spec.min reachable");
}

/// `assume_specification[W::to_be / W::to_le]` + `axiom_be / axiom_le` of
/// verus/units/{writer_unary,reader_unary}.rs, and the link between the Verus
/// view (`words_bits`: bit i of the stream, BE = bit BITS-1-i of from_be(w),
/// LE = bit i of from_le(w)) and the canonical byte image (`layout::image_bit`,
/// defined on the memory bytes of the delivered word).
macro_rules! byte_order {
    ($name:ident, $w:ty) => {
        #[kani::proof]
        pub fn $name() {
            let x: $w = kani::any();
            kani::assert(<$w>::from_be(x.to_be()) == x, "OBS std_spec.byte_order: from_be(to_be(x)) = x");
            kani::assert(<$w>::from_le(x.to_le()) == x, "OBS std_spec.byte_order: from_le(to_le(x)) = x");
            kani::assert((0 as $w).to_be() == 0 && (0 as $w).to_le() == 0, "OBS std_spec.byte_order: to_be(0) = to_le(0) = 0");
            let i: usize = kani::any();
            kani::assume(i < <$w>::BITS as usize);
            kani::assert(
                crate::layout::image_bit(false, x.to_be(), i) == ((x >> (<$w>::BITS as usize - 1 - i)) & 1 != 0),
                "OBS std_spec.byte_order: stream bit i of a word delivered by a BE writer is bit BITS-1-i of the value",
            );
            kani::assert(
                crate::layout::image_bit(true, x.to_le(), i) == ((x >> i) & 1 != 0),
                "OBS std_spec.byte_order: stream bit i of a word delivered by an LE writer is bit i of the value",
            );
            // reader side: the value a BE (LE) reader works with is `raw.to_be()` (`raw.to_le()`)
            kani::assert(
                crate::layout::image_bit(false, x, i) == ((x.to_be() >> (<$w>::BITS as usize - 1 - i)) & 1 != 0),
                "OBS std_spec.byte_order: stream bit i of a word obtained by a BE reader is bit BITS-1-i of raw.to_be()",
            );
            kani::assert(
                crate::layout::image_bit(true, x, i) == ((x.to_le() >> i) & 1 != 0),
                "OBS std_spec.byte_order: stream bit i of a word obtained by an LE reader is bit i of raw.to_le()",
            );
            kani::cover!(i == 9 % (<$w>::BITS as usize), "std_spec.byte_order reachable");
        }
    };
}
byte_order!(std_spec_byte_order_u8, u8);
byte_order!(std_spec_byte_order_u16, u16);
byte_order!(std_spec_byte_order_u32, u32);
byte_order!(std_spec_byte_order_u64, u64);
byte_order!(std_spec_byte_order_u128, u128);

/// count-zeros specifications used by verus/units/reader_unary.rs (vstd's axioms for
/// u8..u64, verus/units/lz128.inc for u128), in exactly the form the unit uses
macro_rules! count_zeros {
    ($name:ident, $w:ty) => {
        #[kani::proof]
        pub fn $name() {
            let x: $w = kani::any();
            const B: u32 = <$w>::BITS;
            let lz = x.leading_zeros();
            let tz = x.trailing_zeros();
            kani::assert(lz <= B && tz <= B, "OBS std_spec.count_zeros: 0 <= lz, tz <= BITS");
            kani::assert((x == 0) == (lz == B) && (x == 0) == (tz == B), "OBS std_spec.count_zeros: x = 0 <=> lz = BITS <=> tz = BITS");
            if x != 0 {
                kani::assert((x >> (B - 1 - lz)) & 1 != 0, "OBS std_spec.count_zeros: bit BITS-1-lz is set");
                kani::assert((x >> tz) & 1 != 0, "OBS std_spec.count_zeros: bit tz is set");
            }
            let j: u32 = kani::any();
            kani::assume(j < B);
            if j >= B - lz {
                kani::assert((x >> j) & 1 == 0, "OBS std_spec.count_zeros: the bits above the leading one are zero");
            }
            if j < tz {
                kani::assert((x >> j) & 1 == 0, "OBS std_spec.count_zeros: the bits below the trailing one are zero");
            }
            kani::cover!(x != 0 && lz >= 1 && tz >= 1, "std_spec.count_zeros reachable");
        }
    };
}
count_zeros!(std_spec_count_zeros_u8, u8);
count_zeros!(std_spec_count_zeros_u16, u16);
count_zeros!(std_spec_count_zeros_u32, u32);
count_zeros!(std_spec_count_zeros_u64, u64);
count_zeros!(std_spec_count_zeros_u128, u128);

/// `assume_specification[W::rotate_right]` + `axiom_rotr` of verus/units/writer_copy_from.rs
macro_rules! rotate_right {
    ($name:ident, $w:ty) => {
        #[kani::proof]
        pub fn $name() {
            let x: $w = kani::any();
            let n: u32 = kani::any();
            let j: u32 = kani::any();
            const B: u32 = <$w>::BITS;
            kani::assume(j < B);
            let r = x.rotate_right(n);
            let src = ((j as u64 + n as u64) % B as u64) as u32;
            kani::assert(((r >> j) & 1) == ((x >> src) & 1), "OBS std_spec.rotate_right: bit j of rotate_right(x, n) is bit (j + n) mod BITS of x");
            kani::cover!(n > B && j == 3, "std_spec.rotate_right reachable");
        }
    };
}
rotate_right!(std_spec_rotate_right_u8, u8);
rotate_right!(std_spec_rotate_right_u16, u16);
rotate_right!(std_spec_rotate_right_u32, u32);
rotate_right!(std_spec_rotate_right_u64, u64);
rotate_right!(std_spec_rotate_right_u128, u128);

/// `assume_specification[BB::rotate_left]` + `axiom_rotl` of verus/units/reader_copy_to.rs
macro_rules! rotate_left {
    ($name:ident, $w:ty) => {
        #[kani::proof]
        pub fn $name() {
            let x: $w = kani::any();
            let n: u32 = kani::any();
            let j: u32 = kani::any();
            const B: u32 = <$w>::BITS;
            kani::assume(j < B && n <= B);
            let r = x.rotate_left(n);
            let src = (j + B - n) % B;
            kani::assert(((r >> j) & 1) == ((x >> src) & 1), "OBS std_spec.rotate_left: bit j of rotate_left(x, n) is bit (j + BITS - n) mod BITS of x (n <= BITS)");
            kani::cover!(n == B && j == 3, "std_spec.rotate_left reachable");
        }
    };
}
rotate_left!(std_spec_rotate_left_u16, u16);
rotate_left!(std_spec_rotate_left_u32, u32);
rotate_left!(std_spec_rotate_left_u64, u64);
rotate_left!(std_spec_rotate_left_u128, u128);

/// rewrite `Ord::min(n, x)` -> `if n <= x { n } else { x }` of verus/units/reader_copy_to.rs
#[kani::proof]
pub fn std_spec_ord_min_u64() {
    let a: u64 = kani::any();
    let b: u64 = kani::any();
    kani::assert(Ord::min(a, b) == if a <= b { a } else { b }, "OBS std_spec.ord_min: Ord::min(a,b) = if a <= b { a } else { b }");
    kani::cover!(a > b, "std_spec.ord_min reachable");
}
