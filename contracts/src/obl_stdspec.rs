//! Discharge of the `assume_specification`s / replacement rewrites the Verus
//! units rely on, by loop-free full-domain Kani obligations (so that they are
//! not trusted beyond "the two statements say the same thing").

/// `assume_specification[u64::ilog2]` of verus/units/{minimal_binary,golomb}.rs
#[kani::proof]
pub fn std_spec_ilog2() {
    let n: u64 = kani::any();
    kani::assume(n > 0);
    let r = n.ilog2();
    kani::assert(r < 64, "OBS std_spec.ilog2: r < 64");
    kani::assert((1u128 << r) <= n as u128, "OBS std_spec.ilog2: 2^r <= n");
    kani::assert((n as u128) < (1u128 << (r + 1)), "OBS std_spec.ilog2: n < 2^(r+1)");
    kani::cover!(r == 63, "std_spec.ilog2 reachable");
}

/// rewrite `core::cmp::min(n, c)` -> `if n <= c { n } else { c }` of verus/units/copy_*_generic.rs
#[kani::proof]
pub fn std_spec_min_u64() {
    let a: u64 = kani::any();
    let b: u64 = kani::any();
    kani::assert(core::cmp::min(a, b) == if a <= b { a } else { b }, "OBS std_spec.min: min(a,b) = if a <= b { a } else { b }");
    kani::cover!(a > b, "std_spec.min reachable");
}
