//! C08 — the optimised bulk-copy paths `BufBitReader::copy_to` and
//! `BufBitWriter::copy_from` (implementation obligations).
//!
//! The other end of the copy is the abstract model `BitsStream` (the trait
//! contract made executable, which also checks that every fixed-width call the
//! optimised path issues respects `n <= 64` and, under `checks`, cleanliness).

use crate::ghost::{GhostErr, Rec};
use crate::layout::*;
use crate::model::{Bits, BitsStream, ModelErr};
use crate::obl_reader::{any_reader, check_inv, Rd};
use crate::vw::{RW, VE, VW};
use common_traits::{CastableInto, DoubleType};
use dsi_bitstream::impls::BufBitWriter;
use dsi_bitstream::traits::{BitRead, BitSeek, BitWrite, CopyError, BE, LE};

type DT<W> = <W as DoubleType>::DoubleType;

/// `copy_to` from an arbitrary Inv_R state (including more than one word
/// buffered) into a writer that already holds arbitrary bits; every n.
/// Bounded in the observation window: the ghost backend allows K reads.
pub fn copy_to<E: VE, W: RW, const CAP: usize, const K: usize>(confirm: bool)
where
    u64: CastableInto<W>,
    DT<W>: CastableInto<u64> + Copy,
    Rd<E, W, CAP>: BitRead<E, Error = GhostErr, PeekWord = DT<W>> + BitSeek<Error = GhostErr>,
{
    let le = E::LITTLE;
    let (mut r, g) = any_reader::<E, W, CAP>(K);
    let pre = Bits::any(16);
    let len0 = pre.len;
    let mut w = BitsStream::<E>::new(pre, true, 16);
    let n: u64 = kani::any();
    let res = r.copy_to(&mut w, n);
    let target: u128 = g.p as u128 + n as u128;
    match res {
        Ok(()) => {
            kani::assert(
                g.o.zero_ext || target <= g.o.data_bits() as u128,
                "OBS c08.copy_to: Ok only if all n bits lie within the data of a strict stream",
            );
            kani::assert(w.bits.len as u128 == len0 as u128 + n as u128, "OBS c08.copy_to: the writer received exactly n bits");
            let j: usize = kani::any();
            if (j as u64) < n && j < 256 {
                kani::assert(
                    w.bits.bit(len0 + j) == g.o.stream_bit(le, g.p + j),
                    "OBS c08.copy_to: the writer received the reader's next n bits in order",
                );
            }
            let i: usize = kani::any();
            if i < len0 {
                kani::assert(w.bits.bit(i) == pre.bit(i), "OBS c08.copy_to: bits already written are not altered");
            }
            if !confirm {
                let p2 = check_inv(&r);
                kani::assert(p2 == target, "OBS c08.copy_to: the reader advanced by exactly n");
            } else {
                // continuation: observable consequences only
                let do_peek: bool = kani::any();
                let p1 = g.p + n as usize;
                if do_peek {
                    let m: usize = kani::any();
                    kani::assume(m >= 1 && m <= W::NBITS);
                    if let Ok(pw) = r.peek_bits(m) {
                        let v = W::bb_to128(pw);
                        kani::assert(v >> m == 0, "OBS c08.confirm: peeked value < 2^m after a copy");
                        let j: usize = kani::any();
                        if j < m {
                            kani::assert(
                                field_bit(le, v as u64, m, j) == g.o.stream_bit(le, p1 + j),
                                "OBS c08.confirm: a peek after copy_to returns the stream's bits",
                            );
                        }
                    } else {
                        return;
                    }
                }
                let k: usize = kani::any();
                kani::assume(k <= 64);
                if let Ok(v) = r.read_bits(k) {
                    kani::assert(v & !low_mask(k) == 0, "OBS c08.confirm: read value < 2^k after a copy");
                    let j: usize = kani::any();
                    if j < k {
                        kani::assert(
                            field_bit(le, v, k, j) == g.o.stream_bit(le, p1 + j),
                            "OBS c08.confirm: a read after copy_to (and an optional peek) returns the stream's bits",
                        );
                    }
                }
            }
        }
        Err(CopyError::ReadError(GhostErr::End)) => {
            kani::assert(
                !g.o.zero_ext && target > g.o.data_bits() as u128,
                "OBS c08.copy_to: read error only when copying beyond the end of a strict stream",
            );
        }
        Err(CopyError::ReadError(_)) => {
            let (bk, _, _) = r.verif_parts();
            kani::assert(
                bk.reads == K && target > ((g.o.pos + K) * W::NBITS) as u128,
                "OBS c08.copy_to: window error only when more than K words are needed",
            );
        }
        Err(CopyError::WriteError(e)) => {
            kani::assert(
                e == ModelErr::Window && len0 as u128 + n as u128 > 256,
                "OBS c08.copy_to: write error only when the writer fails",
            );
        }
    }
    kani::cover!(res.is_ok() && n as usize > g.bits + W::NBITS, "c08.copy_to reachable (buffer + whole word + tail)");
    kani::cover!(res.is_ok() && g.bits > W::NBITS && n > 0, "c08.copy_to reachable (more than one word buffered)");
    kani::cover!(res.is_ok() && n == 0, "c08.copy_to reachable (n = 0)");
}

type Wr<E, W, const CAPW: usize> = BufBitWriter<E, Rec<W, CAPW>>;

/// `copy_from` a model reader holding an arbitrary stream into a writer in an
/// arbitrary Inv_W state; every n (bounded by the writer's ghost window).
pub fn copy_from<E: VE, W: VW, const CAPW: usize>()
where
    u64: CastableInto<W>,
    Wr<E, W, CAPW>: BitWrite<E, Error = GhostErr>,
{
    let le = E::LITTLE;
    let buffer = W::any();
    let space: usize = kani::any();
    kani::assume(space >= 1 && space <= W::NBITS);
    let p = W::NBITS - space;
    let data = Bits::any(256);
    let mut src = BitsStream::<E>::new(data, kani::any(), 16);
    let start: usize = kani::any();
    kani::assume(start <= data.len && start <= 16);
    src.pos = start;
    let strict = src.strict;
    let n: u64 = kani::any();
    let mut w = Wr::<E, W, CAPW>::verif_from_parts(Rec::new(), buffer, space);
    let res = w.copy_from(&mut src, n);
    let (rec, buffer2, space2) = w.verif_into_parts();
    let t: u128 = p as u128 + n as u128;
    match res {
        Ok(()) => {
            kani::assert(!strict || start as u128 + n as u128 <= data.len as u128, "OBS c08.copy_from: Ok only if n bits were available in a strict source");
            kani::assert(src.pos as u128 == start as u128 + n as u128, "OBS c08.copy_from: the reader advanced by exactly n");
            let k = (t / W::NBITS as u128) as usize;
            let p2 = (t % W::NBITS as u128) as usize;
            kani::assert(rec.len == k, "OBS c08.copy_from: delivers floor((pending+n)/BITS) words");
            kani::assert(space2 >= 1 && space2 <= W::NBITS && space2 == W::NBITS - p2, "OBS c08.copy_from: Inv_W and pending' = (pending+n) mod BITS");
            let i: usize = kani::any();
            if (i as u128) < t && i < 512 {
                let expected = if i < p { wpending_bit(le, buffer, p, i) } else { data.bit(start + (i - p)) };
                let actual = if i < k * W::NBITS {
                    image_bit(le, rec.words[i / W::NBITS], i % W::NBITS)
                } else {
                    wpending_bit(le, buffer2, p2, i - k * W::NBITS)
                };
                kani::assert(expected == actual, "OBS c08.copy_from: view' = view ++ the reader's next n bits");
            }
        }
        Err(CopyError::ReadError(e)) => {
            kani::assert(
                (strict && e == ModelErr::End && start as u128 + n as u128 > data.len as u128) || e == ModelErr::Window,
                "OBS c08.copy_from: read error only when the source fails",
            );
        }
        Err(CopyError::WriteError(_)) => {
            kani::assert(t / W::NBITS as u128 > CAPW as u128, "OBS c08.copy_from: write error only when the backend fails");
        }
    }
    kani::cover!(res.is_ok() && n as usize > 2 * W::NBITS, "c08.copy_from reachable (several words)");
    kani::cover!(res.is_ok() && n == 0, "c08.copy_from reachable (n = 0)");
    kani::cover!(res.is_ok() && n > 0 && (n as usize) < space, "c08.copy_from reachable (fits the buffer)");
}

macro_rules! h {
    ($name:ident, $unw:expr, $body:expr) => {
        #[kani::proof]
        #[kani::unwind($unw)]
        pub fn $name() {
            $body
        }
    };
}

macro_rules! c08_rd {
    ($e:ty, $w:ty, $wl:ident, $cap:expr) => {
        pub mod $wl {
            use super::super::*;
            h!(c08_copy_to_k2, 18, copy_to::<$e, $w, $cap, 2>(false));
            h!(c08_copy_to_k4, 18, copy_to::<$e, $w, $cap, 4>(false));
            h!(c08_copy_to_confirm, 18, copy_to::<$e, $w, $cap, 3>(true));
        }
    };
}
macro_rules! c08_wr {
    ($e:ty, $w:ty, $wl:ident, $capw:expr, $unw:expr) => {
        pub mod $wl {
            use super::super::*;
            h!(c08_copy_from, $unw, copy_from::<$e, $w, $capw>());
        }
    };
}

pub mod rd_be {
    use super::*;
    c08_rd!(BE, u8, u8_, 12);
    c08_rd!(BE, u16, u16_, 8);
    c08_rd!(BE, u32, u32_, 6);
    c08_rd!(BE, u64, u64_, 6);
}
pub mod rd_le {
    use super::*;
    c08_rd!(LE, u8, u8_, 12);
    c08_rd!(LE, u16, u16_, 8);
    c08_rd!(LE, u32, u32_, 6);
    c08_rd!(LE, u64, u64_, 6);
}
pub mod wr_be {
    use super::*;
    c08_wr!(BE, u8, u8_, 4, 8);
    c08_wr!(BE, u16, u16_, 4, 8);
    c08_wr!(BE, u32, u32_, 4, 8);
    c08_wr!(BE, u64, u64_, 3, 8);
    c08_wr!(BE, u128, u128_, 2, 8);
}
pub mod wr_le {
    use super::*;
    c08_wr!(LE, u8, u8_, 4, 8);
    c08_wr!(LE, u16, u16_, 4, 8);
    c08_wr!(LE, u32, u32_, 4, 8);
    c08_wr!(LE, u64, u64_, 3, 8);
    c08_wr!(LE, u128, u128_, 2, 8);
}
