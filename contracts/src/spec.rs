//! Independent specification of the codes: for a value and parameters, the
//! codeword as a bit string (`Bits`) and its length, transcribed from the
//! *published definitions as documented by the library* (module docs of
//! `codes/*.rs` and the table in `codes/mod.rs`), not from the function bodies.
//!
//! Conventions for little-endian streams (documented in `codes/mod.rs`,
//! `codes/omega.rs`, `codes/minimal_binary.rs`): every fixed-width field is
//! written least significant bit first; ω blocks expose their most significant
//! bit first and then the remaining bits LSB first ("rotated by one"); the
//! extra bit of a long minimal-binary codeword comes last.
//!
//! Every function returns `None` when the codeword does not fit the 256-bit
//! model (only possible for unary / Golomb / Rice quotients).
//!
//! The spec is self-tested natively (`cargo test`, see `selftest.rs`) against
//! the literal codewords of the repository's regression tests and doc tables.

use crate::model::{field_to_bits, Bits};

#[inline(always)]
pub fn ilog2(n: u64) -> usize {
    debug_assert!(n > 0);
    63 - n.leading_zeros() as usize
}

#[inline(always)]
fn push_field(b: &mut Bits, le: bool, v: u64, n: usize) -> bool {
    b.push(field_to_bits(le, v, n), n)
}

/// x zeros followed by a one
pub fn push_unary(b: &mut Bits, x: u64) -> bool {
    if x >= 256 {
        return false;
    }
    let x = x as usize;
    if x >= 128 {
        b.push(0, 128) && b.push(1u128 << (x - 128), x - 128 + 1)
    } else {
        b.push(1u128 << x, x + 1)
    }
}

/// γ(n) = unary(⌊log2(n+1)⌋) ++ (n+1 without its top bit)
pub fn push_gamma(b: &mut Bits, le: bool, n: u64) -> bool {
    let m = n + 1;
    let l = ilog2(m);
    push_unary(b, l as u64) && push_field(b, le, m - (1u64 << l), l)
}

/// δ(n) = γ(⌊log2(n+1)⌋) ++ (n+1 without its top bit)
pub fn push_delta(b: &mut Bits, le: bool, n: u64) -> bool {
    let m = n + 1;
    let l = ilog2(m);
    push_gamma(b, le, l as u64) && push_field(b, le, m - (1u64 << l), l)
}

/// one ω block for N >= 2: the binary representation of N (λ+1 bits, leading one)
fn push_omega_block(b: &mut Bits, le: bool, nn: u64) -> bool {
    let l = ilog2(nn);
    if le {
        // most significant bit first, then the remaining λ bits LSB first
        b.push(1, 1) && push_field(b, true, nn - (1u64 << l), l)
    } else {
        push_field(b, false, nn, l + 1)
    }
}

/// ω(n): blocks b0 b1 … bk 0 where the last block is n+1 and each block,
/// incremented... i.e. each block's value is the length minus one of the next.
pub fn push_omega(b: &mut Bits, le: bool, n: u64) -> bool {
    // collect the chain N, λ(N), λ(λ(N)), … down to 1 (at most 6 levels for 64 bits)
    let mut chain = [0u64; 8];
    let mut k = 0;
    let mut nn = n + 1;
    while nn > 1 {
        chain[k] = nn;
        k += 1;
        nn = ilog2(nn) as u64;
    }
    // blocks are written from the shortest to the longest
    while k > 0 {
        k -= 1;
        if !push_omega_block(b, le, chain[k]) {
            return false;
        }
    }
    b.push(0, 1)
}

/// minimal binary code of x < u: s = ⌈log2 u⌉; x < 2^s − u is written in s−1
/// bits, otherwise x − u + 2^s in s bits. (2^s computed in u128: u may exceed 2^63.)
pub fn push_minimal_binary(b: &mut Bits, le: bool, x: u64, u: u64) -> bool {
    debug_assert!(u > 0 && x < u);
    let s = if u == 1 { 0 } else { ilog2(u - 1) + 1 }; // ceil(log2 u)
    let two_s: u128 = 1u128 << s;
    if two_s == u as u128 {
        // u is a power of two: there are no short codewords and nothing to decide
        // while decoding; the code is the plain s-bit field (this is what makes
        // Golomb_{2^k} = Rice_k, an identity the library documents through
        // `code_consts::GOLOMB4 = RICE2` etc. and `Codes::eq`)
        return push_field(b, le, x, s);
    }
    let short = two_s - u as u128;
    if (x as u128) < short {
        // s >= 1 here because short > 0 implies u is not a power of two, or x < 0 impossible
        push_field(b, le, x, s - 1)
    } else {
        let c = (x as u128 + two_s - u as u128) as u64;
        if s == 0 {
            return true;
        }
        if le {
            // the s−1 high bits first (as a field), the lowest bit last
            push_field(b, true, c >> 1, s - 1) && b.push((c & 1) as u128, 1)
        } else {
            push_field(b, false, c, s)
        }
    }
}

pub fn len_minimal_binary(x: u64, u: u64) -> usize {
    let s = if u == 1 { 0 } else { ilog2(u - 1) + 1 };
    let short = (1u128 << s) - u as u128;
    if (x as u128) < short {
        s - 1
    } else {
        s
    }
}

/// ζ_k(n): h = ⌊⌊log2(n+1)⌋ / k⌋ in unary, then the minimal binary code of
/// n+1−2^{hk} with upper bound 2^{(h+1)k} − 2^{hk}. Claimed where (h+1)k <= 64
/// with the bound computed modulo nothing, i.e. where 2^{(h+1)k} fits 65 bits;
/// the caller restricts to (h+1)·k <= 63 for the *format* claim (C04).
pub fn push_zeta(b: &mut Bits, le: bool, n: u64, k: usize) -> bool {
    let m = n + 1;
    let h = ilog2(m) / k;
    let lo: u128 = 1u128 << (h * k);
    let hi: u128 = 1u128 << ((h + 1) * k).min(127);
    // values are below 2^64: cap the interval there (documented maximum 2^64−2)
    let hi = if hi > (1u128 << 64) { 1u128 << 64 } else { hi };
    let u = (hi - lo) as u64;
    push_unary(b, h as u64) && push_minimal_binary(b, le, (m as u128 - lo) as u64, u)
}

/// Rice_k(x) = unary(x >> k) ++ k low bits
pub fn push_rice(b: &mut Bits, le: bool, x: u64, k: usize) -> bool {
    push_unary(b, x >> k) && push_field(b, le, x & crate::layout::low_mask(k), k)
}

/// Golomb_b(x) = unary(x / b) ++ minimal_binary(x mod b, b)
pub fn push_golomb(b: &mut Bits, le: bool, x: u64, m: u64) -> bool {
    push_unary(b, x / m) && push_minimal_binary(b, le, x % m, m)
}

/// π_k(n) = Rice_k(⌊log2(n+1)⌋) ++ (n+1 without its top bit)
pub fn push_pi(b: &mut Bits, le: bool, n: u64, k: usize) -> bool {
    let m = n + 1;
    let l = ilog2(m);
    push_rice(b, le, l as u64, k) && push_field(b, le, m - (1u64 << l), l)
}

/// exp-Golomb_k(n) = γ(n >> k) ++ k low bits
pub fn push_exp_golomb(b: &mut Bits, le: bool, n: u64, k: usize) -> bool {
    push_gamma(b, le, n >> k) && push_field(b, le, n & crate::layout::low_mask(k), k)
}

/// Number of bytes of the complete 7-bit-group code: the least L with
/// n < 128 + 128^2 + … + 128^L.
pub fn vbyte_len(n: u64) -> usize {
    let mut l = 1usize;
    let mut bound: u128 = 128; // Σ_{i=1..l} 128^i
    let mut pw: u128 = 128;
    while (n as u128) >= bound {
        l += 1;
        pw *= 128;
        bound += pw;
    }
    l
}

/// byte `j` (0-based, in stream order) of the VByte code of n; `big` selects the
/// big-endian (most significant group first) variant.
pub fn vbyte_byte(n: u64, big: bool, j: usize) -> u8 {
    let l = vbyte_len(n);
    debug_assert!(j < l);
    // offset O_l = Σ_{i=1..l-1} 128^i
    let mut off: u128 = 0;
    let mut pw: u128 = 1;
    let mut i = 1;
    while i < l {
        pw *= 128;
        off += pw;
        i += 1;
    }
    let m: u128 = n as u128 - off; // < 128^l
    // group index from the least significant
    let g = if big { l - 1 - j } else { j };
    let digit = ((m >> (7 * g)) & 0x7F) as u8;
    let last = j == l - 1;
    if last {
        digit
    } else {
        digit | 0x80
    }
}

/// VByte as a bit string: each byte is an 8-bit field of the bit stream.
pub fn push_vbyte(b: &mut Bits, le_stream: bool, n: u64, big: bool) -> bool {
    let l = vbyte_len(n);
    let mut j = 0;
    while j < l {
        if !push_field(b, le_stream, vbyte_byte(n, big, j) as u64, 8) {
            return false;
        }
        j += 1;
    }
    true
}

// ---------------------------------------------------------------------------
// lengths (u128 arithmetic: no overflow anywhere)
// ---------------------------------------------------------------------------

pub fn len_unary(n: u64) -> u128 {
    n as u128 + 1
}
pub fn len_gamma(n: u64) -> u128 {
    2 * ilog2(n + 1) as u128 + 1
}
pub fn len_delta(n: u64) -> u128 {
    let l = ilog2(n + 1);
    l as u128 + len_gamma(l as u64)
}
pub fn len_omega(n: u64) -> u128 {
    let mut nn = n + 1;
    let mut t: u128 = 1;
    while nn > 1 {
        let l = ilog2(nn);
        t += l as u128 + 1;
        nn = l as u64;
    }
    t
}
pub fn len_zeta(n: u64, k: usize) -> u128 {
    let m = n + 1;
    let h = ilog2(m) / k;
    let lo: u128 = 1u128 << (h * k);
    let hi: u128 = 1u128 << ((h + 1) * k).min(127);
    let hi = if hi > (1u128 << 64) { 1u128 << 64 } else { hi };
    h as u128 + 1 + len_minimal_binary((m as u128 - lo) as u64, (hi - lo) as u64) as u128
}
pub fn len_rice(n: u64, k: usize) -> u128 {
    (n >> k) as u128 + 1 + k as u128
}
pub fn len_golomb(n: u64, b: u64) -> u128 {
    (n / b) as u128 + 1 + len_minimal_binary(n % b, b) as u128
}
pub fn len_pi(n: u64, k: usize) -> u128 {
    let l = ilog2(n + 1);
    len_rice(l as u64, k) + l as u128
}
pub fn len_exp_golomb(n: u64, k: usize) -> u128 {
    len_gamma(n >> k) + k as u128
}
pub fn len_vbyte(n: u64) -> u128 {
    8 * vbyte_len(n) as u128
}
