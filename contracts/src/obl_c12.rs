//! C12 — the std::io::Write view of `BufBitWriter` and the std::io::Read views of
//! `BufBitReader` / `BitReader` are byte-exact (implementation obligations).
//!
//! Bounded in the slice length L only (state, contents, offset symbolic).

use crate::ghost::{GhostErr, Oracle, Rec};
use crate::layout::*;
use crate::obl_bitreader as ub;
use crate::vw::{RW, VE, VW};
use common_traits::{CastableInto, DoubleType};
use dsi_bitstream::impls::{BitReader, BufBitReader, BufBitWriter};
use dsi_bitstream::traits::{BitRead, BitWrite, BE, LE};

type DT<W> = <W as DoubleType>::DoubleType;

/// stream bit `i` of a byte slice written/read through std::io: bytes in order,
/// bit 7-(i%8) of byte i/8 first for BE, bit i%8 for LE (the canonical layout)
#[inline(always)]
fn slice_bit(le: bool, buf: &[u8], i: usize) -> bool {
    let b = buf[i / 8];
    if le {
        (b >> (i % 8)) & 1 != 0
    } else {
        (b >> (7 - i % 8)) & 1 != 0
    }
}

pub fn io_write<E: VE, W: VW, const CAPW: usize, const L: usize>()
where
    u64: CastableInto<W>,
    BufBitWriter<E, Rec<W, CAPW>>: BitWrite<E, Error = GhostErr> + std::io::Write,
{
    let le = E::LITTLE;
    let buffer = W::any();
    let space: usize = kani::any();
    kani::assume(space >= 1 && space <= W::NBITS);
    let p = W::NBITS - space;
    let data: [u8; L] = kani::any();
    let len: usize = L;
    let mut w = BufBitWriter::<E, Rec<W, CAPW>>::verif_from_parts(Rec::new(), buffer, space);
    let r = std::io::Write::write(&mut w, &data[..len]);
    let (rec, buffer2, space2) = w.verif_into_parts();
    match r {
        Ok(k) => kani::assert(k == len, "OBS c12.write: reports the whole slice as transferred"),
        Err(_) => kani::assert(false, "OBS c12.write: fails only when the backend fails"),
    }
    let t = p + 8 * len;
    let k = t / W::NBITS;
    let p2 = t % W::NBITS;
    kani::assert(rec.len == k, "OBS c12.write: delivers floor((pending+8*len)/BITS) words");
    kani::assert(space2 >= 1 && space2 == W::NBITS - p2, "OBS c12.write: Inv_W and pending' = (pending+8*len) mod BITS");
    let i: usize = kani::any();
    if i < t {
        let expected = if i < p { wpending_bit(le, buffer, p, i) } else { slice_bit(le, &data, i - p) };
        let actual = if i < k * W::NBITS {
            image_bit(le, rec.words[i / W::NBITS], i % W::NBITS)
        } else {
            wpending_bit(le, buffer2, p2, i - k * W::NBITS)
        };
        kani::assert(expected == actual, "OBS c12.write: the bytes appear in the stream in order starting at the current bit position");
    }
    kani::cover!(p % 8 != 0, "c12.write reachable (unaligned)");
}

pub fn io_read_buf<E: VE, W: RW, const CAP: usize, const L: usize>()
where
    u64: CastableInto<W>,
    DT<W>: CastableInto<u64> + Copy,
    BufBitReader<E, Oracle<W, CAP>>: BitRead<E, Error = GhostErr> + std::io::Read,
{
    let le = E::LITTLE;
    let (mut r, g) = crate::obl_reader::any_reader::<E, W, CAP>(CAP);
    let mut buf = [0u8; L];
    let len: usize = L;
    let res = std::io::Read::read(&mut r, &mut buf[..len]);
    match res {
        Ok(k) => {
            kani::assert(k == len, "OBS c12.read: reports the whole slice as transferred");
            kani::assert(g.o.zero_ext || g.p + 8 * len <= g.o.data_bits(), "OBS c12.read: Ok only if 8*len bits were available");
            let i: usize = kani::any();
            if i < 8 * len {
                kani::assert(
                    slice_bit(le, &buf, i) == g.o.stream_bit(le, g.p + i),
                    "OBS c12.read: the bytes are the next 8*len stream bits grouped in stream order",
                );
            }
            let p2 = crate::obl_reader::check_inv(&r);
            kani::assert(p2 == (g.p + 8 * len) as u128, "OBS c12.read: advances by exactly 8*len bits");
        }
        Err(_) => {
            kani::assert(!g.o.zero_ext && g.p + 8 * len > g.o.data_bits(), "OBS c12.read: Err only beyond the end of a strict stream");
        }
    }
    kani::cover!(res.is_ok() && g.bits % 8 != 0, "c12.read reachable (unaligned)");
}

pub fn io_read_unbuf<E: VE, const L: usize>()
where
    ub::Br<E>: BitRead<E, Error = GhostErr> + std::io::Read,
{
    let le = E::LITTLE;
    let (mut r, g) = ub::any_reader::<E>(ub::CAP + 1);
    let mut buf = [0u8; L];
    let len: usize = L;
    let res = std::io::Read::read(&mut r, &mut buf[..len]);
    match res {
        Ok(k) => {
            kani::assert(k == len, "OBS c12.read.unbuffered: reports the whole slice as transferred");
            kani::assert(g.o.zero_ext || len == 0 || g.p + 8 * len <= g.o.data_bits(), "OBS c12.read.unbuffered: Ok only if 8*len bits were available");
            let i: usize = kani::any();
            if i < 8 * len {
                kani::assert(
                    slice_bit(le, &buf, i) == g.o.stream_bit(le, g.p + i),
                    "OBS c12.read.unbuffered: the bytes are the next 8*len stream bits grouped in stream order",
                );
            }
            kani::assert(r.verif_parts().1 == g.abs + 8 * len as u64, "OBS c12.read.unbuffered: advances by exactly 8*len bits");
        }
        Err(_) => {
            kani::assert(!g.o.zero_ext && g.p + 8 * len > g.o.data_bits(), "OBS c12.read.unbuffered: Err only beyond the end of a strict stream");
        }
    }
    kani::cover!(res.is_ok() && g.p % 8 != 0, "c12.read.unbuffered reachable (unaligned)");
}

macro_rules! h {
    ($name:ident, $unw:expr, $body:expr) => {
        #[kani::proof]
        #[kani::unwind($unw)]
        pub fn $name() {
            $body
        }
    };
}

macro_rules! c12_wr {
    ($e:ty, $w:ty, $wl:ident, $c0:expr, $c1:expr, $c7:expr, $c8:expr, $c9:expr, $c17:expr) => {
        pub mod $wl {
            use super::super::*;
            h!(c12_write_l0, 12, io_write::<$e, $w, $c0, 0>());
            h!(c12_write_l1, 12, io_write::<$e, $w, $c1, 1>());
            h!(c12_write_l7, 12, io_write::<$e, $w, $c7, 7>());
            h!(c12_write_l8, 12, io_write::<$e, $w, $c8, 8>());
            h!(c12_write_l9, 12, io_write::<$e, $w, $c9, 9>());
            h!(c12_write_l17, 12, io_write::<$e, $w, $c17, 17>());
        }
    };
}
macro_rules! c12_rd {
    ($e:ty, $w:ty, $wl:ident, $c0:expr, $c1:expr, $c7:expr, $c8:expr, $c9:expr, $c17:expr) => {
        pub mod $wl {
            use super::super::*;
            h!(c12_read_l0, 24, io_read_buf::<$e, $w, $c0, 0>());
            h!(c12_read_l1, 24, io_read_buf::<$e, $w, $c1, 1>());
            h!(c12_read_l7, 24, io_read_buf::<$e, $w, $c7, 7>());
            h!(c12_read_l8, 24, io_read_buf::<$e, $w, $c8, 8>());
            h!(c12_read_l9, 24, io_read_buf::<$e, $w, $c9, 9>());
            h!(c12_read_l17, 24, io_read_buf::<$e, $w, $c17, 17>());
        }
    };
}
pub mod wr_be {
    use super::*;
    c12_wr!(BE, u8, u8_, 1, 2, 8, 9, 10, 18);
    c12_wr!(BE, u16, u16_, 1, 2, 5, 5, 6, 10);
    c12_wr!(BE, u32, u32_, 1, 2, 3, 3, 4, 6);
    c12_wr!(BE, u64, u64_, 1, 2, 2, 2, 3, 4);
    c12_wr!(BE, u128, u128_, 1, 2, 2, 2, 2, 3);
}
pub mod rd_be {
    use super::*;
    c12_rd!(BE, u8, u8_, 3, 4, 10, 11, 12, 20);
    c12_rd!(BE, u16, u16_, 3, 4, 7, 7, 8, 12);
    c12_rd!(BE, u32, u32_, 3, 4, 5, 5, 6, 8);
    c12_rd!(BE, u64, u64_, 3, 4, 4, 4, 5, 6);
    h!(c12_read_unbuffered_l0, 12, io_read_unbuf::<BE, 0>());
    h!(c12_read_unbuffered_l1, 12, io_read_unbuf::<BE, 1>());
    h!(c12_read_unbuffered_l7, 12, io_read_unbuf::<BE, 7>());
    h!(c12_read_unbuffered_l8, 12, io_read_unbuf::<BE, 8>());
    h!(c12_read_unbuffered_l9, 12, io_read_unbuf::<BE, 9>());
    h!(c12_read_unbuffered_l17, 12, io_read_unbuf::<BE, 17>());
}
pub mod wr_le {
    use super::*;
    c12_wr!(LE, u8, u8_, 1, 2, 8, 9, 10, 18);
    c12_wr!(LE, u16, u16_, 1, 2, 5, 5, 6, 10);
    c12_wr!(LE, u32, u32_, 1, 2, 3, 3, 4, 6);
    c12_wr!(LE, u64, u64_, 1, 2, 2, 2, 3, 4);
    c12_wr!(LE, u128, u128_, 1, 2, 2, 2, 2, 3);
}
pub mod rd_le {
    use super::*;
    c12_rd!(LE, u8, u8_, 3, 4, 10, 11, 12, 20);
    c12_rd!(LE, u16, u16_, 3, 4, 7, 7, 8, 12);
    c12_rd!(LE, u32, u32_, 3, 4, 5, 5, 6, 8);
    c12_rd!(LE, u64, u64_, 3, 4, 4, 4, 5, 6);
    h!(c12_read_unbuffered_l0, 12, io_read_unbuf::<LE, 0>());
    h!(c12_read_unbuffered_l1, 12, io_read_unbuf::<LE, 1>());
    h!(c12_read_unbuffered_l7, 12, io_read_unbuf::<LE, 7>());
    h!(c12_read_unbuffered_l8, 12, io_read_unbuf::<LE, 8>());
    h!(c12_read_unbuffered_l9, 12, io_read_unbuf::<LE, 9>());
    h!(c12_read_unbuffered_l17, 12, io_read_unbuf::<LE, 17>());
}
