//! C02 / C07 / C09 — `BufBitReader` (implementation obligations).
//!
//! Functions under contract: `BufBitReader::{new, refill, peek_bits,
//! skip_bits_after_peek, read_bits, read_unary, skip_bits, clone, bit_pos,
//! set_bit_pos}` for `BE` and `LE`.
//!
//! View α_R(reader) = (S, p): S is the canonical-layout bit string of the
//! backend's words (zero-extended or strict), p = cursor·BITS − bits_in_buffer.
//! Inv_R: bits_in_buffer < 2·BITS, p ≥ 0, buffer = `mk_buffer(S, p, bits)`, i.e.
//! the valid window equals S[p .. p+bits) and every other buffer bit is zero.

use crate::ghost::{GhostErr, Oracle};
use crate::layout::*;
use crate::vw::{RW, VE, VW};
use common_traits::{CastableInto, DoubleType};
use dsi_bitstream::impls::BufBitReader;
use dsi_bitstream::traits::{BitRead, BitSeek, BE, LE};

type DT<W> = <W as DoubleType>::DoubleType;
pub type Rd<E, W, const CAP: usize> = BufBitReader<E, Oracle<W, CAP>>;

/// The unique buffer content satisfying Inv_R for cursor `pos` and `bits` valid bits.
pub fn mk_buffer<W: RW, const CAP: usize>(le: bool, o: &Oracle<W, CAP>, pos: usize, bits: usize) -> u128
where
    u64: CastableInto<W>,
    DT<W>: CastableInto<u64> + Copy,
{
    let bb = 2 * W::NBITS;
    if bits == 0 {
        return 0;
    }
    let w1 = if pos >= 1 { o.word_at(pos - 1) } else { W::from128(0) };
    let w2 = if pos >= 2 { o.word_at(pos - 2) } else { W::from128(0) };
    if le {
        // earlier stream bits are lower
        let d = (w1.le_val() << W::NBITS) | w2.le_val();
        d >> (bb - bits)
    } else {
        let d = (w2.be_val() << W::NBITS) | w1.be_val();
        let m = if bits >= 128 { u128::MAX } else { (1u128 << bits) - 1 };
        (d & m) << (bb - bits)
    }
}

pub struct Ghost<W: RW, const CAP: usize>
where
    u64: CastableInto<W>,
    DT<W>: CastableInto<u64> + Copy,
{
    pub o: Oracle<W, CAP>,
    pub bits: usize,
    /// position of the next unread bit
    pub p: usize,
}

/// An arbitrary reader state satisfying Inv_R.
pub fn any_reader<E: VE, W: RW, const CAP: usize>(budget: usize) -> (Rd<E, W, CAP>, Ghost<W, CAP>)
where
    u64: CastableInto<W>,
    DT<W>: CastableInto<u64> + Copy,
{
    let o = Oracle::<W, CAP>::any_near(budget, 2);
    let bits: usize = kani::any();
    kani::assume(bits < 2 * W::NBITS && bits <= o.pos * W::NBITS);
    let buffer = mk_buffer(E::LITTLE, &o, o.pos, bits);
    let p = o.pos * W::NBITS - bits;
    let r = Rd::<E, W, CAP>::verif_from_parts(o.clone(), W::bb_from128(buffer), bits);
    (r, Ghost { o, bits, p })
}

/// Asserts Inv_R on the reader and returns its position p'.
pub fn check_inv<E: VE, W: RW, const CAP: usize>(r: &Rd<E, W, CAP>) -> u128
where
    u64: CastableInto<W>,
    DT<W>: CastableInto<u64> + Copy,
{
    let (bk, buf, bits) = r.verif_parts();
    kani::assert(
        bits < 2 * W::NBITS && bits <= bk.pos * W::NBITS,
        "INT inv_r: bits_in_buffer < 2*BITS and position >= 0",
    );
    kani::assert(
        W::bb_to128(buf) == mk_buffer(E::LITTLE, bk, bk.pos, bits),
        "INT inv_r: buffer window = stream window and all other buffer bits are zero",
    );
    (bk.pos as u128) * (W::NBITS as u128) - bits as u128
}

macro_rules! rd_bounds {
    () => {};
}

pub fn new<E: VE, W: RW, const CAP: usize>()
where
    u64: CastableInto<W>,
    DT<W>: CastableInto<u64> + Copy,
    Rd<E, W, CAP>: BitRead<E, Error = GhostErr>,
{
    let o = Oracle::<W, CAP>::any(1);
    let pos = o.pos;
    let r = Rd::<E, W, CAP>::new(o);
    let p = check_inv(&r);
    kani::assert(p == (pos as u128) * W::NBITS as u128, "OBS c02.new: a new reader is positioned at the backend's cursor");
    kani::cover!(true, "c02.new reachable");
}

pub fn read_bits<E: VE, W: RW, const CAP: usize>()
where
    u64: CastableInto<W>,
    DT<W>: CastableInto<u64> + Copy,
    Rd<E, W, CAP>: BitRead<E, Error = GhostErr>,
{
    let le = E::LITTLE;
    let (mut r, g) = any_reader::<E, W, CAP>(10);
    let n: usize = kani::any();
    kani::assume(n <= 64);
    let res = r.read_bits(n);
    match res {
        Ok(v) => {
            kani::assert(v & !low_mask(n) == 0, "OBS c02.read_bits: value < 2^n");
            let j: usize = kani::any();
            if j < n {
                kani::assert(
                    field_bit(le, v, n, j) == g.o.stream_bit(le, g.p + j),
                    "OBS c02.read_bits: field_E(v,n) = S[p..p+n)",
                );
            }
            kani::assert(
                g.o.zero_ext || g.p + n <= g.o.data_bits(),
                "OBS c09.read_bits: Ok only if all n bits lie within the data of a strict stream",
            );
            let p2 = check_inv(&r);
            kani::assert(p2 == (g.p + n) as u128, "OBS c02.read_bits: advances by exactly n");
            // contract clause used by the Verus unit reader_copy_to (the optimised copy relies on it
            // to bound the bits left in the buffer after moving the first 64)
            if n <= g.bits {
                let (_, _, bits2) = r.verif_parts();
                kani::assert(bits2 == g.bits - n, "INT c02.read_bits: no backend access when the buffer holds enough bits");
            }
        }
        Err(e) => {
            kani::assert(
                e == GhostErr::End && !g.o.zero_ext && g.p + n > g.o.data_bits(),
                "OBS c09.read_bits: Err only when a bit beyond the end of a strict stream is needed",
            );
        }
    }
    kani::cover!(res.is_ok() && n == 64 && g.bits == 0, "c02.read_bits reachable (64 bits, empty buffer)");
    kani::cover!(res.is_ok() && g.bits > W::NBITS, "c02.read_bits reachable (more than one word buffered)");
    kani::cover!(res.is_err(), "c02.read_bits reachable (strict end)");
}

pub fn peek_bits<E: VE, W: RW, const CAP: usize>()
where
    u64: CastableInto<W>,
    DT<W>: CastableInto<u64> + Copy,
    Rd<E, W, CAP>: BitRead<E, Error = GhostErr, PeekWord = DT<W>>,
{
    let le = E::LITTLE;
    let (mut r, g) = any_reader::<E, W, CAP>(4);
    let n: usize = kani::any();
    kani::assume(n >= 1 && n <= W::NBITS);
    let res = r.peek_bits(n);
    match res {
        Ok(pw) => {
            let v128 = W::bb_to128(pw);
            kani::assert(v128 >> n == 0, "OBS c02.peek_bits: value < 2^n");
            let v = v128 as u64;
            let j: usize = kani::any();
            if j < n {
                kani::assert(
                    field_bit(le, v, n, j) == g.o.stream_bit(le, g.p + j),
                    "OBS c02.peek_bits: field_E(v,n) = S[p..p+n)",
                );
            }
            kani::assert(
                g.o.zero_ext || g.p + n <= g.o.data_bits(),
                "OBS c09.peek_bits: Ok only if all n bits lie within the data of a strict stream",
            );
            let p2 = check_inv(&r);
            kani::assert(p2 == g.p as u128, "OBS c02.peek_bits: does not advance");
            // repeatable
            let res2 = r.peek_bits(n);
            match res2 {
                Ok(pw2) => kani::assert(W::bb_to128(pw2) == v128, "OBS c02.peek_bits: repeatable"),
                Err(_) => kani::assert(false, "OBS c02.peek_bits: repeatable (second peek failed)"),
            }
            let p3 = check_inv(&r);
            kani::assert(p3 == g.p as u128, "OBS c02.peek_bits: second peek does not advance");
        }
        Err(e) => {
            kani::assert(
                e == GhostErr::End && !g.o.zero_ext && g.p + n > g.o.data_bits(),
                "OBS c09.peek_bits: Err only when a bit beyond the end of a strict stream is needed",
            );
            let (bk, buf, bits) = r.verif_parts();
            kani::assert(
                bits == g.bits && bk.pos == g.o.pos && W::bb_to128(buf) == mk_buffer(le, &g.o, g.o.pos, g.bits),
                "OBS c09.peek_bits: a failed peek leaves the reader unchanged",
            );
        }
    }
    kani::cover!(res.is_ok() && n == W::NBITS && g.bits == 0, "c02.peek_bits reachable (full word, empty buffer)");
    kani::cover!(res.is_err(), "c02.peek_bits reachable (strict end)");
}

pub fn skip_bits_after_peek<E: VE, W: RW, const CAP: usize>()
where
    u64: CastableInto<W>,
    DT<W>: CastableInto<u64> + Copy,
    Rd<E, W, CAP>: BitRead<E, Error = GhostErr>,
{
    let (mut r, g) = any_reader::<E, W, CAP>(1);
    let n: usize = kani::any();
    // precondition: at most the number of bits a preceding peek made available
    kani::assume(n <= g.bits);
    r.skip_bits_after_peek(n);
    let p2 = check_inv(&r);
    kani::assert(p2 == (g.p + n) as u128, "OBS c02.skip_bits_after_peek: advances by exactly n");
    kani::cover!(n > W::NBITS, "c02.skip_bits_after_peek reachable");
}

pub fn read_unary<E: VE, W: RW, const CAP: usize, const K: usize>()
where
    u64: CastableInto<W>,
    DT<W>: CastableInto<u64> + Copy,
    Rd<E, W, CAP>: BitRead<E, Error = GhostErr>,
{
    let le = E::LITTLE;
    let (mut r, g) = any_reader::<E, W, CAP>(K);
    let res = r.read_unary();
    match res {
        Ok(x) => {
            let j: usize = kani::any();
            if j as u64 <= x {
                kani::assert(
                    g.o.stream_bit(le, g.p + j) == (j as u64 == x),
                    "OBS c02.read_unary: S[p..p+x] = 0^x 1",
                );
            }
            kani::assert(
                g.o.zero_ext || g.p + x as usize + 1 <= g.o.data_bits(),
                "OBS c09.read_unary: Ok only if the terminating one lies within the data",
            );
            let p2 = check_inv(&r);
            kani::assert(p2 == g.p as u128 + x as u128 + 1, "OBS c02.read_unary: advances by exactly x+1");
        }
        Err(GhostErr::End) => {
            kani::assert(!g.o.zero_ext, "OBS c09.read_unary: a zero-extended stream never reports its end");
            let j: usize = kani::any();
            if j < CAP * W::NBITS && g.p + j < g.o.data_bits() {
                kani::assert(
                    !g.o.stream_bit(le, g.p + j),
                    "OBS c09.read_unary: Err only if no one-bit remains before the end",
                );
            }
        }
        Err(_) => {
            // observation window exhausted: K words were consumed and were all zero
            let (bk, _, _) = r.verif_parts();
            kani::assert(bk.reads == K, "OBS c02.read_unary: window error only after K backend reads");
            let j: usize = kani::any();
            if j < (CAP + K + 4) * W::NBITS && g.p + j < (g.o.pos + K) * W::NBITS {
                kani::assert(!g.o.stream_bit(le, g.p + j), "OBS c02.read_unary: all bits inside the window are zero");
            }
        }
    }
    kani::cover!(matches!(res, Ok(x) if x as usize > g.bits + W::NBITS), "c02.read_unary reachable (spans a zero word)");
    kani::cover!(matches!(res, Err(GhostErr::End)), "c02.read_unary reachable (strict end)");
}

pub fn skip_bits<E: VE, W: RW, const CAP: usize, const K: usize>()
where
    u64: CastableInto<W>,
    DT<W>: CastableInto<u64> + Copy,
    Rd<E, W, CAP>: BitRead<E, Error = GhostErr>,
{
    let (mut r, g) = any_reader::<E, W, CAP>(K);
    let n: usize = kani::any();
    let res = r.skip_bits(n);
    let target: u128 = g.p as u128 + n as u128;
    match res {
        Ok(()) => {
            kani::assert(
                g.o.zero_ext || target <= g.o.data_bits() as u128,
                "OBS c09.skip_bits: Ok only within the data of a strict stream",
            );
            let p2 = check_inv(&r);
            kani::assert(p2 == target, "OBS c02.skip_bits: advances by exactly n");
        }
        Err(GhostErr::End) => {
            kani::assert(
                !g.o.zero_ext && target > g.o.data_bits() as u128,
                "OBS c09.skip_bits: Err only when skipping beyond the end of a strict stream",
            );
        }
        Err(_) => {
            let (bk, _, _) = r.verif_parts();
            kani::assert(
                bk.reads == K && target > ((g.o.pos + K) * W::NBITS) as u128,
                "OBS c02.skip_bits: window error only when more than K words are needed",
            );
        }
    }
    kani::cover!(res.is_ok() && n > g.bits + W::NBITS, "c02.skip_bits reachable (skips a whole word)");
}

pub fn clone_<E: VE, W: RW, const CAP: usize>()
where
    u64: CastableInto<W>,
    DT<W>: CastableInto<u64> + Copy,
    Rd<E, W, CAP>: BitRead<E, Error = GhostErr>,
{
    let (r, g) = any_reader::<E, W, CAP>(3);
    let r2 = r.clone();
    let (b1, buf1, bits1) = r.verif_parts();
    let (b2, buf2, bits2) = r2.verif_parts();
    kani::assert(
        W::bb_to128(buf1) == W::bb_to128(buf2) && bits1 == bits2 && bits1 == g.bits,
        "OBS c02.clone: the clone has the same buffered bits",
    );
    kani::assert(
        b1.pos == b2.pos && b1.len == b2.len && b1.zero_ext == b2.zero_ext && b2.pos == g.o.pos,
        "OBS c02.clone: the clone's backend is at the same position",
    );
    let i: usize = kani::any();
    if i < CAP {
        kani::assert(b1.words[i].to128() == b2.words[i].to128(), "OBS c02.clone: the clone sees the same data");
    }
    kani::cover!(true, "c02.clone reachable");
}

pub fn bit_pos<E: VE, W: RW, const CAP: usize>()
where
    u64: CastableInto<W>,
    DT<W>: CastableInto<u64> + Copy,
    Rd<E, W, CAP>: BitRead<E, Error = GhostErr> + BitSeek<Error = GhostErr>,
{
    let (mut r, g) = any_reader::<E, W, CAP>(1);
    let res = r.bit_pos();
    kani::assert(
        res == Ok(g.o.base * W::NBITS as u64 + g.p as u64),
        "OBS c07.bit_pos: reports the number of stream bits before the next bit",
    );
    let p2 = check_inv(&r);
    kani::assert(p2 == g.p as u128, "OBS c07.bit_pos: does not move");
    kani::cover!(g.bits > W::NBITS, "c07.bit_pos reachable");
}

pub fn set_bit_pos<E: VE, W: RW, const CAP: usize>()
where
    u64: CastableInto<W>,
    DT<W>: CastableInto<u64> + Copy,
    Rd<E, W, CAP>: BitRead<E, Error = GhostErr> + BitSeek<Error = GhostErr>,
{
    let (mut r, g) = any_reader::<E, W, CAP>(2);
    // q_rel: target relative to the start of the ghost window; the absolute target is q
    let q_rel: usize = kani::any();
    // 0 <= q <= stream length (strict); any position inside the window when zero-extended
    kani::assume(if g.o.zero_ext { q_rel <= (CAP + 2) * W::NBITS } else { q_rel <= g.o.data_bits() });
    let q: u64 = g.o.base * W::NBITS as u64 + q_rel as u64;
    let res = r.set_bit_pos(q);
    kani::assert(res.is_ok(), "OBS c07.set_bit_pos: seeking inside the stream succeeds");
    let p2 = check_inv(&r);
    kani::assert(p2 == q_rel as u128, "OBS c07.set_bit_pos: the reader is positioned at q");
    let bp = r.bit_pos();
    kani::assert(bp == Ok(q), "OBS c07.set_bit_pos: bit_pos reports q afterwards");
    kani::cover!(q_rel % W::NBITS != 0, "c07.set_bit_pos reachable (unaligned)");
    kani::cover!(!g.o.zero_ext && q_rel == g.o.data_bits() && g.o.len > 0, "c07.set_bit_pos reachable (end of strict stream)");
}

/// Confirmation obligation (DESIGN §3): one symbolically chosen operation from
/// an arbitrary Inv_R state, followed by an optional peek and a fixed-width
/// read; only *observable* results of the continuation are asserted.
pub fn confirm<E: VE, W: RW, const CAP: usize>(opfix: u8)
where
    u64: CastableInto<W>,
    DT<W>: CastableInto<u64> + Copy,
    Rd<E, W, CAP>: BitRead<E, Error = GhostErr, PeekWord = DT<W>> + BitSeek<Error = GhostErr>,
{
    let le = E::LITTLE;
    let (mut r, g) = any_reader::<E, W, CAP>(12);
    let op: u8 = if opfix == 255 { kani::any() } else { opfix };
    kani::assume(op < 6);
    let a: usize = kani::any();
    // position after the first operation, when it succeeds
    let p1: usize;
    match op {
        0 => {
            kani::assume(a <= 64);
            match r.read_bits(a) {
                Ok(_) => p1 = g.p + a,
                Err(_) => return,
            }
        }
        1 => {
            kani::assume(a >= 1 && a <= W::NBITS);
            match r.peek_bits(a) {
                Ok(_) => p1 = g.p,
                Err(_) => return,
            }
        }
        2 => {
            kani::assume(a <= g.bits);
            r.skip_bits_after_peek(a);
            p1 = g.p + a;
        }
        3 => match r.read_unary() {
            Ok(x) => p1 = g.p + x as usize + 1,
            Err(_) => return,
        },
        4 => {
            kani::assume(a <= 3 * W::NBITS);
            match r.skip_bits(a) {
                Ok(()) => p1 = g.p + a,
                Err(_) => return,
            }
        }
        _ => {
            kani::assume(if g.o.zero_ext { a <= (CAP + 2) * W::NBITS } else { a <= g.o.data_bits() });
            match r.set_bit_pos(g.o.base * W::NBITS as u64 + a as u64) {
                Ok(()) => p1 = a,
                Err(_) => return,
            }
        }
    }
    // continuation: two rounds of (optional peek, short read); a stale bit left
    // in the buffer by the first operation becomes visible when a later refill
    // ORs a new word onto it
    let mut p1 = p1;
    let mut round = 0;
    let mut peeked = false;
    while round < 2 {
        let do_peek: bool = kani::any();
        if do_peek {
            let m: usize = kani::any();
            kani::assume(m >= 1 && m <= W::NBITS);
            if let Ok(pw) = r.peek_bits(m) {
                peeked = true;
                let v = W::bb_to128(pw);
                kani::assert(v >> m == 0, "OBS confirm: peeked value < 2^m");
                let j: usize = kani::any();
                if j < m {
                    kani::assert(
                        field_bit(le, v as u64, m, j) == g.o.stream_bit(le, p1 + j),
                        "OBS confirm: a later peek returns the stream's bits",
                    );
                }
            } else {
                return;
            }
        }
        let n: usize = kani::any();
        kani::assume(n <= 2 * W::NBITS && n <= 64);
        if let Ok(v) = r.read_bits(n) {
            kani::assert(v & !low_mask(n) == 0, "OBS confirm: read value < 2^n");
            let j: usize = kani::any();
            if j < n {
                kani::assert(
                    field_bit(le, v, n, j) == g.o.stream_bit(le, p1 + j),
                    "OBS confirm: a later read returns the stream's bits",
                );
            }
            p1 += n;
            kani::assert(
                r.bit_pos() == Ok(g.o.base * W::NBITS as u64 + p1 as u64),
                "OBS confirm: position after the continuation",
            );
        } else {
            return;
        }
        round += 1;
    }
    kani::cover!(peeked, "confirm reachable");
}

macro_rules! harness {
    ($name:ident, $unwind:expr, $body:expr) => {
        #[kani::proof]
        #[kani::unwind($unwind)]
        pub fn $name() {
            $body
        }
    };
}

macro_rules! rd_for {
    ($e:ty, $w:ty, $wl:ident, $cap:expr) => {
        pub mod $wl {
            use super::super::*;
            harness!(c02_new, 18, new::<$e, $w, $cap>());
            harness!(c02_read_bits, 18, read_bits::<$e, $w, $cap>());
            harness!(c02_peek_bits, 18, peek_bits::<$e, $w, $cap>());
            harness!(c02_skip_bits_after_peek, 18, skip_bits_after_peek::<$e, $w, $cap>());
            harness!(c02_read_unary_k2, 18, read_unary::<$e, $w, $cap, 2>());
            harness!(c02_read_unary_k4, 18, read_unary::<$e, $w, $cap, 4>());
            harness!(c02_skip_bits_k2, 18, skip_bits::<$e, $w, $cap, 2>());
            harness!(c02_skip_bits_k4, 18, skip_bits::<$e, $w, $cap, 4>());
            harness!(c02_clone, 18, clone_::<$e, $w, $cap>());
            harness!(c07_bit_pos, 18, bit_pos::<$e, $w, $cap>());
            harness!(c07_set_bit_pos, 18, set_bit_pos::<$e, $w, $cap>());
            harness!(c02_confirm, 18, confirm::<$e, $w, $cap>(255));
            harness!(c02_confirm_read_bits, 18, confirm::<$e, $w, $cap>(0));
            harness!(c02_confirm_peek_bits, 18, confirm::<$e, $w, $cap>(1));
            harness!(c02_confirm_skip_bits_after_peek, 18, confirm::<$e, $w, $cap>(2));
            harness!(c02_confirm_read_unary, 18, confirm::<$e, $w, $cap>(3));
            harness!(c02_confirm_skip_bits, 18, confirm::<$e, $w, $cap>(4));
            harness!(c02_confirm_set_bit_pos, 18, confirm::<$e, $w, $cap>(5));
        }
    };
}

#[cfg(feature = "m_reader")]
pub mod be {
    use super::*;
    rd_for!(BE, u8, u8_, 12);
    rd_for!(BE, u16, u16_, 8);
    rd_for!(BE, u32, u32_, 6);
    rd_for!(BE, u64, u64_, 5);
}
#[cfg(feature = "m_reader")]
pub mod le {
    use super::*;
    rd_for!(LE, u8, u8_, 12);
    rd_for!(LE, u16, u16_, 8);
    rd_for!(LE, u32, u32_, 6);
    rd_for!(LE, u64, u64_, 5);
}
