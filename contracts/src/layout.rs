//! The canonical layout of property C01, transcribed from the *statement* of the
//! property (not from the code):
//!
//! * bit `i` of the stream lives in byte `i/8` at bit `7-(i%8)` (BE) / `i%8` (LE);
//! * a word handed to a `WordWrite` contributes its `to_ne_bytes()` in order;
//! * `field_E(v,n)` = the `n` low bits of `v`, MSB first (BE) / LSB first (LE);
//! * `unary(x)` = `x` zeros then a one.

use crate::vw::VW;
use common_traits::CastableInto;

/// Bit `j` (0-based, stream order) of `field_E(v, n)`; requires `j < n <= 64`.
#[inline(always)]
pub fn field_bit(le: bool, v: u64, n: usize, j: usize) -> bool {
    debug_assert!(j < n && n <= 64);
    if le {
        (v >> j) & 1 != 0
    } else {
        (v >> (n - 1 - j)) & 1 != 0
    }
}

/// Stream bit `i` (0 <= i < W::BITS) carried by a word delivered to / obtained
/// from a word backend.
#[inline(always)]
pub fn image_bit<W: VW>(le: bool, w: W, i: usize) -> bool
where
    u64: CastableInto<W>,
{
    debug_assert!(i < W::NBITS);
    let byte = w.ne_byte(i / 8);
    if le {
        (byte >> (i % 8)) & 1 != 0
    } else {
        (byte >> (7 - (i % 8))) & 1 != 0
    }
}

/// Bit `j` of the `p` pending bits of a `BufBitWriter` whose buffer is `buffer`
/// (view function α_W of DESIGN §2.1): the pending bits are the low `p` bits,
/// MSB first (BE) / the high `p` bits, LSB first (LE).
#[inline(always)]
pub fn wpending_bit<W: VW>(le: bool, buffer: W, p: usize, j: usize) -> bool
where
    u64: CastableInto<W>,
{
    debug_assert!(j < p && p <= W::NBITS);
    let b = buffer.to128();
    if le {
        (b >> (W::NBITS - p + j)) & 1 != 0
    } else {
        (b >> (p - 1 - j)) & 1 != 0
    }
}

/// Bit `j` of the valid window (`bits` bits) of a `BufBitReader` buffer of
/// `2*W::BITS` bits given as u128: upper bits MSB first (BE) / lower bits LSB
/// first (LE).
#[inline(always)]
pub fn rwindow_bit(le: bool, bbits: usize, buffer: u128, bits: usize, j: usize) -> bool {
    debug_assert!(j < bits && bits <= bbits);
    if le {
        (buffer >> j) & 1 != 0
    } else {
        (buffer >> (bbits - 1 - j)) & 1 != 0
    }
}

/// `true` iff every buffer bit outside the valid window is zero (Inv_R).
#[inline(always)]
pub fn rwindow_clean(le: bool, bbits: usize, buffer: u128, bits: usize) -> bool {
    debug_assert!(bits <= bbits && bbits <= 128);
    if bits == 0 {
        return buffer == 0;
    }
    if bits == bbits {
        return true;
    }
    if le {
        (buffer >> bits) == 0
    } else {
        // low bbits-bits bits must be zero
        buffer & ((1u128 << (bbits - bits)) - 1) == 0
    }
}

/// mask of the n low bits, n <= 64
#[inline(always)]
pub fn low_mask(n: usize) -> u64 {
    if n >= 64 {
        u64::MAX
    } else {
        (1u64 << n) - 1
    }
}
