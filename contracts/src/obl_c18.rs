//! C18 — the std::io VByte functions agree with the definition (hence with the
//! bit-stream codes, whose bits equal the same definition by C04) and are complete.
//!
//! Functions under contract: `vbyte_write`, `vbyte_write_be`, `vbyte_write_le`,
//! `vbyte_read`, `vbyte_read_be`, `vbyte_read_le`, `byte_len_vbyte`,
//! `bit_len_vbyte` (src/codes/vbyte.rs).

use crate::spec;
use dsi_bitstream::codes::*;
use dsi_bitstream::traits::{BE, LE};

/// value of a terminated byte string under the complete 7-bit-group code (u128, exact)
fn spec_decode(bytes: &[u8; 10], len: usize, big: bool) -> u128 {
    // offset O_len = Σ_{i=1..len-1} 128^i, digits = low 7 bits of each byte
    let mut off: u128 = 0;
    let mut pw: u128 = 1;
    let mut m: u128 = 0;
    let mut j = 0;
    while j < len {
        let g = if big { len - 1 - j } else { j };
        m |= ((bytes[j] & 0x7F) as u128) << (7 * g);
        if j > 0 {
            pw *= 128;
            off += pw;
        }
        j += 1;
    }
    m + off
}

/// encode: bytes = definition, returned count = length; decode inverts it
pub fn write_read(big: bool, generic: bool) {
    let n: u64 = kani::any();
    let mut buf = [0u8; 10];
    let written = {
        let mut sink: &mut [u8] = &mut buf[..];
        let r = match (big, generic) {
            (true, false) => vbyte_write_be(n, &mut sink),
            (false, false) => vbyte_write_le(n, &mut sink),
            (true, true) => vbyte_write::<BE, _>(n, &mut sink),
            (false, true) => vbyte_write::<LE, _>(n, &mut sink),
        };
        match r {
            Ok(l) => {
                kani::assert(10 - sink.len() == l, "OBS c18.write: returns the number of bytes written");
                l
            }
            Err(_) => {
                kani::assert(false, "OBS c18.write: writing into a 10-byte buffer never fails");
                return;
            }
        }
    };
    kani::assert(written == spec::vbyte_len(n), "OBS c18.write: the encoded length steps at 2^7, 2^7+2^14, ... (definition)");
    kani::assert(written == byte_len_vbyte(n) && 8 * written == bit_len_vbyte(n), "OBS c18.write: the length functions match the bytes written");
    let j: usize = kani::any();
    if j < written {
        kani::assert(buf[j] == spec::vbyte_byte(n, big, j), "OBS c18.write: byte j equals the complete 7-bit-group code of the named variant");
    }
    let mut src: &[u8] = &buf[..written];
    let r = match (big, generic) {
        (true, false) => vbyte_read_be(&mut src),
        (false, false) => vbyte_read_le(&mut src),
        (true, true) => vbyte_read::<BE, _>(&mut src),
        (false, true) => vbyte_read::<LE, _>(&mut src),
    };
    match r {
        Ok(v) => {
            kani::assert(v == n, "OBS c18.read: decoding inverts encoding");
            kani::assert(src.is_empty(), "OBS c18.read: decoding consumes exactly the codeword");
        }
        Err(_) => kani::assert(false, "OBS c18.read: decoding a codeword succeeds"),
    }
    kani::cover!(written == 10, "c18.write_read reachable (10 bytes)");
    kani::cover!(written == 1, "c18.write_read reachable (1 byte)");
}

/// completeness: every terminated byte string whose value fits 64 bits decodes to
/// that value, and encoding the value reproduces the string
pub fn complete(big: bool) {
    let bytes: [u8; 10] = kani::any();
    let len: usize = kani::any();
    kani::assume(len >= 1 && len <= 10);
    // terminated: continuation bits set on all but the last byte
    let i: usize = kani::any();
    let mut k = 0;
    while k < 10 {
        if k < len {
            kani::assume((bytes[k] & 0x80 != 0) == (k + 1 < len));
        }
        k += 1;
    }
    let _ = i;
    let v = spec_decode(&bytes, len, big);
    kani::assume(v <= u64::MAX as u128);
    let mut src: &[u8] = &bytes[..len];
    let r = if big { vbyte_read_be(&mut src) } else { vbyte_read_le(&mut src) };
    match r {
        Ok(x) => {
            kani::assert(x as u128 == v, "OBS c18.complete: a terminated byte string decodes to its value");
            kani::assert(src.is_empty(), "OBS c18.complete: decoding consumes the whole string");
        }
        Err(_) => kani::assert(false, "OBS c18.complete: a terminated byte string decodes"),
    }
    let mut buf = [0u8; 10];
    let written = {
        let mut sink: &mut [u8] = &mut buf[..];
        let r = if big { vbyte_write_be(v as u64, &mut sink) } else { vbyte_write_le(v as u64, &mut sink) };
        match r {
            Ok(l) => l,
            Err(_) => {
                kani::assert(false, "OBS c18.complete: re-encoding never fails");
                return;
            }
        }
    };
    kani::assert(written == len, "OBS c18.complete: re-encoding yields a string of the same length");
    let j: usize = kani::any();
    if j < len {
        kani::assert(buf[j] == bytes[j], "OBS c18.complete: re-encoding reproduces the string (exactly one codeword per value)");
    }
    kani::cover!(len == 10, "c18.complete reachable (10 bytes)");
    kani::cover!(len == 3, "c18.complete reachable (3 bytes)");
}

/// encode into a sink that accepts only part of what it is offered at each call
/// (which `std::io::Write::write` allows): the call still returns `Ok(l)` with all
/// `l` bytes of the definition in the sink, in order
pub fn short_sink(big: bool, generic: bool) {
    use crate::ghost::ShortWrite;
    let n: u64 = kani::any();
    let mut sink = ShortWrite::<10>::new();
    let r = match (big, generic) {
        (true, false) => vbyte_write_be(n, &mut sink),
        (false, false) => vbyte_write_le(n, &mut sink),
        (true, true) => vbyte_write::<BE, _>(n, &mut sink),
        (false, true) => vbyte_write::<LE, _>(n, &mut sink),
    };
    let j: usize = kani::any();
    match r {
        Ok(l) => {
            kani::assert(l == spec::vbyte_len(n), "OBS c18.short_sink: Ok carries the length of the codeword");
            kani::assert(sink.len == l, "OBS c18.short_sink: Ok means every byte of the codeword reached the sink (short writes are continued)");
            if j < l {
                kani::assert(sink.len == l && sink.sink[j] == spec::vbyte_byte(n, big, j), "OBS c18.short_sink: the sink received the bytes of the definition in order");
            }
        }
        Err(_) => kani::assert(false, "OBS c18.short_sink: a sink that makes progress at every call never causes an error"),
    }
    kani::cover!(r.is_ok() && sink.calls >= 3, "c18.short_sink reachable (Ok after short writes)");
}

macro_rules! h {
    ($name:ident, $body:expr) => {
        #[kani::proof]
        #[kani::unwind(12)]
        pub fn $name() {
            $body
        }
    };
}
h!(write_read_be, write_read(true, false));
h!(write_read_le, write_read(false, false));
h!(write_read_generic_be, write_read(true, true));
h!(write_read_generic_le, write_read(false, true));
h!(short_sink_be, short_sink(true, false));
h!(short_sink_generic_be, short_sink(true, true));
h!(complete_be, complete(true));
h!(complete_le, complete(false));
