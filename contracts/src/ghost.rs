//! Ghost backends: the environment of an implementation obligation.
//!
//! * `Rec<W, CAP>`   — a `WordWrite` that records what it is handed (append only)
//!                      and reports a ghost error when its window of `CAP` words is
//!                      full (this bounds every word loop by the observation
//!                      window instead of by the input).
//! * `Oracle<W, CAP>`— a `WordRead + WordSeek` over `CAP` fully symbolic words with a
//!                      symbolic logical length, strict or zero-extended end, and a
//!                      budget of reads after which it reports a ghost error.

use crate::vw::VW;
use common_traits::CastableInto;
use dsi_bitstream::traits::{WordRead, WordSeek, WordWrite};

#[derive(Debug, Clone, Copy, PartialEq, Eq)]
pub enum GhostErr {
    /// the observation window of the ghost backend is exhausted
    Window,
    /// strict end of data
    End,
    /// set_word_pos beyond the end of a strict backend
    Seek,
}
impl core::fmt::Display for GhostErr {
    fn fmt(&self, f: &mut core::fmt::Formatter<'_>) -> core::fmt::Result {
        f.write_str("ghost backend error")
    }
}
impl std::error::Error for GhostErr {}

#[derive(Debug, Clone)]
pub struct Rec<W: VW, const CAP: usize>
where
    u64: CastableInto<W>,
{
    pub words: [W; CAP],
    pub len: usize,
    pub flushes: usize,
}

impl<W: VW, const CAP: usize> Rec<W, CAP>
where
    u64: CastableInto<W>,
{
    pub fn new() -> Self {
        Self {
            words: [W::from128(0); CAP],
            len: 0,
            flushes: 0,
        }
    }
}

impl<W: VW, const CAP: usize> WordWrite for Rec<W, CAP>
where
    u64: CastableInto<W>,
{
    type Error = GhostErr;
    type Word = W;
    fn write_word(&mut self, word: W) -> Result<(), GhostErr> {
        if self.len >= CAP {
            return Err(GhostErr::Window);
        }
        self.words[self.len] = word;
        self.len += 1;
        Ok(())
    }
    fn flush(&mut self) -> Result<(), GhostErr> {
        self.flushes += 1;
        Ok(())
    }
}

#[derive(Debug, Clone)]
pub struct Oracle<W: VW, const CAP: usize>
where
    u64: CastableInto<W>,
{
    /// the data words (all symbolic under Kani)
    pub words: [W; CAP],
    /// logical length of the data, `len <= CAP`
    pub len: usize,
    /// cursor (may exceed `len` on a zero-extended backend)
    pub pos: usize,
    /// zero-extended (`true`) or strict (`false`) end
    pub zero_ext: bool,
    /// number of `read_word` calls still allowed before `GhostErr::Window`
    pub budget: usize,
    /// number of successful `read_word` calls
    pub reads: usize,
}

impl<W: VW, const CAP: usize> Oracle<W, CAP>
where
    u64: CastableInto<W>,
{
    /// The word at index `i` of the (possibly zero-extended) data.
    #[inline(always)]
    pub fn word_at(&self, i: usize) -> W {
        if i < self.len {
            self.words[i]
        } else {
            W::from128(0)
        }
    }
}

impl<W: VW, const CAP: usize> WordRead for Oracle<W, CAP>
where
    u64: CastableInto<W>,
{
    type Error = GhostErr;
    type Word = W;
    fn read_word(&mut self) -> Result<W, GhostErr> {
        if self.budget == 0 {
            return Err(GhostErr::Window);
        }
        if self.pos >= self.len && !self.zero_ext {
            return Err(GhostErr::End);
        }
        let w = self.word_at(self.pos);
        self.pos += 1;
        self.budget -= 1;
        self.reads += 1;
        Ok(w)
    }
}

impl<W: VW, const CAP: usize> WordSeek for Oracle<W, CAP>
where
    u64: CastableInto<W>,
{
    type Error = GhostErr;
    fn word_pos(&mut self) -> Result<u64, GhostErr> {
        Ok(self.pos as u64)
    }
    fn set_word_pos(&mut self, word_pos: u64) -> Result<(), GhostErr> {
        if !self.zero_ext && word_pos > self.len as u64 {
            return Err(GhostErr::Seek);
        }
        self.pos = word_pos as usize;
        Ok(())
    }
}
