//! Ghost backends: the environment of an implementation obligation.
//!
//! * `Rec<W, CAP>`   — a `WordWrite` that records what it is handed (append only)
//!                      and reports a ghost error when its window of `CAP` words is
//!                      full (this bounds every word loop by the observation
//!                      window instead of by the input).
//! * `Oracle<W, CAP>`— a `WordRead + WordSeek` over `CAP` fully symbolic words with a
//!                      symbolic logical length, strict or zero-extended end, and a
//!                      budget of reads after which it reports a ghost error.

use crate::vw::VW;
use common_traits::CastableInto;
use dsi_bitstream::traits::{WordRead, WordSeek, WordWrite};

#[derive(Debug, Clone, Copy, PartialEq, Eq)]
pub enum GhostErr {
    /// the observation window of the ghost backend is exhausted
    Window,
    /// strict end of data
    End,
    /// set_word_pos beyond the end of a strict backend
    Seek,
}
impl core::fmt::Display for GhostErr {
    fn fmt(&self, f: &mut core::fmt::Formatter<'_>) -> core::fmt::Result {
        f.write_str("ghost backend error")
    }
}
impl std::error::Error for GhostErr {}

#[derive(Debug, Clone)]
pub struct Rec<W: VW, const CAP: usize>
where
    u64: CastableInto<W>,
{
    pub words: [W; CAP],
    pub len: usize,
    pub flushes: usize,
}

impl<W: VW, const CAP: usize> Rec<W, CAP>
where
    u64: CastableInto<W>,
{
    pub fn new() -> Self {
        Self {
            words: [W::from128(0); CAP],
            len: 0,
            flushes: 0,
        }
    }
}

impl<W: VW, const CAP: usize> WordWrite for Rec<W, CAP>
where
    u64: CastableInto<W>,
{
    type Error = GhostErr;
    type Word = W;
    fn write_word(&mut self, word: W) -> Result<(), GhostErr> {
        if self.len >= CAP {
            return Err(GhostErr::Window);
        }
        self.words[self.len] = word;
        self.len += 1;
        Ok(())
    }
    fn flush(&mut self) -> Result<(), GhostErr> {
        self.flushes += 1;
        Ok(())
    }
}

#[derive(Debug, Clone)]
pub struct Oracle<W: VW, const CAP: usize>
where
    u64: CastableInto<W>,
{
    /// the data words (all symbolic under Kani)
    pub words: [W; CAP],
    /// logical length of the data, `len <= CAP`
    pub len: usize,
    /// cursor (may exceed `len` on a zero-extended backend)
    pub pos: usize,
    /// zero-extended (`true`) or strict (`false`) end
    pub zero_ext: bool,
    /// number of `read_word` calls still allowed before `GhostErr::Window`
    pub budget: usize,
    /// number of successful `read_word` calls
    pub reads: usize,
    /// index (in words) of `words[0]` in the underlying stream: the ghost data is
    /// a window of a longer stream, so that positions are symbolic without a
    /// symbolic array offset
    pub base: u64,
}

impl<W: VW, const CAP: usize> Oracle<W, CAP>
where
    u64: CastableInto<W>,
{
    /// A fully symbolic backend: symbolic words, logical length, cursor and
    /// kind of end; `budget` reads allowed.
    #[cfg(kani)]
    pub fn any(budget: usize) -> Self {
        let len: usize = kani::any();
        let pos: usize = kani::any();
        kani::assume(len <= CAP);
        let zero_ext: bool = kani::any();
        // a strict backend never has its cursor beyond the end
        kani::assume(if zero_ext { pos <= CAP + 2 } else { pos <= len });
        Self { words: W::any_array::<CAP>(), len, pos, zero_ext, budget, reads: 0, base: 0 }
    }

    /// As `any`, but the cursor is within the first `max_pos` words of the
    /// window and the window starts at a symbolic word offset `base`.
    #[cfg(kani)]
    pub fn any_near(budget: usize, max_pos: usize) -> Self {
        let mut o = Self::any(budget);
        kani::assume(o.pos <= max_pos);
        let base: u64 = kani::any();
        kani::assume(base <= 1 << 40);
        o.base = base;
        o
    }

    /// Stream bit `i` of the data in canonical layout (zero beyond the end).
    #[inline(always)]
    pub fn stream_bit(&self, le: bool, i: usize) -> bool {
        crate::layout::image_bit(le, self.word_at(i / W::NBITS), i % W::NBITS)
    }

    /// Number of data bits (strict end), meaningless when zero-extended.
    #[inline(always)]
    pub fn data_bits(&self) -> usize {
        self.len * W::NBITS
    }

    /// The word at index `i` of the (possibly zero-extended) data.
    #[inline(always)]
    pub fn word_at(&self, i: usize) -> W {
        if i < self.len {
            self.words[i]
        } else {
            W::from128(0)
        }
    }
}

impl<W: VW, const CAP: usize> WordRead for Oracle<W, CAP>
where
    u64: CastableInto<W>,
{
    type Error = GhostErr;
    type Word = W;
    fn read_word(&mut self) -> Result<W, GhostErr> {
        if self.budget == 0 {
            return Err(GhostErr::Window);
        }
        if self.pos >= self.len && !self.zero_ext {
            return Err(GhostErr::End);
        }
        let w = self.word_at(self.pos);
        self.pos += 1;
        self.budget -= 1;
        self.reads += 1;
        Ok(w)
    }
}

impl<W: VW, const CAP: usize> WordSeek for Oracle<W, CAP>
where
    u64: CastableInto<W>,
{
    type Error = GhostErr;
    fn word_pos(&mut self) -> Result<u64, GhostErr> {
        Ok(self.base + self.pos as u64)
    }
    fn set_word_pos(&mut self, word_pos: u64) -> Result<(), GhostErr> {
        if word_pos < self.base || (!self.zero_ext && word_pos - self.base > self.len as u64) {
            return Err(GhostErr::Seek);
        }
        self.pos = (word_pos - self.base) as usize;
        Ok(())
    }
}

// ---------------------------------------------------------------------------
// Faulty std::io objects (C11): every call may transfer fewer bytes than
// asked, report `Interrupted`, or fail — everything the std::io contracts allow.
// ---------------------------------------------------------------------------

/// A byte sink whose every `write` call returns a symbolic `Ok(k <= len)`,
/// `Interrupted`, or a hard error. After `budget` calls it fails hard (this
/// bounds retry loops by the observation window, not by the input).
#[cfg(kani)]
pub struct FaultyWrite<const CAP: usize> {
    pub sink: [u8; CAP],
    pub len: usize,
    pub calls: usize,
    pub budget: usize,
    pub flushes: usize,
    /// set when a call returned Ok(0) for a non-empty buffer
    pub wrote_zero: bool,
    /// number of calls that reported `Interrupted`
    pub interrupts: usize,
    /// when set, `flush` may fail (Interrupted or a hard error), like any std::io::Write
    pub faulty_flush: bool,
    pub flush_errors: usize,
    pub flushed_ok: usize,
}

#[cfg(kani)]
impl<const CAP: usize> FaultyWrite<CAP> {
    pub fn new(budget: usize) -> Self {
        Self { sink: [0; CAP], len: 0, calls: 0, budget, flushes: 0, wrote_zero: false, interrupts: 0, faulty_flush: false, flush_errors: 0, flushed_ok: 0 }
    }
}

#[cfg(kani)]
impl<const CAP: usize> std::io::Write for FaultyWrite<CAP> {
    fn write(&mut self, buf: &[u8]) -> std::io::Result<usize> {
        if self.calls >= self.budget {
            return Err(std::io::Error::from(std::io::ErrorKind::BrokenPipe));
        }
        self.calls += 1;
        let choice: u8 = kani::any();
        if choice == 0 {
            self.interrupts += 1;
            return Err(std::io::Error::from(std::io::ErrorKind::Interrupted));
        }
        if choice == 1 {
            return Err(std::io::Error::from(std::io::ErrorKind::BrokenPipe));
        }
        let k: usize = kani::any();
        kani::assume(k <= buf.len() && self.len + k <= CAP);
        self.sink[self.len..self.len + k].copy_from_slice(&buf[..k]);
        self.len += k;
        if k == 0 && !buf.is_empty() {
            self.wrote_zero = true;
        }
        Ok(k)
    }
    fn flush(&mut self) -> std::io::Result<()> {
        self.flushes += 1;
        if self.faulty_flush {
            let choice: u8 = kani::any();
            if choice == 0 {
                self.flush_errors += 1;
                return Err(std::io::Error::from(std::io::ErrorKind::Interrupted));
            }
            if choice == 1 {
                self.flush_errors += 1;
                return Err(std::io::Error::from(std::io::ErrorKind::BrokenPipe));
            }
        }
        self.flushed_ok += 1;
        Ok(())
    }
}

/// A byte sink that never fails but accepts only part of what it is offered:
/// every `write` call takes a symbolic `1 <= k <= len` bytes (pipe / socket style).
#[cfg(kani)]
pub struct ShortWrite<const CAP: usize> {
    pub sink: [u8; CAP],
    pub len: usize,
    pub calls: usize,
}

#[cfg(kani)]
impl<const CAP: usize> ShortWrite<CAP> {
    pub fn new() -> Self {
        Self { sink: [0; CAP], len: 0, calls: 0 }
    }
}

#[cfg(kani)]
impl<const CAP: usize> std::io::Write for ShortWrite<CAP> {
    fn write(&mut self, buf: &[u8]) -> std::io::Result<usize> {
        self.calls += 1;
        if buf.is_empty() {
            return Ok(0);
        }
        let k: usize = kani::any();
        kani::assume(k >= 1 && k <= buf.len() && self.len + k <= CAP);
        self.sink[self.len..self.len + k].copy_from_slice(&buf[..k]);
        self.len += k;
        Ok(k)
    }
    fn flush(&mut self) -> std::io::Result<()> {
        Ok(())
    }
}

/// A byte source with the same fault model. `Ok(0)` is returned only at the end
/// of the data (the `std::io::Read` contract).
#[cfg(kani)]
pub struct FaultyRead<const CAP: usize> {
    pub src: [u8; CAP],
    pub len: usize,
    pub pos: usize,
    pub calls: usize,
    pub budget: usize,
    pub hard_error: bool,
}

#[cfg(kani)]
impl<const CAP: usize> FaultyRead<CAP> {
    pub fn any(budget: usize) -> Self {
        let len: usize = kani::any();
        kani::assume(len <= CAP);
        Self { src: kani::any(), len, pos: 0, calls: 0, budget, hard_error: false }
    }
}

#[cfg(kani)]
impl<const CAP: usize> std::io::Read for FaultyRead<CAP> {
    fn read(&mut self, buf: &mut [u8]) -> std::io::Result<usize> {
        if self.calls >= self.budget {
            self.hard_error = true;
            return Err(std::io::Error::from(std::io::ErrorKind::BrokenPipe));
        }
        self.calls += 1;
        let choice: u8 = kani::any();
        if choice == 0 {
            return Err(std::io::Error::from(std::io::ErrorKind::Interrupted));
        }
        if choice == 1 {
            self.hard_error = true;
            return Err(std::io::Error::from(std::io::ErrorKind::BrokenPipe));
        }
        let avail = self.len - self.pos;
        let k: usize = kani::any();
        kani::assume(k <= buf.len() && k <= avail);
        // Ok(0) only at end of data or for an empty buffer
        kani::assume(k > 0 || avail == 0 || buf.is_empty());
        buf[..k].copy_from_slice(&self.src[self.pos..self.pos + k]);
        self.pos += k;
        Ok(k)
    }
}
