//! `BitsStream<E>` — the trait contracts of DESIGN §2.1 made executable: an
//! abstract bit stream of up to 256 bits with a write end and a read cursor.
//!
//! Generic client code of the library (`codes/*`, `dispatch/*`, wrappers,
//! default copy loops) is verified against this model only; the real readers
//! and writers are verified against the same contracts in Engine A.
//!
//! Internal representation: stream bit `i` is bit `i % 128` of `w[i / 128]`
//! (independent of the endianness; the endianness only decides how a field
//! value maps to stream bits, exactly as in `layout::field_bit`).
//!
//! The model *checks the preconditions* the trait contracts impose on a client:
//! `n <= 64` for fixed-width operations, `1 <= n <= peek_width` for peeks,
//! `n <=` last peeked width for `skip_bits_after_peek`, clean arguments under
//! feature `checks`, unary value `!= u64::MAX`.

use crate::vw::VE;
use core::marker::PhantomData;
use dsi_bitstream::codes::*;
use dsi_bitstream::traits::{BitRead, BitSeek, BitWrite, Endianness};

pub const CAPACITY: usize = 256;

#[derive(Debug, Clone, Copy, PartialEq, Eq)]
pub enum ModelErr {
    /// strict end of stream
    End,
    /// the model's capacity / observation window is exhausted (never a library error)
    Window,
}
impl core::fmt::Display for ModelErr {
    fn fmt(&self, f: &mut core::fmt::Formatter<'_>) -> core::fmt::Result {
        f.write_str("model stream error")
    }
}
impl std::error::Error for ModelErr {}

#[derive(Debug, Clone, Copy, PartialEq, Eq)]
pub struct Bits {
    pub w: [u128; 2],
    pub len: usize,
}

#[inline(always)]
fn mask128(n: usize) -> u128 {
    if n >= 128 {
        u128::MAX
    } else {
        (1u128 << n) - 1
    }
}

impl Bits {
    pub const fn new() -> Self {
        Bits { w: [0, 0], len: 0 }
    }
    /// the 128 stream bits starting at `p` (zero beyond the capacity), bit 0 = stream bit p
    #[inline(always)]
    pub fn window(&self, p: usize) -> u128 {
        if p >= 256 {
            0
        } else if p >= 128 {
            self.w[1] >> (p - 128)
        } else if p == 0 {
            self.w[0]
        } else {
            (self.w[0] >> p) | (self.w[1] << (128 - p))
        }
    }
    #[inline(always)]
    pub fn bit(&self, i: usize) -> bool {
        self.window(i) & 1 != 0
    }
    /// append the `n <= 128` low bits of `x` (bit 0 first)
    #[inline(always)]
    pub fn push(&mut self, x: u128, n: usize) -> bool {
        if self.len + n > CAPACITY {
            return false;
        }
        let x = x & mask128(n);
        let p = self.len;
        if n > 0 {
            if p >= 128 {
                self.w[1] |= x << (p - 128);
            } else {
                self.w[0] |= x << p;
                if p > 0 && p + n > 128 {
                    self.w[1] |= x >> (128 - p);
                }
            }
        }
        self.len += n;
        true
    }
    /// same bit string (field-wise: avoids memcmp on the array)
    #[inline(always)]
    pub fn same(&self, o: &Bits) -> bool {
        self.len == o.len && self.w[0] == o.w[0] && self.w[1] == o.w[1]
    }
    /// all bits at positions >= len are zero (representation invariant)
    pub fn clean(&self) -> bool {
        if self.len >= 256 {
            true
        } else if self.len >= 128 {
            self.w[1] >> (self.len - 128) == 0
        } else {
            self.w[1] == 0 && self.w[0] >> self.len == 0
        }
    }
    /// Symbolic content of symbolic length `<= max_len`.
    #[cfg(kani)]
    pub fn any(max_len: usize) -> Self {
        let len: usize = kani::any();
        kani::assume(len <= max_len && len <= CAPACITY);
        let b = Bits { w: [kani::any(), kani::any()], len };
        kani::assume(b.clean());
        b
    }
}

/// `n <= 64` stream bits as a field value: first stream bit is the MSB (BE) / LSB (LE).
#[inline(always)]
pub fn bits_to_field(le: bool, window: u128, n: usize) -> u64 {
    debug_assert!(n <= 64);
    if n == 0 {
        return 0;
    }
    let x = (window as u64) & crate::layout::low_mask(n);
    if le {
        x
    } else {
        x.reverse_bits() >> (64 - n)
    }
}

/// the inverse: the `n` low bits of `v` as stream bits (bit 0 = first stream bit)
#[inline(always)]
pub fn field_to_bits(le: bool, v: u64, n: usize) -> u128 {
    debug_assert!(n <= 64);
    if n == 0 {
        return 0;
    }
    let x = v & crate::layout::low_mask(n);
    if le {
        x as u128
    } else {
        (x.reverse_bits() >> (64 - n)) as u128
    }
}

#[derive(Debug, Clone)]
pub struct BitsStream<E: Endianness> {
    pub bits: Bits,
    /// read cursor
    pub pos: usize,
    /// strict (`true`) or zero-extended end
    pub strict: bool,
    /// the number of bits `peek_bits` guarantees (contract parameter)
    pub peek_width: usize,
    /// width of the last successful peek (for the skip_bits_after_peek precondition)
    pub last_peek: usize,
    /// number of calls of each primitive (used by wrappers' obligations)
    pub n_calls: usize,
    pub flushes: usize,
    /// what `flush` reports: the number of bits that were pending in the writer's
    /// buffer (bits already written and already part of the stream, cf. the
    /// contract of `BitWrite::flush`); any value is allowed by the contract
    pub flush_ret: usize,
    _m: PhantomData<E>,
}

impl<E: VE> BitsStream<E> {
    pub fn new(bits: Bits, strict: bool, peek_width: usize) -> Self {
        BitsStream { bits, pos: 0, strict, peek_width, last_peek: 0, n_calls: 0, flushes: 0, flush_ret: 0, _m: PhantomData }
    }
    pub fn empty() -> Self {
        Self::new(Bits::new(), true, 32)
    }
}

impl<E: VE> BitRead<E> for BitsStream<E> {
    type Error = ModelErr;
    type PeekWord = u64;

    fn read_bits(&mut self, n: usize) -> Result<u64, ModelErr> {
        #[cfg(kani)]
        kani::assert(n <= 64, "OBS contract: read_bits called with n <= 64");
        self.n_calls += 1;
        if self.pos + n > self.bits.len {
            if self.strict {
                return Err(ModelErr::End);
            }
            if self.pos + n > CAPACITY + 64 {
                return Err(ModelErr::Window);
            }
        }
        let v = bits_to_field(E::LITTLE, self.bits.window(self.pos), n);
        self.pos += n;
        self.last_peek = 0;
        Ok(v)
    }

    fn peek_bits(&mut self, n: usize) -> Result<u64, ModelErr> {
        #[cfg(kani)]
        kani::assert(n >= 1 && n <= self.peek_width, "OBS contract: peek_bits called with 1 <= n <= peek width of the reader");
        self.n_calls += 1;
        if self.pos + n > self.bits.len && self.strict {
            return Err(ModelErr::End);
        }
        self.last_peek = n;
        Ok(bits_to_field(E::LITTLE, self.bits.window(self.pos), n))
    }

    fn skip_bits(&mut self, n: usize) -> Result<(), ModelErr> {
        self.n_calls += 1;
        if n > CAPACITY + 64 || self.pos + n > CAPACITY + 64 {
            return Err(ModelErr::Window);
        }
        if self.pos + n > self.bits.len && self.strict {
            return Err(ModelErr::End);
        }
        self.pos += n;
        self.last_peek = 0;
        Ok(())
    }

    fn skip_bits_after_peek(&mut self, n: usize) {
        #[cfg(kani)]
        kani::assert(n <= self.last_peek, "OBS contract: skip_bits_after_peek(n) with n <= bits returned by the preceding peek");
        self.n_calls += 1;
        self.pos += n;
        self.last_peek -= if n <= self.last_peek { n } else { self.last_peek };
    }

    fn read_unary(&mut self) -> Result<u64, ModelErr> {
        self.n_calls += 1;
        let w0 = self.bits.window(self.pos);
        let z = if w0 != 0 {
            w0.trailing_zeros() as usize
        } else {
            let w1 = self.bits.window(self.pos + 128);
            if w1 != 0 {
                128 + w1.trailing_zeros() as usize
            } else {
                usize::MAX
            }
        };
        if z == usize::MAX || self.pos + z >= self.bits.len {
            // no terminating one inside the data
            return Err(if self.strict { ModelErr::End } else { ModelErr::Window });
        }
        self.pos += z + 1;
        self.last_peek = 0;
        Ok(z as u64)
    }
}

impl<E: VE> BitWrite<E> for BitsStream<E> {
    type Error = ModelErr;

    fn write_bits(&mut self, value: u64, n: usize) -> Result<usize, ModelErr> {
        #[cfg(kani)]
        kani::assert(n <= 64, "OBS contract: write_bits called with n <= 64");
        #[cfg(all(kani, feature = "checks"))]
        kani::assert(
            value & !crate::layout::low_mask(n) == 0,
            "OBS contract(checks): write_bits called with a value that fits in n bits",
        );
        self.n_calls += 1;
        if !self.bits.push(field_to_bits(E::LITTLE, value, n), n) {
            return Err(ModelErr::Window);
        }
        Ok(n)
    }

    fn write_unary(&mut self, value: u64) -> Result<usize, ModelErr> {
        #[cfg(kani)]
        kani::assert(value != u64::MAX, "OBS contract: write_unary called with value < 2^64-1");
        self.n_calls += 1;
        if value >= CAPACITY as u64 || self.bits.len + value as usize + 1 > CAPACITY {
            return Err(ModelErr::Window);
        }
        let x = value as usize;
        // x zeros then a one
        if x >= 128 {
            let ok = self.bits.push(0, 128) && self.bits.push(1u128 << (x - 128), x - 128 + 1);
            debug_assert!(ok);
        } else {
            let ok = self.bits.push(1u128 << x, x + 1);
            debug_assert!(ok);
        }
        Ok(x + 1)
    }

    fn flush(&mut self) -> Result<usize, ModelErr> {
        self.flushes += 1;
        Ok(self.flush_ret)
    }
}

impl<E: VE> BitSeek for BitsStream<E> {
    type Error = ModelErr;
    fn bit_pos(&mut self) -> Result<u64, ModelErr> {
        Ok(self.pos as u64)
    }
    fn set_bit_pos(&mut self, bit_pos: u64) -> Result<(), ModelErr> {
        if bit_pos as usize > self.bits.len && self.strict {
            return Err(ModelErr::End);
        }
        self.pos = bit_pos as usize;
        self.last_peek = 0;
        Ok(())
    }
}

// The parameterless code traits have no blanket implementation in the library
// (they are implemented per reader/writer type in codes/params.rs). The model
// chooses the non-table variants; `ModelT` below chooses the table variants.
// Dispatch obligations (C10) compare a dispatcher with a direct call on the
// *same* model, so the choice does not matter there.
macro_rules! impl_paramless {
    ($($e:ty),*) => {$(
        impl GammaRead<$e> for BitsStream<$e> {
            fn read_gamma(&mut self) -> Result<u64, ModelErr> {
                self.read_gamma_param::<false>()
            }
        }
        impl DeltaRead<$e> for BitsStream<$e> {
            fn read_delta(&mut self) -> Result<u64, ModelErr> {
                self.read_delta_param::<false, false>()
            }
        }
        impl ZetaRead<$e> for BitsStream<$e> {
            fn read_zeta(&mut self, k: usize) -> Result<u64, ModelErr> {
                self.read_zeta_param(k)
            }
            fn read_zeta3(&mut self) -> Result<u64, ModelErr> {
                self.read_zeta3_param::<false>()
            }
        }
        impl GammaWrite<$e> for BitsStream<$e> {
            fn write_gamma(&mut self, n: u64) -> Result<usize, ModelErr> {
                self.write_gamma_param::<false>(n)
            }
        }
        impl DeltaWrite<$e> for BitsStream<$e> {
            fn write_delta(&mut self, n: u64) -> Result<usize, ModelErr> {
                self.write_delta_param::<false, false>(n)
            }
        }
        impl ZetaWrite<$e> for BitsStream<$e> {
            fn write_zeta(&mut self, n: u64, k: usize) -> Result<usize, ModelErr> {
                self.write_zeta_param::<false>(n, k)
            }
            fn write_zeta3(&mut self, n: u64) -> Result<usize, ModelErr> {
                self.write_zeta3_param::<false>(n)
            }
        }
    )*};
}
impl_paramless!(dsi_bitstream::traits::BE, dsi_bitstream::traits::LE);
