//! Stubs for std functions that are irrelevant to the obligations but
//! dominate CBMC's cost (string formatting on error paths). Every use is an
//! assumption listed in the evidence: the *content* of error messages is not
//! covered, only which result (Ok / Err) is returned.

/// Replacement for `alloc::fmt::format` (used by `format!`, `Arguments::to_string`).
pub fn format_stub(_args: core::fmt::Arguments<'_>) -> String {
    String::new()
}

/// Replacement for `dsi_bitstream::traits::check_tables`: records the peek width
/// announced by a reader's constructor instead of printing diagnostics.
pub static mut ANNOUNCED_PEEK_BITS: usize = usize::MAX;
pub fn check_tables_stub(peek_bits: usize) {
    unsafe {
        ANNOUNCED_PEEK_BITS = peek_bits;
    }
}
