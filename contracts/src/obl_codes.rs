//! C03 / C04 / C05 / C06 / C09(tail) — client obligations on the generic code
//! functions of `codes/*.rs`, instantiated on the abstract model `BitsStream`
//! (the executable trait contract) and compared with the independent `spec`.
//!
//! Functions under contract: every `read_*` / `write_*` / `len_*` of
//! `codes/{gamma,delta,omega,zeta,pi,golomb,rice,exp_golomb,minimal_binary,vbyte}.rs`
//! and the table helpers of `codes/{gamma,delta,zeta}_tables.rs`.

use crate::model::{Bits, BitsStream, ModelErr};
use crate::spec;
use crate::vw::VE;
use dsi_bitstream::codes::*;
use dsi_bitstream::traits::{BitRead, BitWrite, BE, LE};

/// which code / variant a generic obligation is about
#[derive(Clone, Copy, PartialEq, Eq)]
pub enum Code {
    Unary,
    Gamma(bool),
    Delta(bool, bool),
    Omega,
    Zeta(bool),
    Zeta3(bool),
    Pi,
    Rice,
    ExpGolomb,
    Golomb(u64),
    MinBin(u64),
    VByteBe,
    VByteLe,
}

pub trait M<E: VE>: BitRead<E, Error = ModelErr> + BitWrite<E, Error = ModelErr> {}

macro_rules! codes_for {
    ($e:ty, $m:ident) => {
        pub mod $m {
            use super::*;
            pub type S = BitsStream<$e>;
            pub const LITTLE: bool = <$e as VE>::LITTLE;

            /// the real writer of the library for `code`
            #[inline(always)]
            pub fn write(s: &mut S, code: Code, n: u64, k: usize) -> Result<usize, ModelErr> {
                match code {
                    Code::Unary => s.write_unary(n),
                    Code::Gamma(false) => s.write_gamma_param::<false>(n),
                    Code::Gamma(true) => s.write_gamma_param::<true>(n),
                    Code::Delta(false, false) => s.write_delta_param::<false, false>(n),
                    Code::Delta(false, true) => s.write_delta_param::<false, true>(n),
                    Code::Delta(true, false) => s.write_delta_param::<true, false>(n),
                    Code::Delta(true, true) => s.write_delta_param::<true, true>(n),
                    Code::Omega => s.write_omega(n),
                    Code::Zeta(false) => s.write_zeta_param::<false>(n, k),
                    Code::Zeta(true) => s.write_zeta_param::<true>(n, k),
                    Code::Zeta3(false) => s.write_zeta3_param::<false>(n),
                    Code::Zeta3(true) => s.write_zeta3_param::<true>(n),
                    Code::Pi => s.write_pi(n, k),
                    Code::Rice => s.write_rice(n, k),
                    Code::ExpGolomb => s.write_exp_golomb(n, k),
                    Code::Golomb(b) => s.write_golomb(n, b),
                    Code::MinBin(u) => s.write_minimal_binary(n, u),
                    Code::VByteBe => s.write_vbyte_be(n),
                    Code::VByteLe => s.write_vbyte_le(n),
                }
            }

            /// the real reader of the library for `code`
            #[inline(always)]
            pub fn read(s: &mut S, code: Code, k: usize) -> Result<u64, ModelErr> {
                match code {
                    Code::Unary => s.read_unary(),
                    Code::Gamma(false) => s.read_gamma_param::<false>(),
                    Code::Gamma(true) => s.read_gamma_param::<true>(),
                    Code::Delta(false, false) => s.read_delta_param::<false, false>(),
                    Code::Delta(false, true) => s.read_delta_param::<false, true>(),
                    Code::Delta(true, false) => s.read_delta_param::<true, false>(),
                    Code::Delta(true, true) => s.read_delta_param::<true, true>(),
                    Code::Omega => s.read_omega(),
                    Code::Zeta(_) => s.read_zeta_param(k),
                    Code::Zeta3(false) => s.read_zeta3_param::<false>(),
                    Code::Zeta3(true) => s.read_zeta3_param::<true>(),
                    Code::Pi => s.read_pi(k),
                    Code::Rice => s.read_rice(k),
                    Code::ExpGolomb => s.read_exp_golomb(k),
                    Code::Golomb(b) => s.read_golomb(b),
                    Code::MinBin(u) => s.read_minimal_binary(u),
                    Code::VByteBe => s.read_vbyte_be(),
                    Code::VByteLe => s.read_vbyte_le(),
                }
            }

            /// the specification's codeword
            #[inline(always)]
            pub fn spec_push(b: &mut Bits, code: Code, n: u64, k: usize) -> bool {
                match code {
                    Code::Unary => spec::push_unary(b, n),
                    Code::Gamma(_) => spec::push_gamma(b, LITTLE, n),
                    Code::Delta(_, _) => spec::push_delta(b, LITTLE, n),
                    Code::Omega => spec::push_omega(b, LITTLE, n),
                    Code::Zeta(_) => spec::push_zeta(b, LITTLE, n, k),
                    Code::Zeta3(_) => spec::push_zeta(b, LITTLE, n, 3),
                    Code::Pi => spec::push_pi(b, LITTLE, n, k),
                    Code::Rice => spec::push_rice(b, LITTLE, n, k),
                    Code::ExpGolomb => spec::push_exp_golomb(b, LITTLE, n, k),
                    Code::Golomb(m) => spec::push_golomb(b, LITTLE, n, m),
                    Code::MinBin(u) => spec::push_minimal_binary(b, LITTLE, n, u),
                    Code::VByteBe => spec::push_vbyte(b, LITTLE, n, true),
                    Code::VByteLe => spec::push_vbyte(b, LITTLE, n, false),
                }
            }

            /// the library's length function(s) for `code`: all variants must agree
            #[inline(always)]
            pub fn lib_len(code: Code, n: u64, k: usize) -> usize {
                match code {
                    Code::Unary => n as usize + 1,
                    Code::Gamma(false) => len_gamma_param::<false>(n),
                    Code::Gamma(true) => {
                        let a = len_gamma_param::<true>(n);
                        kani::assert(a == len_gamma(n), "OBS c06: len_gamma = len_gamma_param::<true>");
                        a
                    }
                    Code::Delta(false, false) => len_delta_param::<false, false>(n),
                    Code::Delta(false, true) => {
                        let a = len_delta_param::<false, true>(n);
                        kani::assert(a == len_delta(n), "OBS c06: len_delta = len_delta_param::<false,true>");
                        a
                    }
                    Code::Delta(true, false) => len_delta_param::<true, false>(n),
                    Code::Delta(true, true) => len_delta_param::<true, true>(n),
                    Code::Omega => len_omega(n),
                    Code::Zeta(false) => len_zeta_param::<false>(n, k),
                    Code::Zeta(true) => {
                        let a = len_zeta_param::<true>(n, k);
                        kani::assert(a == len_zeta(n, k), "OBS c06: len_zeta = len_zeta_param::<true>");
                        a
                    }
                    Code::Zeta3(false) => len_zeta_param::<false>(n, 3),
                    Code::Zeta3(true) => len_zeta_param::<true>(n, 3),
                    Code::Pi => len_pi(n, k),
                    Code::Rice => len_rice(n, k),
                    Code::ExpGolomb => len_exp_golomb(n, k),
                    Code::Golomb(b) => len_golomb(n, b),
                    Code::MinBin(u) => len_minimal_binary(n, u),
                    Code::VByteBe | Code::VByteLe => {
                        let a = bit_len_vbyte(n);
                        kani::assert(a == 8 * byte_len_vbyte(n), "OBS c06: bit_len_vbyte = 8 * byte_len_vbyte");
                        a
                    }
                }
            }

            #[inline(always)]
            pub fn spec_len(code: Code, n: u64, k: usize) -> u128 {
                match code {
                    Code::Unary => spec::len_unary(n),
                    Code::Gamma(_) => spec::len_gamma(n),
                    Code::Delta(_, _) => spec::len_delta(n),
                    Code::Omega => spec::len_omega(n),
                    Code::Zeta(_) => spec::len_zeta(n, k),
                    Code::Zeta3(_) => spec::len_zeta(n, 3),
                    Code::Pi => spec::len_pi(n, k),
                    Code::Rice => spec::len_rice(n, k),
                    Code::ExpGolomb => spec::len_exp_golomb(n, k),
                    Code::Golomb(b) => spec::len_golomb(n, b),
                    Code::MinBin(u) => spec::len_minimal_binary(n, u) as u128,
                    Code::VByteBe | Code::VByteLe => spec::len_vbyte(n),
                }
            }

            /// the domain of `code`: value and parameter
            #[inline(always)]
            pub fn any_args(code: Code) -> (u64, usize) {
                let n: u64 = kani::any();
                let k: usize = kani::any();
                match code {
                    Code::VByteBe | Code::VByteLe => {
                        kani::assume(k == 0);
                    }
                    Code::Zeta(_) => {
                        kani::assume(n < u64::MAX && k >= 1 && k <= 63);
                    }
                    Code::Pi | Code::Rice | Code::ExpGolomb => {
                        kani::assume(n < u64::MAX && k <= 63);
                    }
                    Code::MinBin(u) => {
                        kani::assume(n < u && k == 0);
                    }
                    _ => {
                        kani::assume(n < u64::MAX && k == 0);
                    }
                }
                (n, k)
            }

            /// C04 + C06 (+ C05 for the table variants): the bits written equal
            /// the published definition, the value returned equals the number of
            /// bits appended and the library's length function.
            pub fn def(code: Code) {
                let (n, k) = any_args(code);
                let mut s = S::empty();
                let r = write(&mut s, code, n, k);
                let mut b = Bits::new();
                let fits = spec_push(&mut b, code, n, k);
                match r {
                    Ok(len) => {
                        kani::assert(fits, "OBS c04: the library wrote a codeword where the definition's does not fit the window");
                        kani::assert(s.bits.len == b.len, "OBS c04/c06: number of bits appended = length of the defined codeword");
                        kani::assert(s.bits.same(&b), "OBS c04: bits written = the code's published definition");
                        kani::assert(len == s.bits.len, "OBS c06: value returned by write = number of bits appended");
                        kani::assert(len == lib_len(code, n, k), "OBS c06: value returned by write = the library's length function");
                    }
                    Err(e) => {
                        kani::assert(e == ModelErr::Window && !fits, "OBS c04: write fails only when the stream fails");
                    }
                }
                kani::cover!(r.is_ok() && (n > 100 || matches!(code, Code::MinBin(_))), "def reachable (larger value)");
                kani::cover!(r.is_ok() && n < 8, "def reachable (small value)");
            }

            /// C06: the library's length function equals the defined length, for
            /// every value (also where the codeword exceeds the model's window).
            pub fn len(code: Code) {
                let (n, k) = any_args(code);
                // the library computes lengths in usize: the defined length fits for every value except unary/Rice/Golomb of 2^64-2 in usize (it does: <= 2^64-1)
                let l = lib_len(code, n, k);
                kani::assert(l as u128 == spec_len(code, n, k), "OBS c06: library length function = defined codeword length");
                kani::cover!(n > 1 << 62, "len reachable (large)");
            }

            /// C20: the library's length function is non-decreasing in the value
            pub fn mono(code: Code) {
                let (a, k) = any_args(code);
                let b: u64 = kani::any();
                kani::assume(a <= b);
                match code {
                    Code::VByteBe | Code::VByteLe => {}
                    Code::MinBin(u) => kani::assume(b < u),
                    _ => kani::assume(b < u64::MAX),
                }
                kani::assert(lib_len(code, a, k) <= lib_len(code, b, k), "OBS c20.mono: codeword length is non-decreasing in the value");
                kani::cover!(lib_len(code, a, k) < lib_len(code, b, k), "c20.mono reachable (strict step)");
            }

            /// C03: written at any position with arbitrary surrounding bits, the
            /// code reads back the value and leaves the reader exactly at the end
            /// of the codeword. `wcode` and `rcode` may differ in table options.
            pub fn roundtrip(wcode: Code, rcode: Code, peek_width: usize) {
                roundtrip_k(wcode, rcode, peek_width, usize::MAX)
            }
            /// as `roundtrip`, with the parameter fixed to `kfix` (a grid point) unless `usize::MAX`
            pub fn roundtrip_k(wcode: Code, rcode: Code, peek_width: usize, kfix: usize) {
                let (n, k) = any_args(wcode);
                kani::assume(kfix == usize::MAX || k == kfix);
                // arbitrary preceding bits
                let pre = Bits::any(8);
                let mut s = S::new(pre, kani::any(), peek_width);
                let start = pre.len;
                let r = write(&mut s, wcode, n, k);
                if let Ok(len) = r {
                    // arbitrary following bits
                    let suf: u64 = kani::any();
                    let nsuf: usize = kani::any();
                    kani::assume(nsuf <= 16);
                    if s.bits.push(suf as u128, nsuf) {
                        s.pos = start;
                        let v = read(&mut s, rcode, k);
                        kani::assert(v == Ok(n), "OBS c03: reading the code at the position where it was written returns the value");
                        kani::assert(s.pos == start + len, "OBS c03/c06: the reader is left exactly at the end of the codeword (bits consumed = bits written)");
                    }
                }
                kani::cover!(r.is_ok() && (n > 100 || matches!(wcode, Code::MinBin(_))), "roundtrip reachable (larger value)");
            }

            /// C05 / C09: on a valid stream truncated at an arbitrary point (strict
            /// or zero-extended), decoding with tables (`tcode`) and bit by bit
            /// (`code`) agree on result, value and final position; and a code
            /// lying entirely within the data decodes to its value.
            pub fn tables_vs_bits(code: Code, tcode: Code, read_bits_width: usize) {
                let (n, k) = any_args(code);
                let pre = Bits::any(8);
                let mut w = S::new(pre, true, read_bits_width);
                let start = pre.len;
                if let Ok(len) = write(&mut w, code, n, k) {
                    let suf: u64 = kani::any();
                    let nsuf: usize = kani::any();
                    kani::assume(nsuf <= 16);
                    if w.bits.push(suf as u128, nsuf) {
                        // truncate at an arbitrary point at or after the start of the code
                        let cut: usize = kani::any();
                        kani::assume(cut >= start && cut <= w.bits.len);
                        let mut data = Bits::new();
                        let lo = w.bits.w[0];
                        let hi = w.bits.w[1];
                        // keep the first `cut` bits
                        let ok = if cut <= 128 { data.push(lo, cut) } else { data.push(lo, 128) && data.push(hi, cut - 128) };
                        kani::assume(ok);
                        let strict: bool = kani::any();
                        let mut a = S::new(data, strict, read_bits_width);
                        let mut b = S::new(data, strict, read_bits_width);
                        a.pos = start;
                        b.pos = start;
                        let ra = read(&mut a, tcode, k);
                        let rb = read(&mut b, code, k);
                        kani::assert(ra == rb, "OBS c05: table-driven and bit-by-bit decoding return the same result");
                        kani::assert(ra.is_err() || a.pos == b.pos, "OBS c05: table-driven and bit-by-bit decoding leave the same position");
                        if start + len <= cut {
                            kani::assert(ra == Ok(n), "OBS c09: a code lying entirely within the data decodes to its value (tables)");
                            kani::assert(rb == Ok(n), "OBS c09: a code lying entirely within the data decodes to its value (bit by bit)");
                            kani::assert(a.pos == start + len, "OBS c09: position after the last code of the stream");
                        } else if strict {
                            kani::assert(ra.is_err(), "OBS c09: a code cut by the end of a strict stream is an error, not a value (tables)");
                            kani::assert(rb.is_err(), "OBS c09: a code cut by the end of a strict stream is an error, not a value (bit by bit)");
                        }
                        kani::cover!(strict && start + len == cut && len <= read_bits_width, "tables_vs_bits reachable (code ends at the strict end, not longer than the table index)");
                        kani::cover!(strict && start + len > cut, "tables_vs_bits reachable (cut code)");
                        kani::cover!(len > read_bits_width && ra.is_ok(), "tables_vs_bits reachable (codeword longer than the table index)");
                    }
                }
            }
        }
    };
}
codes_for!(BE, be);
codes_for!(LE, le);

/// C05: every entry of every decoding table equals the bit-by-bit decoding of
/// its index pattern (symbolic index = all 2^READ_BITS patterns).
macro_rules! table_entries {
    ($name:ident, $m:ident, $tables:ident, $read_table:ident, $code:expr, $k:expr) => {
        pub fn $name() {
            use dsi_bitstream::codes::$tables as t;
            let rb = t::READ_BITS;
            // an arbitrary look-ahead pattern followed by arbitrary further bits
            let data = Bits::any(64);
            kani::assume(data.len >= rb);
            let mut a = $m::S::new(data, true, rb);
            let mut b = $m::S::new(data, true, rb);
            let ta = t::$read_table(&mut a);
            match ta {
                Some((v, l)) => {
                    // bit-by-bit decoding of the same stream
                    let rb_ = $m::read(&mut b, $code, $k);
                    kani::assert(l <= rb, "OBS c05.table: a table entry never claims more bits than the index width");
                    kani::assert(rb_ == Ok(v), "OBS c05.table: table value = bit-by-bit decoding of the index pattern");
                    kani::assert(b.pos == l && a.pos == l, "OBS c05.table: table length = bits consumed by bit-by-bit decoding");
                }
                None => {
                    kani::assert(a.pos == 0, "OBS c05.table: a missing entry consumes nothing");
                }
            }
            kani::cover!(ta.is_some(), "table entry present");
            kani::cover!(ta.is_none(), "table entry missing");
        }
    };
}
table_entries!(table_gamma_be, be, gamma_tables, read_table_be, Code::Gamma(false), 0);
table_entries!(table_gamma_le, le, gamma_tables, read_table_le, Code::Gamma(false), 0);
table_entries!(table_delta_be, be, delta_tables, read_table_be, Code::Delta(false, false), 0);
table_entries!(table_delta_le, le, delta_tables, read_table_le, Code::Delta(false, false), 0);
table_entries!(table_zeta_be, be, zeta_tables, read_table_be, Code::Zeta3(false), 3);
table_entries!(table_zeta_le, le, zeta_tables, read_table_le, Code::Zeta3(false), 3);

macro_rules! h {
    ($name:ident, $unw:expr, $body:expr) => {
        #[kani::proof]
        #[kani::unwind($unw)]
        pub fn $name() {
            $body
        }
    };
}

macro_rules! harnesses_for {
    ($m:ident, $hm:ident) => {
        pub mod $hm {
            use super::*;
            // ---- C04 / C06: definition and returned length -------------------
            h!(def_unary, 12, $m::def(Code::Unary));
            h!(def_gamma, 12, $m::def(Code::Gamma(false)));
            h!(def_gamma_t, 12, $m::def(Code::Gamma(true)));
            h!(def_delta, 12, $m::def(Code::Delta(false, false)));
            h!(def_delta_tt, 12, $m::def(Code::Delta(true, true)));
            h!(def_delta_tf, 12, $m::def(Code::Delta(true, false)));
            h!(def_delta_ft, 12, $m::def(Code::Delta(false, true)));
            h!(def_omega, 12, $m::def(Code::Omega));
            h!(def_zeta, 12, $m::def(Code::Zeta(false)));
            h!(def_zeta_t, 12, $m::def(Code::Zeta(true)));
            h!(def_zeta3, 12, $m::def(Code::Zeta3(false)));
            h!(def_zeta3_t, 12, $m::def(Code::Zeta3(true)));
            h!(def_pi, 12, $m::def(Code::Pi));
            h!(def_rice, 12, $m::def(Code::Rice));
            h!(def_exp_golomb, 12, $m::def(Code::ExpGolomb));
            h!(def_vbyte_be, 12, $m::def(Code::VByteBe));
            h!(def_vbyte_le, 12, $m::def(Code::VByteLe));
            // ---- C06: length functions over the whole domain -------------------
            h!(len_gamma, 12, $m::len(Code::Gamma(false)));
            h!(len_gamma_t, 12, $m::len(Code::Gamma(true)));
            h!(len_delta, 12, $m::len(Code::Delta(false, false)));
            h!(len_delta_tt, 12, $m::len(Code::Delta(true, true)));
            h!(len_delta_ft, 12, $m::len(Code::Delta(false, true)));
            h!(len_delta_tf, 12, $m::len(Code::Delta(true, false)));
            h!(len_omega, 12, $m::len(Code::Omega));
            h!(len_zeta, 12, $m::len(Code::Zeta(false)));
            h!(len_zeta_t, 12, $m::len(Code::Zeta(true)));
            h!(len_pi, 12, $m::len(Code::Pi));
            h!(len_rice, 12, $m::len(Code::Rice));
            h!(len_exp_golomb, 12, $m::len(Code::ExpGolomb));
            h!(len_vbyte, 12, $m::len(Code::VByteBe));
            // ---- C20: monotone lengths ------------------------------------------
            h!(mono_unary, 12, $m::mono(Code::Unary));
            h!(mono_gamma, 12, $m::mono(Code::Gamma(false)));
            h!(mono_gamma_t, 12, $m::mono(Code::Gamma(true)));
            h!(mono_delta, 12, $m::mono(Code::Delta(false, false)));
            h!(mono_delta_ft, 12, $m::mono(Code::Delta(false, true)));
            h!(mono_delta_tt, 12, $m::mono(Code::Delta(true, true)));
            h!(mono_omega, 12, $m::mono(Code::Omega));
            h!(mono_zeta, 12, $m::mono(Code::Zeta(false)));
            h!(mono_zeta_t, 12, $m::mono(Code::Zeta(true)));
            h!(mono_pi, 12, $m::mono(Code::Pi));
            h!(mono_rice, 12, $m::mono(Code::Rice));
            h!(mono_exp_golomb, 12, $m::mono(Code::ExpGolomb));
            h!(mono_vbyte, 12, $m::mono(Code::VByteBe));
            // ---- C03: round trips ----------------------------------------------
            h!(rt_unary, 12, $m::roundtrip(Code::Unary, Code::Unary, 16));
            h!(rt_gamma, 12, $m::roundtrip(Code::Gamma(true), Code::Gamma(false), 16));
            h!(rt_gamma_t, 12, $m::roundtrip(Code::Gamma(false), Code::Gamma(true), 16));
            h!(rt_delta, 12, $m::roundtrip(Code::Delta(true, true), Code::Delta(false, false), 16));
            h!(rt_delta_t, 12, $m::roundtrip(Code::Delta(false, false), Code::Delta(true, true), 16));
            h!(rt_omega, 12, $m::roundtrip(Code::Omega, Code::Omega, 16));
            h!(rt_zeta_k1, 12, $m::roundtrip_k(Code::Zeta(false), Code::Zeta(false), 16, 1));
            h!(rt_zeta_k2, 12, $m::roundtrip_k(Code::Zeta(false), Code::Zeta(false), 16, 2));
            h!(rt_zeta_k3, 12, $m::roundtrip_k(Code::Zeta(false), Code::Zeta(false), 16, 3));
            h!(rt_zeta_k4, 12, $m::roundtrip_k(Code::Zeta(false), Code::Zeta(false), 16, 4));
            h!(rt_zeta_k5, 12, $m::roundtrip_k(Code::Zeta(false), Code::Zeta(false), 16, 5));
            h!(rt_zeta_k8, 12, $m::roundtrip_k(Code::Zeta(false), Code::Zeta(false), 16, 8));
            h!(rt_zeta_k13, 12, $m::roundtrip_k(Code::Zeta(false), Code::Zeta(false), 16, 13));
            h!(rt_zeta_k31, 12, $m::roundtrip_k(Code::Zeta(false), Code::Zeta(false), 16, 31));
            h!(rt_zeta_k32, 12, $m::roundtrip_k(Code::Zeta(false), Code::Zeta(false), 16, 32));
            h!(rt_zeta_k33, 12, $m::roundtrip_k(Code::Zeta(false), Code::Zeta(false), 16, 33));
            h!(rt_zeta_k62, 12, $m::roundtrip_k(Code::Zeta(false), Code::Zeta(false), 16, 62));
            h!(rt_zeta_k63, 12, $m::roundtrip_k(Code::Zeta(false), Code::Zeta(false), 16, 63));
            h!(rt_zeta3_t, 12, $m::roundtrip(Code::Zeta3(false), Code::Zeta3(true), 16));
            h!(rt_zeta3, 12, $m::roundtrip(Code::Zeta3(true), Code::Zeta3(false), 16));
            h!(rt_pi_k0, 12, $m::roundtrip_k(Code::Pi, Code::Pi, 16, 0));
            h!(rt_pi_k1, 12, $m::roundtrip_k(Code::Pi, Code::Pi, 16, 1));
            h!(rt_pi_k2, 12, $m::roundtrip_k(Code::Pi, Code::Pi, 16, 2));
            h!(rt_pi_k3, 12, $m::roundtrip_k(Code::Pi, Code::Pi, 16, 3));
            h!(rt_pi_k4, 12, $m::roundtrip_k(Code::Pi, Code::Pi, 16, 4));
            h!(rt_pi_k5, 12, $m::roundtrip_k(Code::Pi, Code::Pi, 16, 5));
            h!(rt_pi_k8, 12, $m::roundtrip_k(Code::Pi, Code::Pi, 16, 8));
            h!(rt_pi_k13, 12, $m::roundtrip_k(Code::Pi, Code::Pi, 16, 13));
            h!(rt_pi_k31, 12, $m::roundtrip_k(Code::Pi, Code::Pi, 16, 31));
            h!(rt_pi_k32, 12, $m::roundtrip_k(Code::Pi, Code::Pi, 16, 32));
            h!(rt_pi_k33, 12, $m::roundtrip_k(Code::Pi, Code::Pi, 16, 33));
            h!(rt_pi_k62, 12, $m::roundtrip_k(Code::Pi, Code::Pi, 16, 62));
            h!(rt_pi_k63, 12, $m::roundtrip_k(Code::Pi, Code::Pi, 16, 63));
            h!(rt_rice_k0, 12, $m::roundtrip_k(Code::Rice, Code::Rice, 16, 0));
            h!(rt_rice_k1, 12, $m::roundtrip_k(Code::Rice, Code::Rice, 16, 1));
            h!(rt_rice_k2, 12, $m::roundtrip_k(Code::Rice, Code::Rice, 16, 2));
            h!(rt_rice_k3, 12, $m::roundtrip_k(Code::Rice, Code::Rice, 16, 3));
            h!(rt_rice_k4, 12, $m::roundtrip_k(Code::Rice, Code::Rice, 16, 4));
            h!(rt_rice_k5, 12, $m::roundtrip_k(Code::Rice, Code::Rice, 16, 5));
            h!(rt_rice_k8, 12, $m::roundtrip_k(Code::Rice, Code::Rice, 16, 8));
            h!(rt_rice_k13, 12, $m::roundtrip_k(Code::Rice, Code::Rice, 16, 13));
            h!(rt_rice_k31, 12, $m::roundtrip_k(Code::Rice, Code::Rice, 16, 31));
            h!(rt_rice_k32, 12, $m::roundtrip_k(Code::Rice, Code::Rice, 16, 32));
            h!(rt_rice_k33, 12, $m::roundtrip_k(Code::Rice, Code::Rice, 16, 33));
            h!(rt_rice_k62, 12, $m::roundtrip_k(Code::Rice, Code::Rice, 16, 62));
            h!(rt_rice_k63, 12, $m::roundtrip_k(Code::Rice, Code::Rice, 16, 63));
            h!(rt_exp_golomb_k0, 12, $m::roundtrip_k(Code::ExpGolomb, Code::ExpGolomb, 16, 0));
            h!(rt_exp_golomb_k1, 12, $m::roundtrip_k(Code::ExpGolomb, Code::ExpGolomb, 16, 1));
            h!(rt_exp_golomb_k2, 12, $m::roundtrip_k(Code::ExpGolomb, Code::ExpGolomb, 16, 2));
            h!(rt_exp_golomb_k3, 12, $m::roundtrip_k(Code::ExpGolomb, Code::ExpGolomb, 16, 3));
            h!(rt_exp_golomb_k4, 12, $m::roundtrip_k(Code::ExpGolomb, Code::ExpGolomb, 16, 4));
            h!(rt_exp_golomb_k5, 12, $m::roundtrip_k(Code::ExpGolomb, Code::ExpGolomb, 16, 5));
            h!(rt_exp_golomb_k8, 12, $m::roundtrip_k(Code::ExpGolomb, Code::ExpGolomb, 16, 8));
            h!(rt_exp_golomb_k13, 12, $m::roundtrip_k(Code::ExpGolomb, Code::ExpGolomb, 16, 13));
            h!(rt_exp_golomb_k31, 12, $m::roundtrip_k(Code::ExpGolomb, Code::ExpGolomb, 16, 31));
            h!(rt_exp_golomb_k32, 12, $m::roundtrip_k(Code::ExpGolomb, Code::ExpGolomb, 16, 32));
            h!(rt_exp_golomb_k33, 12, $m::roundtrip_k(Code::ExpGolomb, Code::ExpGolomb, 16, 33));
            h!(rt_exp_golomb_k62, 12, $m::roundtrip_k(Code::ExpGolomb, Code::ExpGolomb, 16, 62));
            h!(rt_exp_golomb_k63, 12, $m::roundtrip_k(Code::ExpGolomb, Code::ExpGolomb, 16, 63));
            h!(rt_vbyte_be, 12, $m::roundtrip(Code::VByteBe, Code::VByteBe, 16));
            h!(rt_vbyte_le, 12, $m::roundtrip(Code::VByteLe, Code::VByteLe, 16));
            // ---- C05 / C09: tables vs bit by bit on truncated valid streams --------
            h!(tvb_gamma, 12, $m::tables_vs_bits(Code::Gamma(false), Code::Gamma(true), gamma_tables::READ_BITS));
            h!(tvb_delta_tt, 12, $m::tables_vs_bits(Code::Delta(false, false), Code::Delta(true, true), delta_tables::READ_BITS));
            h!(tvb_delta_tf, 12, $m::tables_vs_bits(Code::Delta(false, false), Code::Delta(true, false), delta_tables::READ_BITS));
            h!(tvb_delta_ft, 12, $m::tables_vs_bits(Code::Delta(false, false), Code::Delta(false, true), delta_tables::READ_BITS));
            h!(tvb_zeta3, 12, $m::tables_vs_bits(Code::Zeta3(false), Code::Zeta3(true), zeta_tables::READ_BITS));
            h!(tvb_omega, 12, $m::tables_vs_bits(Code::Omega, Code::Omega, 1));
        }
    };
}
#[cfg(feature = "m_codes")]
harnesses_for!(be, hbe);
#[cfg(feature = "m_codes")]
harnesses_for!(le, hle);

#[cfg(feature = "m_codes")]
pub mod tables {
    use super::*;
    h!(gamma_be, 12, table_gamma_be());
    h!(gamma_le, 12, table_gamma_le());
    h!(delta_be, 12, table_delta_be());
    h!(delta_le, 12, table_delta_le());
    h!(zeta_be, 12, table_zeta_be());
    h!(zeta_le, 12, table_zeta_le());
}

/// Golomb / minimal binary with constant moduli (a grid: SAT cannot take a
/// symbolic 64-bit divisor; the unbounded modulus is Engine C's obligation).
macro_rules! golomb_grid {
    ($($name:ident = $b:expr),*) => {
        #[cfg(feature = "m_golomb")]
        pub mod golomb_be { use super::*; $(
            pub mod $name {
                use super::*;
                h!(def, 12, be::def(Code::Golomb($b)));
                h!(len, 12, be::len(Code::Golomb($b)));
                h!(rt, 12, be::roundtrip(Code::Golomb($b), Code::Golomb($b), 16));
                h!(mono, 12, be::mono(Code::Golomb($b)));
                h!(mb_def, 12, be::def(Code::MinBin($b)));
                h!(mb_rt, 12, be::roundtrip(Code::MinBin($b), Code::MinBin($b), 16));
            }
        )* }
        #[cfg(feature = "m_golomb")]
        pub mod golomb_le { use super::*; $(
            pub mod $name {
                use super::*;
                h!(def, 12, le::def(Code::Golomb($b)));
                h!(len, 12, le::len(Code::Golomb($b)));
                h!(rt, 12, le::roundtrip(Code::Golomb($b), Code::Golomb($b), 16));
                h!(mb_def, 12, le::def(Code::MinBin($b)));
                h!(mb_rt, 12, le::roundtrip(Code::MinBin($b), Code::MinBin($b), 16));
            }
        )* }
    };
}
golomb_grid!(b1 = 1, b2 = 2, b3 = 3, b4 = 4, b5 = 5, b6 = 6, b7 = 7, b8 = 8, b9 = 9, b10 = 10, b11 = 11, b12 = 12, b13 = 13,
    b15 = 15, b16 = 16, b17 = 17, b20 = 20, b31 = 31, b32 = 32, b33 = 33, b63 = 63, b64 = 64, b65 = 65, b100 = 100,
    b2p32m1 = (1u64 << 32) - 1, b2p32 = 1u64 << 32, b2p32p1 = (1u64 << 32) + 1,
    b2p63m1 = (1u64 << 63) - 1, b2p63 = 1u64 << 63, b2p63p1 = (1u64 << 63) + 1, bmax = u64::MAX);
