//! C11 — `WordAdapter` is transparent and loss-free under I/O faults.
//!
//! Functions under contract: `WordAdapter::{new, into_inner, read_word,
//! write_word, flush, word_pos, set_word_pos}` for every word size.

use crate::ghost::{FaultyRead, FaultyWrite};
use crate::vw::VW;
use common_traits::CastableInto;
use dsi_bitstream::impls::WordAdapter;
use dsi_bitstream::traits::{WordRead, WordSeek, WordWrite};

/// sink/source capacity in bytes: room for two words
const CAPB: usize = 40;

/// `write_word` over a sink that may accept fewer bytes than offered, be
/// interrupted, or fail at any call: either the sink received exactly the
/// word's `to_ne_bytes()`, once and in order, or an error is reported.
pub fn write_word<W: VW, const BUDGET: usize>()
where
    u64: CastableInto<W>,
    WordAdapter<W, FaultyWrite<CAPB>>: WordWrite<Word = W, Error = std::io::Error>,
{
    // bytes already in the sink (a previous word): they must be left alone
    let mut sink = FaultyWrite::<CAPB>::new(BUDGET);
    let pre: usize = kani::any();
    kani::assume(pre <= W::NBYTES);
    let prefix: [u8; 16] = kani::any();
    sink.sink[..pre].copy_from_slice(&prefix[..pre]);
    sink.len = pre;
    let w: W = W::any();
    let mut a = WordAdapter::<W, _>::new(sink);
    let res = a.write_word(w);
    let sink = a.into_inner();
    let j: usize = kani::any();
    match res {
        Ok(()) => {
            kani::assert(
                sink.len == pre + W::NBYTES,
                "OBS c11.write_word: Ok means every byte of the word was transferred (none dropped or duplicated)",
            );
            if j < W::NBYTES {
                kani::assert(
                    sink.len == pre + W::NBYTES && sink.sink[pre + j] == w.ne_byte(j),
                    "OBS c11.write_word: the sink received to_ne_bytes() in order",
                );
            }
        }
        Err(_) => {
            // an error is reported: what was transferred is a prefix of the word
            kani::assert(sink.len <= pre + W::NBYTES, "OBS c11.write_word: never transfers more than the word");
            if j < W::NBYTES && pre + j < sink.len {
                kani::assert(sink.sink[pre + j] == w.ne_byte(j), "OBS c11.write_word: bytes transferred before an error are in order");
            }
        }
    }
    let k: usize = kani::any();
    if k < pre {
        kani::assert(sink.sink[k] == prefix[k], "OBS c11.write_word: bytes already transferred are not altered");
    }
    kani::cover!(res.is_ok() && sink.interrupts >= 1, "c11.write_word reachable (Ok after an interrupted call)");
    kani::cover!(res.is_ok() && W::NBYTES > 1 && sink.calls - sink.interrupts >= 2 || W::NBYTES == 1, "c11.write_word reachable (Ok after a short write)");
    kani::cover!(res.is_err(), "c11.write_word reachable (error)");
}

/// `read_word` over a source with short reads / interrupts / errors: the word is
/// the next BYTES bytes, or an error; a partial trailing word is an error.
pub fn read_word<W: VW, const BUDGET: usize>()
where
    u64: CastableInto<W>,
    WordAdapter<W, FaultyRead<CAPB>>: WordRead<Word = W, Error = std::io::Error>,
{
    let mut src = FaultyRead::<CAPB>::any(BUDGET);
    let start: usize = kani::any();
    kani::assume(start <= src.len && start <= W::NBYTES);
    src.pos = start;
    let snapshot = src.src;
    let len = src.len;
    let mut a = WordAdapter::<W, _>::new(src);
    let res = a.read_word();
    let src = a.into_inner();
    match res {
        Ok(w) => {
            kani::assert(start + W::NBYTES <= len, "OBS c11.read_word: Ok only if a whole word of data was available");
            kani::assert(src.pos == start + W::NBYTES, "OBS c11.read_word: consumes exactly BYTES bytes");
            let j: usize = kani::any();
            kani::assume(j < W::NBYTES);
            kani::assert(
                start + W::NBYTES <= len && w.ne_byte(j) == snapshot[start + j],
                "OBS c11.read_word: the word is the next BYTES bytes in order",
            );
        }
        Err(_) => {
            kani::assert(
                src.hard_error || start + W::NBYTES > len,
                "OBS c11.read_word: Err only if the source failed or fewer than BYTES bytes remain",
            );
        }
    }
    kani::cover!(res.is_ok() && src.calls >= 2, "c11.read_word reachable (Ok after short reads / interrupts)");
    kani::cover!(res.is_err() && !src.hard_error, "c11.read_word reachable (partial trailing word)");
}

/// Word positions over a seekable byte stream (`std::io::Cursor`).
/// `WordAdapter::flush`: reports Ok only if the wrapped sink's flush succeeded
/// (a sink that buffers would otherwise silently keep bytes back)
pub fn flush<W: VW>()
where
    u64: CastableInto<W>,
    WordAdapter<W, FaultyWrite<CAPB>>: WordWrite<Word = W, Error = std::io::Error>,
{
    let mut sink = FaultyWrite::<CAPB>::new(0);
    sink.faulty_flush = true;
    let mut a = WordAdapter::<W, _>::new(sink);
    let res = a.flush();
    let sink = a.into_inner();
    kani::assert(sink.flushes >= 1, "OBS c11.flush: the wrapped sink is flushed");
    match res {
        Ok(()) => kani::assert(sink.flushed_ok >= 1, "OBS c11.flush: Ok only if a flush of the wrapped sink succeeded (no bytes may stay behind unreported)"),
        Err(_) => kani::assert(sink.flush_errors >= 1, "OBS c11.flush: an error only if the wrapped sink reported one"),
    }
    kani::cover!(res.is_err(), "c11.flush reachable (failing flush)");
    kani::cover!(res.is_ok(), "c11.flush reachable (successful flush)");
}

pub fn positions<W: VW>()
where
    u64: CastableInto<W>,
    for<'a> WordAdapter<W, std::io::Cursor<&'a [u8]>>:
        WordRead<Word = W, Error = std::io::Error> + WordSeek<Error = std::io::Error>,
{
    let data: [u8; CAPB] = kani::any();
    let nwords: usize = kani::any();
    kani::assume(nwords <= 2);
    let tail: usize = kani::any();
    kani::assume(tail < W::NBYTES && nwords * W::NBYTES + tail <= CAPB);
    let total = nwords * W::NBYTES + tail;
    // arbitrary pre-state of the wrapped stream: any byte position, aligned or not (a read that failed on a
    // ragged tail leaves the stream at an unspecified position; a seek must not depend on where it starts)
    let pos0: usize = kani::any();
    kani::assume(pos0 <= total);
    let mut cur = std::io::Cursor::new(&data[..total]);
    cur.set_position(pos0 as u64);
    let mut a = WordAdapter::<W, _>::new(cur);
    if pos0 == 0 {
        kani::assert(matches!(a.word_pos(), Ok(0)), "OBS c11.pos: a new adapter is at word 0");
    }
    kani::cover!(pos0 % W::NBYTES != 0 || W::NBYTES == 1, "c11.pos reachable (seek from an unaligned byte position)");
    let i: u64 = kani::any();
    kani::assume(i <= nwords as u64);
    kani::assert(a.set_word_pos(i).is_ok(), "OBS c11.pos: seeking to a word inside the stream succeeds");
    kani::assert(matches!(a.word_pos(), Ok(p) if p == i), "OBS c11.pos: word_pos reports the word index");
    match a.read_word() {
        Ok(w) => {
            kani::assert((i as usize) < nwords, "OBS c11.pos: read succeeds only on a whole word");
            let j: usize = kani::any();
            kani::assume(j < W::NBYTES);
            kani::assert(
                (i as usize) < nwords && w.ne_byte(j) == data[i as usize * W::NBYTES + j],
                "OBS c11.pos: set_word_pos(i) addresses word i",
            );
            kani::assert(matches!(a.word_pos(), Ok(p) if p == i + 1), "OBS c11.pos: word_pos equals the number of words transferred");
        }
        Err(_) => kani::assert(i as usize == nwords, "OBS c11.pos: read fails only beyond the last whole word"),
    }
    kani::cover!(i == 1 && nwords == 2, "c11.pos reachable");
}

macro_rules! c11_for {
    ($w:ty, $wl:ident, $unw:expr, $budget:expr) => {
        pub mod $wl {
            use super::*;
            #[kani::proof]
            #[kani::stub(alloc::fmt::format, crate::stubs::format_stub)]
            #[kani::unwind($unw)]
            pub fn c11_write_word() { write_word::<$w, $budget>() }
            #[kani::proof]
            #[kani::stub(alloc::fmt::format, crate::stubs::format_stub)]
            #[kani::unwind($unw)]
            pub fn c11_read_word() { read_word::<$w, $budget>() }
            #[kani::proof]
            #[kani::stub(alloc::fmt::format, crate::stubs::format_stub)]
            #[kani::unwind($unw)]
            pub fn c11_positions() { positions::<$w>() }
            #[kani::proof]
            #[kani::unwind(4)]
            pub fn c11_flush() { flush::<$w>() }
        }
    };
}
// budget = number of calls of the wrapped object explored (every call symbolic):
// complete schedules (BYTES + 2 calls) for u8..u32, 4 / 3 calls for u64 / u128.
c11_for!(u8, u8_, 5, 3);
c11_for!(u16, u16_, 6, 4);
c11_for!(u32, u32_, 8, 6);
c11_for!(u64, u64_, 6, 4);
c11_for!(u128, u128_, 5, 3);
