//! C02 / C07 / C09 — the unbuffered `BitReader` (implementation obligations).
//!
//! Functions under contract: `BitReader::{new, read_bits, peek_bits, skip_bits,
//! skip_bits_after_peek, read_unary, clone, bit_pos, set_bit_pos}` for BE and LE.
//! View: (S, p) with p = bit_index; no representation invariant beyond that.

use crate::ghost::{GhostErr, Oracle};
use crate::layout::*;
use crate::vw::{VE, VW};
use dsi_bitstream::impls::BitReader;
use dsi_bitstream::traits::{BitRead, BitSeek, BE, LE};

pub const CAP: usize = 5;
pub type Br<E> = BitReader<E, Oracle<u64, CAP>>;

pub struct G {
    pub o: Oracle<u64, CAP>,
    /// position relative to the start of the ghost window
    pub p: usize,
    /// absolute position (`bit_index`)
    pub abs: u64,
}

pub fn any_reader<E: VE>(budget: usize) -> (Br<E>, G) {
    // the cursor of the backend is irrelevant: the reader repositions it
    let o = Oracle::<u64, CAP>::any_near(budget, CAP);
    let p: usize = kani::any();
    kani::assume(p <= CAP * 64);
    // a strict stream cannot have been read beyond its end; it may be positioned
    // there (and skip_bits may have moved beyond: covered by the Err clauses)
    let abs = o.base * 64 + p as u64;
    let r = Br::<E>::verif_from_parts(o.clone(), abs);
    (r, G { o, p, abs })
}

fn pos_of<E: VE>(r: &Br<E>) -> u64 {
    r.verif_parts().1
}

pub fn new<E: VE>()
where
    Br<E>: BitRead<E, Error = GhostErr>,
{
    let o = Oracle::<u64, CAP>::any(1);
    let r = Br::<E>::new(o);
    kani::assert(pos_of(&r) == 0, "OBS c02.bitreader.new: a new reader is at position 0");
    kani::cover!(true, "c02.bitreader.new reachable");
}

pub fn read_bits<E: VE>()
where
    Br<E>: BitRead<E, Error = GhostErr>,
{
    let le = E::LITTLE;
    let (mut r, g) = any_reader::<E>(4);
    let n: usize = kani::any();
    kani::assume(n <= 64);
    let res = r.read_bits(n);
    match res {
        Ok(v) => {
            kani::assert(v & !low_mask(n) == 0, "OBS c02.bitreader.read_bits: value < 2^n");
            let j: usize = kani::any();
            if j < n {
                kani::assert(
                    field_bit(le, v, n, j) == g.o.stream_bit(le, g.p + j),
                    "OBS c02.bitreader.read_bits: field_E(v,n) = S[p..p+n)",
                );
            }
            kani::assert(
                g.o.zero_ext || g.p + n <= g.o.data_bits() || n == 0,
                "OBS c09.bitreader.read_bits: Ok only if all n bits lie within the data of a strict stream",
            );
            kani::assert(pos_of(&r) == g.abs + n as u64, "OBS c02.bitreader.read_bits: advances by exactly n");
        }
        Err(_) => {
            kani::assert(
                !g.o.zero_ext && g.p + n > g.o.data_bits(),
                "OBS c09.bitreader.read_bits: Err only when a bit beyond the end of a strict stream is needed",
            );
        }
    }
    kani::cover!(res.is_ok() && n == 64 && g.p % 64 == 63, "c02.bitreader.read_bits reachable (two words)");
    kani::cover!(res.is_err(), "c02.bitreader.read_bits reachable (strict end)");
}

pub fn peek_bits<E: VE>()
where
    Br<E>: BitRead<E, Error = GhostErr, PeekWord = u32>,
{
    let le = E::LITTLE;
    let (mut r, g) = any_reader::<E>(4);
    let n: usize = kani::any();
    kani::assume(n <= 32);
    let res = r.peek_bits(n);
    match res {
        Ok(v) => {
            kani::assert((v as u64) & !low_mask(n) == 0, "OBS c02.bitreader.peek_bits: value < 2^n");
            let j: usize = kani::any();
            if j < n {
                kani::assert(
                    field_bit(le, v as u64, n, j) == g.o.stream_bit(le, g.p + j),
                    "OBS c02.bitreader.peek_bits: field_E(v,n) = S[p..p+n)",
                );
            }
            kani::assert(
                g.o.zero_ext || g.p + n <= g.o.data_bits() || n == 0,
                "OBS c09.bitreader.peek_bits: Ok only if all n bits lie within the data of a strict stream",
            );
            kani::assert(pos_of(&r) == g.abs, "OBS c02.bitreader.peek_bits: does not advance");
            let res2 = r.peek_bits(n);
            kani::assert(res2 == Ok(v), "OBS c02.bitreader.peek_bits: repeatable");
            kani::assert(pos_of(&r) == g.abs, "OBS c02.bitreader.peek_bits: second peek does not advance");
        }
        Err(_) => {
            kani::assert(
                !g.o.zero_ext && g.p + n > g.o.data_bits(),
                "OBS c09.bitreader.peek_bits: Err only when a bit beyond the end of a strict stream is needed",
            );
            kani::assert(pos_of(&r) == g.abs, "OBS c09.bitreader.peek_bits: a failed peek does not move");
        }
    }
    kani::cover!(res.is_ok() && n == 32 && g.p % 64 > 40, "c02.bitreader.peek_bits reachable (two words)");
    kani::cover!(res.is_err(), "c02.bitreader.peek_bits reachable (strict end)");
}

pub fn skips<E: VE>()
where
    Br<E>: BitRead<E, Error = GhostErr>,
{
    let (mut r, g) = any_reader::<E>(1);
    let n: usize = kani::any();
    // precondition of the property: the stream is shorter than 2^64 bits
    kani::assume(n <= 1 << 48);
    let which: bool = kani::any();
    if which {
        let res = r.skip_bits(n);
        kani::assert(res.is_ok(), "OBS c02.bitreader.skip_bits: succeeds");
    } else {
        r.skip_bits_after_peek(n);
    }
    kani::assert(pos_of(&r) == g.abs + n as u64, "OBS c02.bitreader.skip: advances by exactly n");
    kani::cover!(which && n > 64, "c02.bitreader.skip reachable");
}

pub fn read_unary<E: VE, const K: usize>()
where
    Br<E>: BitRead<E, Error = GhostErr>,
{
    let le = E::LITTLE;
    let (mut r, g) = any_reader::<E>(K);
    let res = r.read_unary();
    match res {
        Ok(x) => {
            let j: usize = kani::any();
            if j as u64 <= x {
                kani::assert(
                    g.o.stream_bit(le, g.p + j) == (j as u64 == x),
                    "OBS c02.bitreader.read_unary: S[p..p+x] = 0^x 1",
                );
            }
            kani::assert(
                g.o.zero_ext || g.p + x as usize + 1 <= g.o.data_bits(),
                "OBS c09.bitreader.read_unary: Ok only if the terminating one lies within the data",
            );
            kani::assert(pos_of(&r) == g.abs + x + 1, "OBS c02.bitreader.read_unary: advances by exactly x+1");
        }
        Err(GhostErr::Window) => {
            let (bk, _) = r.verif_parts();
            kani::assert(bk.reads == K, "OBS c02.bitreader.read_unary: window error only after K backend reads");
            let j: usize = kani::any();
            if j < (CAP + K + 2) * 64 && g.p + j < (g.p / 64 + K) * 64 {
                kani::assert(!g.o.stream_bit(le, g.p + j), "OBS c02.bitreader.read_unary: all bits inside the window are zero");
            }
        }
        Err(_) => {
            kani::assert(!g.o.zero_ext, "OBS c09.bitreader.read_unary: a zero-extended stream never reports its end");
            let j: usize = kani::any();
            if j < CAP * 64 && g.p + j < g.o.data_bits() {
                kani::assert(
                    !g.o.stream_bit(le, g.p + j),
                    "OBS c09.bitreader.read_unary: Err only if no one-bit remains before the end",
                );
            }
        }
    }
    kani::cover!(matches!(res, Ok(x) if x > 70), "c02.bitreader.read_unary reachable (spans a word)");
    kani::cover!(matches!(res, Err(GhostErr::End)), "c02.bitreader.read_unary reachable (strict end)");
}

pub fn seek<E: VE>()
where
    Br<E>: BitRead<E, Error = GhostErr> + BitSeek,
{
    let (mut r, g) = any_reader::<E>(1);
    match r.bit_pos() {
        Ok(p) => kani::assert(p == g.abs, "OBS c07.bitreader.bit_pos: reports the position"),
        Err(_) => kani::assert(false, "OBS c07.bitreader.bit_pos: never fails"),
    }
    let q: u64 = kani::any();
    kani::assert(r.set_bit_pos(q).is_ok(), "OBS c07.bitreader.set_bit_pos: succeeds");
    kani::assert(pos_of(&r) == q, "OBS c07.bitreader.set_bit_pos: the reader is positioned at q");
    match r.bit_pos() {
        Ok(p) => kani::assert(p == q, "OBS c07.bitreader.set_bit_pos: bit_pos reports q afterwards"),
        Err(_) => kani::assert(false, "OBS c07.bitreader.bit_pos: never fails"),
    }
    kani::cover!(q % 64 != 0, "c07.bitreader.seek reachable");
}

pub fn clone_<E: VE>()
where
    Br<E>: BitRead<E, Error = GhostErr>,
{
    let (r, g) = any_reader::<E>(1);
    let r2 = r.clone();
    let (b1, p1) = r.verif_parts();
    let (b2, p2) = r2.verif_parts();
    kani::assert(p1 == p2 && p2 == g.abs, "OBS c02.bitreader.clone: same position");
    kani::assert(b1.len == b2.len && b1.zero_ext == b2.zero_ext && b1.base == b2.base, "OBS c02.bitreader.clone: same backend");
    let i: usize = kani::any();
    if i < CAP {
        kani::assert(b1.words[i] == b2.words[i], "OBS c02.bitreader.clone: same data");
    }
    kani::cover!(true, "c02.bitreader.clone reachable");
}

macro_rules! harness {
    ($name:ident, $unwind:expr, $body:expr) => {
        #[kani::proof]
        #[kani::unwind($unwind)]
        pub fn $name() {
            $body
        }
    };
}

macro_rules! br_for {
    ($e:ty) => {
        use super::*;
        harness!(c02_new, 10, new::<$e>());
        harness!(c02_read_bits, 10, read_bits::<$e>());
        harness!(c02_peek_bits, 10, peek_bits::<$e>());
        harness!(c02_skips, 10, skips::<$e>());
        harness!(c02_read_unary_k2, 10, read_unary::<$e, 2>());
        harness!(c02_read_unary_k4, 10, read_unary::<$e, 4>());
        harness!(c07_seek, 10, seek::<$e>());
        harness!(c02_clone, 10, clone_::<$e>());
    };
}

#[cfg(feature = "m_bitreader")]
pub mod be {
    br_for!(BE);
}
#[cfg(feature = "m_bitreader")]
pub mod le {
    br_for!(LE);
}
