// Unit C13/mem_words: the real text of the in-memory word streams
// (src/impls/mem_word_reader.rs, src/impls/mem_word_writer.rs) against the
// array-plus-cursor model, for arrays of EVERY length (the Kani obligations
// c13.* are bounded in the array length).
//
// The storage parameter `B: AsRef<[W]> / AsMut<Vec<W>>` is instantiated to the
// slice / vector itself (`self.data.as_ref()` -> `self.data`); the word type is a
// template parameter ({{W}}: one unit per word type; Verus knows `Vec::resize`'s
// fill value only for concrete `Copy` types). `std::io::Error::new(..)` is replaced by an opaque error value (the
// message text is not modelled).
use vstd::prelude::*;

verus! {

global size_of usize == 8;

pub type W = {{W}};

pub struct IoError;
pub struct Infallible;   // stands for core::convert::Infallible (never constructed: every Infallible result is shown to be Ok)

#[verifier::external_body]
pub fn io_error() -> IoError { IoError }

pub assume_specification<T: Copy>[ Option::<&T>::copied ](o: Option<&T>) -> (r: Option<T>)
    ensures r == (match o { Some(x) => Some(*x), None => None::<T> });

/// the word under cursor c of an array extended with zeros
pub open spec fn at_ext(s: Seq<W>, c: int) -> W {
    if 0 <= c < s.len() { s[c] } else { 0 }
}

//@FIELDS file=src/impls/mem_word_reader.rs item=/pub struct MemWordReader</ <<data: B>> <<word_index: usize>>
pub struct MemWordReader<'a, const INF: bool> {
    data: &'a [W],
    word_index: usize,
}

impl<'a> MemWordReader<'a, true> {
//@FN file=src/impls/mem_word_reader.rs item=/impl<W: Word, B: AsRef<\[W\]>> WordRead for MemWordReader<W, B, true>/ name=read_word
//@SIG fn read_word_inf(&mut self) -> (r: Result<W, Infallible>)
//@SPEC     requires old(self).word_index < usize::MAX,
//@SPEC     ensures
//@SPEC         final(self).data@ == old(self).data@,
//@SPEC         r is Ok && r->Ok_0 == at_ext(old(self).data@, old(self).word_index as int),
//@SPEC         final(self).word_index == old(self).word_index + 1,
//@INST <<.as_ref()>> => <<>>
//@INST <<Self::Word::ZERO>> => <<(0 as {{W}})>>
//@END

//@FN file=src/impls/mem_word_reader.rs item=/impl<W: Word, B: AsRef<\[W\]>> WordSeek for MemWordReader<W, B, true>/ name=word_pos
//@SIG fn word_pos_inf(&mut self) -> (r: Result<u64, Infallible>)
//@SPEC     ensures final(self).data@ == old(self).data@, final(self).word_index == old(self).word_index, r is Ok && r->Ok_0 == old(self).word_index,
//@INST <<.as_ref()>> => <<>>
//@END

//@FN file=src/impls/mem_word_reader.rs item=/impl<W: Word, B: AsRef<\[W\]>> WordSeek for MemWordReader<W, B, true>/ name=set_word_pos
//@SIG fn set_word_pos_inf(&mut self, word_index: u64) -> (r: Result<(), Infallible>)
//@SPEC     ensures final(self).data@ == old(self).data@, r is Ok, final(self).word_index == word_index,
//@REPLACE_RE [[word_index\.min\(((?:[^()]|\([^()]*\))*)\)]] => [[(if word_index <= \1 { word_index } else { \1 })]]
//@INST <<.as_ref()>> => <<>>
//@END
}

impl<'a> MemWordReader<'a, false> {
//@FN file=src/impls/mem_word_reader.rs item=/impl<W: Word, B: AsRef<\[W\]>> WordRead for MemWordReader<W, B, false>/ name=read_word
//@SIG fn read_word_strict(&mut self) -> (r: Result<W, IoError>)
//@SPEC     requires old(self).data@.len() <= usize::MAX,   // true of every Rust slice
//@SPEC     ensures
//@SPEC         final(self).data@ == old(self).data@,
//@SPEC         r is Ok ==> old(self).word_index < old(self).data@.len() && r->Ok_0 == old(self).data@[old(self).word_index as int] && final(self).word_index == old(self).word_index + 1,
//@SPEC         // an error beyond the end, without moving the cursor
//@SPEC         r is Err ==> old(self).word_index >= old(self).data@.len() && final(self).word_index == old(self).word_index,
//@SPEC         old(self).word_index < old(self).data@.len() ==> r is Ok,
//@INST <<.as_ref()>> => <<>>
//@CALLSUB <<std::io::Error::new>> => <<io_error()>>
//@END

//@FN file=src/impls/mem_word_reader.rs item=/impl<W: Word, B: AsRef<\[W\]>> WordSeek for MemWordReader<W, B, false>/ name=word_pos
//@SIG fn word_pos_strict(&mut self) -> (r: Result<u64, IoError>)
//@SPEC     ensures final(self).data@ == old(self).data@, final(self).word_index == old(self).word_index, r is Ok && r->Ok_0 == old(self).word_index,
//@INST <<.as_ref()>> => <<>>
//@END

//@FN file=src/impls/mem_word_reader.rs item=/impl<W: Word, B: AsRef<\[W\]>> WordSeek for MemWordReader<W, B, false>/ name=set_word_pos
//@SIG fn set_word_pos_strict(&mut self, word_index: u64) -> (r: Result<(), IoError>)
//@SPEC     ensures
//@SPEC         final(self).data@ == old(self).data@,
//@SPEC         word_index <= old(self).data@.len() ==> r is Ok && final(self).word_index == word_index,
//@SPEC         // a rejected set-position leaves the position unchanged
//@SPEC         word_index > old(self).data@.len() ==> r is Err && final(self).word_index == old(self).word_index,
//@INST <<.as_ref()>> => <<>>
//@CALLSUB <<std::io::Error::new>> => <<io_error()>>
//@END
}

//@FIELDS file=src/impls/mem_word_writer.rs item=/pub struct MemWordWriterVec</ <<data: B>> <<word_index: usize>>
pub struct MemWordWriterVec {
    data: Vec<W>,
    word_index: usize,
}

impl MemWordWriterVec {
//@FN file=src/impls/mem_word_writer.rs item=/impl<W: Word, B: AsMut<alloc::vec::Vec<W>>> WordWrite for MemWordWriterVec<W, B>/ name=write_word
//@SIG fn write_word_vec(&mut self, word: W) -> (r: Result<(), Infallible>)
//@SPEC     requires old(self).word_index < usize::MAX,
//@SPEC     ensures
//@SPEC         r is Ok, final(self).word_index == old(self).word_index + 1,
//@SPEC         // stores at the cursor, growing the vector with zero fill when needed; nothing else changes
//@SPEC         final(self).data@.len() == (if old(self).word_index < old(self).data@.len() { old(self).data@.len() } else { (old(self).word_index + 1) as nat }),
//@SPEC         forall|i: int| 0 <= i < final(self).data@.len() ==> #[trigger] final(self).data@[i] == (if i == old(self).word_index { word } else { at_ext(old(self).data@, i) }),
//@INST <<.as_mut()>> => <<>>
//@INST <<W::ZERO>> => <<(0 as {{W}})>>
//@PROLOGUE let ghost s0 = self.data@; let ghost c0 = self.word_index as int;
//@PROOF after=<<self.data.resize(self.word_index + 1, (0 as {{W}}));>> proof { assert(self.data@.len() == c0 + 1); assert forall|i: int| 0 <= i < self.data@.len() implies #[trigger] self.data@[i] == at_ext(s0, i) by { } }
//@PROOF after=<<self.data[self.word_index] = word;>> proof { assert forall|i: int| 0 <= i < self.data@.len() implies #[trigger] self.data@[i] == (if i == c0 { word } else { at_ext(s0, i) }) by { } }
//@INST <<.as_ref()>> => <<>>
//@END

//@FN file=src/impls/mem_word_writer.rs item=/impl<W: Word, B: AsMut<alloc::vec::Vec<W>>> WordRead for MemWordWriterVec<W, B>/ name=read_word
//@SIG fn read_word_vec(&mut self) -> (r: Result<W, IoError>)
//@SPEC     requires old(self).data@.len() <= usize::MAX,   // true of every Vec
//@SPEC     ensures
//@SPEC         final(self).data@ == old(self).data@,
//@SPEC         r is Ok ==> old(self).word_index < old(self).data@.len() && r->Ok_0 == old(self).data@[old(self).word_index as int] && final(self).word_index == old(self).word_index + 1,
//@SPEC         r is Err ==> old(self).word_index >= old(self).data@.len() && final(self).word_index == old(self).word_index,
//@SPEC         old(self).word_index < old(self).data@.len() ==> r is Ok,
//@INST <<.as_mut()>> => <<>>
//@CALLSUB <<std::io::Error::new>> => <<io_error()>>
//@INST <<.as_ref()>> => <<>>
//@END

//@FN file=src/impls/mem_word_writer.rs item=/WordSeek\s+for MemWordWriterVec<W, B>/ name=word_pos
//@SIG fn word_pos_vec(&mut self) -> (r: Result<u64, IoError>)
//@SPEC     ensures final(self).data@ == old(self).data@, final(self).word_index == old(self).word_index, r is Ok && r->Ok_0 == old(self).word_index,
//@INST <<.as_ref()>> => <<>>
//@INST <<.as_mut()>> => <<>>
//@END

//@FN file=src/impls/mem_word_writer.rs item=/WordSeek\s+for MemWordWriterVec<W, B>/ name=set_word_pos
//@SIG fn set_word_pos_vec(&mut self, word_index: u64) -> (r: Result<(), IoError>)
//@SPEC     ensures
//@SPEC         final(self).data@ == old(self).data@,
//@SPEC         word_index <= old(self).data@.len() ==> r is Ok && final(self).word_index == word_index,
//@SPEC         word_index > old(self).data@.len() ==> r is Err && final(self).word_index == old(self).word_index,
//@INST <<.as_ref()>> => <<>>
//@CALLSUB <<std::io::Error::new>> => <<io_error()>>
//@INST <<.as_mut()>> => <<>>
//@END
}

//@FIELDS file=src/impls/mem_word_writer.rs item=/pub struct MemWordWriterSlice</ <<data: B>> <<word_index: usize>>
pub struct MemWordWriterSlice<'a> {
    data: &'a mut [W],
    word_index: usize,
}

impl<'a> MemWordWriterSlice<'a> {
//@FN file=src/impls/mem_word_writer.rs item=/impl<W: Word, B: AsMut<\[W\]>> WordRead for MemWordWriterSlice<W, B>/ name=read_word
//@SIG fn read_word_slice(&mut self) -> (r: Result<W, IoError>)
//@SPEC     requires old(self).data@.len() <= usize::MAX,   // true of every Rust slice
//@SPEC     ensures
//@SPEC         final(self).data@ == old(self).data@,
//@SPEC         r is Ok ==> old(self).word_index < old(self).data@.len() && r->Ok_0 == old(self).data@[old(self).word_index as int] && final(self).word_index == old(self).word_index + 1,
//@SPEC         r is Err ==> old(self).word_index >= old(self).data@.len() && final(self).word_index == old(self).word_index,
//@SPEC         old(self).word_index < old(self).data@.len() ==> r is Ok,
//@INST <<.as_mut()>> => <<>>
//@CALLSUB <<std::io::Error::new>> => <<io_error()>>
//@INST <<.as_ref()>> => <<>>
//@END

//@FN file=src/impls/mem_word_writer.rs item=/WordSeek for MemWordWriterSlice<W, B>/ name=word_pos
//@SIG fn word_pos_slice(&mut self) -> (r: Result<u64, IoError>)
//@SPEC     ensures final(self).data@ == old(self).data@, final(self).word_index == old(self).word_index, r is Ok && r->Ok_0 == old(self).word_index,
//@INST <<.as_ref()>> => <<>>
//@INST <<.as_mut()>> => <<>>
//@END

//@FN file=src/impls/mem_word_writer.rs item=/WordSeek for MemWordWriterSlice<W, B>/ name=set_word_pos
//@SIG fn set_word_pos_slice(&mut self, word_index: u64) -> (r: Result<(), IoError>)
//@SPEC     ensures
//@SPEC         final(self).data@ == old(self).data@,
//@SPEC         word_index <= old(self).data@.len() ==> r is Ok && final(self).word_index == word_index,
//@SPEC         word_index > old(self).data@.len() ==> r is Err && final(self).word_index == old(self).word_index,
//@INST <<.as_ref()>> => <<>>
//@CALLSUB <<std::io::Error::new>> => <<io_error()>>
//@INST <<.as_mut()>> => <<>>
//@END

//@FN file=src/impls/mem_word_writer.rs item=/impl<W: Word, B: AsMut<\[W\]>> WordWrite for MemWordWriterSlice<W, B>/ name=write_word
//@SIG fn write_word_slice(&mut self, word: W) -> (r: Result<(), IoError>)
//@SPEC     requires old(self).data@.len() <= usize::MAX,
//@SPEC     ensures
//@SPEC         final(self).data@.len() == old(self).data@.len(),
//@SPEC         r is Ok ==> old(self).word_index < old(self).data@.len() && final(self).data@ == old(self).data@.update(old(self).word_index as int, word) && final(self).word_index == old(self).word_index + 1,
//@SPEC         r is Err ==> old(self).word_index >= old(self).data@.len() && final(self).data@ == old(self).data@ && final(self).word_index == old(self).word_index,
//@INST <<.as_mut()>> => <<>>
//@CALLSUB <<std::io::Error::new>> => <<io_error()>>
//@INST <<.as_ref()>> => <<>>
//@END
}

} // verus!

fn main() {}
