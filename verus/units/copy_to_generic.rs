// Unit C08/copy_to_generic: the real text of the default (chunked) bulk-copy loops
// `BitRead::copy_to` and `BitWrite::copy_from` of src/traits/bits.rs, as default
// methods of the contract-carrying trait declarations, generic in the reader and
// the writer, for every n (unbounded).
use vstd::prelude::*;
use vstd::arithmetic::power2::*;

verus! {

//@INJECT top
pub enum CopyError<RE, WE> {
    ReadError(RE),
    WriteError(WE),
}


/// appending the chunk just moved extends the moved prefix
pub proof fn lemma_chunk(s: Seq<bool>, p: int, a: int, b: int)
    requires 0 <= p <= a <= b <= s.len(),
    ensures s.subrange(p, a) + s.subrange(a, b) == s.subrange(p, b),
{
    assert(s.subrange(p, a) + s.subrange(a, b) =~= s.subrange(p, b));
}
//@ENDINJECT

//@INJECT BitRead
//@FN file=src/traits/bits.rs item=/pub trait BitRead<E: Endianness>/ name=copy_to
//@SIG fn copy_to<F: Endianness, W: BitWrite<F>>(&mut self, bit_write: &mut W, mut n: u64) -> (r: Result<(), CopyError<Self::Error, W::Error>>)
//@SPEC     requires
//@SPEC         E::little() == F::little(),
//@SPEC         old(self).pos() <= old(self).stream().len(),
//@SPEC     ensures
//@SPEC         final(self).stream() == old(self).stream(),
//@SPEC         final(self).pos() <= final(self).stream().len(),
//@SPEC         r is Ok ==> {
//@SPEC             &&& old(self).pos() + n <= old(self).stream().len()
//@SPEC             &&& final(self).pos() == old(self).pos() + n
//@SPEC             &&& final(bit_write).view() == old(bit_write).view() + old(self).stream().subrange(old(self).pos() as int, old(self).pos() + n)
//@SPEC         },
//@LOOP 1 invariant
//@LOOP 1     E::little() == F::little(),
//@LOOP 1     self.stream() == old(self).stream(),
//@LOOP 1     n <= n0,
//@LOOP 1     self.pos() == old(self).pos() + (n0 - n),
//@LOOP 1     self.pos() <= self.stream().len(),
//@LOOP 1     bit_write.view() == old(bit_write).view() + old(self).stream().subrange(old(self).pos() as int, old(self).pos() + (n0 - n)),
//@LOOP 1 decreases n,
//@REPLACE_RE <<core::cmp::min\(n, (\d+)\)>> => <<(if n <= \1 { n } else { \1 })>>
//@PROLOGUE let ghost n0 = n;
//@LOOPEND 1 proof { lemma_chunk(old(self).stream(), old(self).pos() as int, old(self).pos() + (n0 - n) - to_read, old(self).pos() + (n0 - n)); }
//@END
//@ENDINJECT


//@INCLUDE prelude.inc

} // verus!

fn main() {}
