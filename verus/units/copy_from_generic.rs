// Unit C08/copy_from_generic: the real text of the default (chunked) bulk-copy loops
// `BitRead::copy_to` and `BitWrite::copy_from` of src/traits/bits.rs, as default
// methods of the contract-carrying trait declarations, generic in the reader and
// the writer, for every n (unbounded).
use vstd::prelude::*;
use vstd::arithmetic::power2::*;

verus! {

//@INJECT top
pub enum CopyError<RE, WE> {
    ReadError(RE),
    WriteError(WE),
}


/// appending the chunk just moved extends the moved prefix
pub proof fn lemma_chunk(s: Seq<bool>, p: int, a: int, b: int)
    requires 0 <= p <= a <= b <= s.len(),
    ensures s.subrange(p, a) + s.subrange(a, b) == s.subrange(p, b),
{
    assert(s.subrange(p, a) + s.subrange(a, b) =~= s.subrange(p, b));
}
//@ENDINJECT


//@INJECT BitWrite
//@FN file=src/traits/bits.rs item=/pub trait BitWrite<E: Endianness>/ name=copy_from
//@SIG fn copy_from<F: Endianness, R: BitRead<F>>(&mut self, bit_read: &mut R, mut n: u64) -> (r: Result<(), CopyError<R::Error, Self::Error>>)
//@SPEC     requires
//@SPEC         E::little() == F::little(),
//@SPEC         old(bit_read).pos() <= old(bit_read).stream().len(),
//@SPEC     ensures
//@SPEC         final(bit_read).stream() == old(bit_read).stream(),
//@SPEC         final(bit_read).pos() <= final(bit_read).stream().len(),
//@SPEC         r is Ok ==> {
//@SPEC             &&& old(bit_read).pos() + n <= old(bit_read).stream().len()
//@SPEC             &&& final(bit_read).pos() == old(bit_read).pos() + n
//@SPEC             &&& final(self).view() == old(self).view() + old(bit_read).stream().subrange(old(bit_read).pos() as int, old(bit_read).pos() + n)
//@SPEC         },
//@LOOP 1 invariant
//@LOOP 1     E::little() == F::little(),
//@LOOP 1     bit_read.stream() == old(bit_read).stream(),
//@LOOP 1     n <= n0,
//@LOOP 1     bit_read.pos() == old(bit_read).pos() + (n0 - n),
//@LOOP 1     bit_read.pos() <= bit_read.stream().len(),
//@LOOP 1     self.view() == old(self).view() + old(bit_read).stream().subrange(old(bit_read).pos() as int, old(bit_read).pos() + (n0 - n)),
//@LOOP 1 decreases n,
//@REPLACE_RE <<core::cmp::min\(n, (\d+)\)>> => <<(if n <= \1 { n } else { \1 })>>
//@PROLOGUE let ghost n0 = n;
//@LOOPEND 1 proof { lemma_chunk(old(bit_read).stream(), old(bit_read).pos() as int, old(bit_read).pos() + (n0 - n) - to_read, old(bit_read).pos() + (n0 - n)); }
//@END
//@ENDINJECT

//@INCLUDE prelude.inc

} // verus!

fn main() {}
