// Unit C03-C04-C06/rice: the real text of `len_rice`, `RiceWrite::write_rice`
// and `RiceRead::read_rice` (src/codes/rice.rs) against the trait contracts, for
// every log2_b in 0..=63 and every value (unbounded quotient).
use vstd::prelude::*;
use vstd::arithmetic::power2::*;
use vstd::arithmetic::div_mod::*;
use vstd::bits::*;

verus! {

//@INCLUDE prelude.inc

/// the quotient n / 2^k
pub open spec fn quot(n: u64, k: nat) -> nat {
    n as nat / pow2(k)
}
pub open spec fn rice_bits(le: bool, n: u64, k: nat) -> Seq<bool> {
    unary(quot(n, k)) + field(le, n, k)
}
pub open spec fn rice_len(n: u64, k: nat) -> nat {
    quot(n, k) + 1 + k
}

/// the stream continues, at position p, with the bit string w
pub open spec fn starts(s: Seq<bool>, p: int, w: Seq<bool>) -> bool {
    0 <= p && p + w.len() <= s.len() && s.subrange(p, p + w.len()) == w
}

pub proof fn lemma_unary_unique(s: Seq<bool>, p: int, a: nat, c: nat)
    requires starts(s, p, unary(a)), starts(s, p, unary(c)),
    ensures a == c,
{
    if a < c {
        assert(s.subrange(p, p + a + 1)[a as int] == unary(a)[a as int]);
        assert(s.subrange(p, p + c + 1)[a as int] == unary(c)[a as int]);
    } else if c < a {
        assert(s.subrange(p, p + a + 1)[c as int] == unary(a)[c as int]);
        assert(s.subrange(p, p + c + 1)[c as int] == unary(c)[c as int]);
    }
}

/// the bits of a value below 2^n determine it
pub proof fn lemma_bits_determine(a: u64, b: u64, n: nat)
    requires
        (a as nat) < pow2(n), (b as nat) < pow2(n),
        forall|i: nat| i < n ==> bit_of(a, i) == bit_of(b, i),
    ensures a == b,
    decreases n,
{
    lemma2_to64();
    if n == 0 {
        assert(pow2(0) == 1);
    } else {
        lemma_pow2_unfold(n);
        let a2 = (a / 2) as u64;
        let b2 = (b / 2) as u64;
        assert((a2 as nat) < pow2((n - 1) as nat));
        assert((b2 as nat) < pow2((n - 1) as nat));
        assert forall|i: nat| i < (n - 1) as nat implies bit_of(a2, i) == bit_of(b2, i) by {
            lemma_pow2_unfold(i + 1);
            lemma_pow2_pos(i);
            lemma_div_denominator(a as int, 2, pow2(i) as int);
            lemma_div_denominator(b as int, 2, pow2(i) as int);
            assert(bit_of(a, i + 1) == bit_of(b, i + 1));
        }
        lemma_bits_determine(a2, b2, (n - 1) as nat);
        assert(bit_of(a, 0) == bit_of(b, 0));
        assert(pow2(0) == 1);
        assert(a % 2 == b % 2);
    }
}

/// the k low bits of x are the bits of x mod 2^k
pub proof fn lemma_low_bits(x: u64, k: nat, i: nat)
    requires i < k, k <= 63,
    ensures bit_of((x as nat % pow2(k)) as u64, i) == bit_of(x, i),
{
    // x = q*2^k + r ; r / 2^i = (x / 2^i) - q*2^(k-i) ; 2^(k-i) is even
    let p = pow2(k);
    let pi = pow2(i);
    let pd = pow2((k - i) as nat);
    lemma_pow2_pos(k);
    lemma_pow2_pos(i);
    lemma_pow2_pos((k - i) as nat);
    lemma_pow2_adds(i, (k - i) as nat);
    assert(p == pi * pd);
    lemma_pow2_unfold((k - i) as nat);
    let q = x as nat / p;
    let r = x as nat % p;
    lemma_fundamental_div_mod(x as int, p as int);
    assert(x as nat == p * q + r);
    // x / pi == q * pd + r / pi
    assert((pi * (pd * q) + r) as int / (pi as int) == (pd * q) as int + r as int / (pi as int)) by {
        lemma_div_multiples_vanish_fancy((pd * q) as int, r as int % (pi as int), pi as int);
        lemma_fundamental_div_mod(r as int, pi as int);
        lemma_hoist_over_denominator(r as int, (pd * q) as int, pi);
    }
    assert(p * q == pi * (pd * q)) by (nonlinear_arith) requires p == pi * pd;
    assert((x as nat / pi) == pd * q + r / pi);
    // pd is even
    let half = pow2((k - i - 1) as nat);
    assert(pd == 2 * half);
    assert(pd * q == 2 * (half * q)) by (nonlinear_arith) requires pd == 2 * half;
    lemma_mod_multiples_vanish((half * q) as int, (r / pi) as int, 2);
    assert((pd * q + r / pi) % 2 == (r / pi) % 2);
    lemma2_to64();
    lemma_pow2_strictly_increases(k, 64);
}

pub proof fn lemma_field_low(le: bool, x: u64, k: nat)
    requires k <= 63,
    ensures field(le, (x as nat % pow2(k)) as u64, k) =~= field(le, x, k),
{
    lemma_pow2_pos(k);
    lemma2_to64();
    lemma_pow2_strictly_increases(k, 64);
    assert forall|j: int| 0 <= j < k implies field(le, (x as nat % pow2(k)) as u64, k)[j] == field(le, x, k)[j] by {
        let i: nat = if le { j as nat } else { (k - 1 - j) as nat };
        lemma_low_bits(x, k, i);
    }
}

pub proof fn lemma_field_injective(le: bool, a: u64, b: u64, n: nat)
    requires (a as nat) < pow2(n), (b as nat) < pow2(n), field(le, a, n) == field(le, b, n),
    ensures a == b,
{
    assert forall|i: nat| i < n implies bit_of(a, i) == bit_of(b, i) by {
        let j: int = if le { i as int } else { (n - 1 - i) as int };
        assert(0 <= j < n);
        assert(field(le, a, n)[j] == (if le { bit_of(a, j as nat) } else { bit_of(a, (n - 1 - j) as nat) }));
        assert(field(le, b, n)[j] == (if le { bit_of(b, j as nat) } else { bit_of(b, (n - 1 - j) as nat) }));
    }
    lemma_bits_determine(a, b, n);
}

proof fn lemma_rice_no_overflow(n: u64, k: nat)
    requires k <= 63, n < u64::MAX,
    ensures n as nat / pow2(k) + 1 + k <= usize::MAX, (n >> (k as u64)) == n as nat / pow2(k),
{
    lemma_u64_shr_is_div(n, k as u64);
    lemma_pow2_pos(k);
    lemma2_to64();
    if k == 0 {
        assert(pow2(0) == 1);
    } else {
        lemma_pow2_unfold(k);
        lemma_pow2_pos((k - 1) as nat);
        assert(n as nat / pow2(k) <= n as nat / 2) by (nonlinear_arith) requires pow2(k) >= 2;
    }
}

/// the clean-up mask of the `checks` configuration: (1_u128 << k).wrapping_sub(1) as u64 = 2^k - 1
pub proof fn lemma_mask128(k: u64)
    requires k <= 63,
    ensures ((1_u128 << k).wrapping_sub(1)) as u64 == low_bits_mask(k as nat),
{
    let x: u128 = 1_u128 << k;
    assert(x as u64 == (1u64 << k) && x >= 1 && x <= 0x8000_0000_0000_0000u128) by (bit_vector) requires k <= 63, x == 1_u128 << k;
    lemma2_to64();
    lemma2_to64_rest();
    lemma_pow2_strictly_increases(k as nat, 64);
    lemma_u64_shl_is_mul(1, k);
    assert((1u64 << k) == pow2(k as nat));
    assert(x as u64 as nat == pow2(k as nat));
    assert(x == pow2(k as nat));
}

/// masking with 2^k - 1 yields a clean value with the same k-bit field
pub proof fn lemma_masked_field(le: bool, n: u64, k: nat, nm: u64)
    requires k <= 63, nm == n & (((1_u128 << (k as u64)).wrapping_sub(1)) as u64),
    ensures (nm as nat) < pow2(k), field(le, nm, k) =~= field(le, n, k),
{
    lemma_mask128(k as u64);
    lemma_u64_low_bits_mask_is_mod(n, k);
    lemma_pow2_pos(k);
    lemma_mod_bound(n as int, pow2(k) as int);
    lemma2_to64();
    lemma2_to64_rest();
    lemma_pow2_strictly_increases(k, 64);
    let r = (n as nat % pow2(k)) as u64;
    assert(nm == n % (pow2(k) as u64));
    assert(nm == r);
    lemma_field_low(le, n, k);
}

//@FN file=src/codes/rice.rs item=- name=len_rice
//@SIG pub fn len_rice(n: u64, log2_b: usize) -> (r: usize)
//@SPEC     requires log2_b <= 63, n < u64::MAX,
//@SPEC     ensures r == rice_len(n, log2_b as nat),
//@PROLOGUE proof { lemma_rice_no_overflow(n, log2_b as nat); }
//@END

pub trait RiceWrite<E: Endianness>: BitWrite<E> {
//@FN file=src/codes/rice.rs item=/pub trait RiceWrite<E: Endianness>: BitWrite<E>/ name=write_rice
//@SIG fn write_rice(&mut self, n: u64, log2_b: usize) -> (r: Result<usize, Self::Error>)
//@SPEC     requires log2_b <= 63, n < u64::MAX,
//@SPEC     ensures r is Ok ==> r->Ok_0 == rice_len(n, log2_b as nat) && final(self).view() == old(self).view() + rice_bits(E::little(), n, log2_b as nat),
//@PROLOGUE let ghost n0 = n; proof { lemma_rice_no_overflow(n, log2_b as nat); }
//@PROOF[checks] after=[[let n = n & (1_u128 << log2_b).wrapping_sub(1) as u64;]] proof { lemma_masked_field(E::little(), n0, log2_b as nat, n); }
//@END
}

pub trait RiceRead<E: Endianness>: BitRead<E> {
//@FN file=src/codes/rice.rs item=/pub trait RiceRead<E: Endianness>: BitRead<E>/ name=read_rice
//@SIG fn read_rice(&mut self, log2_b: usize) -> (r: Result<u64, Self::Error>)
//@SPEC     requires
//@SPEC         log2_b <= 63,
//@SPEC         exists|x: u64| x < u64::MAX && #[trigger] starts(old(self).stream(), old(self).pos() as int, rice_bits(E::little(), x, log2_b as nat)),
//@SPEC     ensures
//@SPEC         final(self).stream() == old(self).stream(),
//@SPEC         r is Ok ==> forall|x: u64| x < u64::MAX && #[trigger] starts(old(self).stream(), old(self).pos() as int, rice_bits(E::little(), x, log2_b as nat))
//@SPEC             ==> r->Ok_0 == x && final(self).pos() == old(self).pos() + rice_len(x, log2_b as nat),
//@REPLACE_RE <<Ok\(\(self\.read_unary\(\)\?\s*<<\s*(.+?)\)\s*\+\s*self\.read_bits\((.+?)\)\?\)>> => <<let q = self.read_unary()?; let ghost pos1 = self.pos() as int; proof { lemma_rice_q::<E>(old(self).stream(), old(self).pos() as int, q, log2_b as nat); } let qs = q << (\1); let r2 = self.read_bits(\2)?; proof { lemma_rice_r::<E>(old(self).stream(), old(self).pos() as int, pos1, self.pos() as int, q, qs, r2, log2_b as nat); } Ok(qs + r2)>>
//@END
}

pub proof fn lemma_rice_split(s: Seq<bool>, p: int, le: bool, x: u64, k: nat)
    requires starts(s, p, rice_bits(le, x, k)),
    ensures
        starts(s, p, unary(quot(x, k))),
        starts(s, p + quot(x, k) + 1, field(le, x, k)),
        rice_bits(le, x, k).len() == rice_len(x, k),
{
    let u = unary(quot(x, k));
    let m = field(le, x, k);
    let w = rice_bits(le, x, k);
    assert(w == u + m);
    assert(u.len() == quot(x, k) + 1);
    assert(m.len() == k);
    assert(w.len() == u.len() + m.len());
    assert(s.subrange(p, p + u.len()) =~= w.subrange(0, u.len() as int));
    assert(w.subrange(0, u.len() as int) =~= u);
    assert(s.subrange(p + u.len(), p + u.len() + m.len()) =~= w.subrange(u.len() as int, w.len() as int));
    assert(w.subrange(u.len() as int, w.len() as int) =~= m);
    let q = quot(x, k);
    let p2 = p + q + 1;
    assert(u.len() == q + 1);
    assert(p2 == p + u.len());
    assert(s.subrange(p2, p2 + m.len()) == m);
    assert(0 <= p2 && p2 + m.len() <= s.len());
}

pub proof fn lemma_rice_q<E: Endianness>(s: Seq<bool>, p: int, q: u64, k: nat)
    requires
        k <= 63,
        exists|x: u64| x < u64::MAX && #[trigger] starts(s, p, rice_bits(E::little(), x, k)),
        starts(s, p, unary(q as nat)),
    ensures
        q * pow2(k) <= u64::MAX,
        (q << (k as u64)) == q * pow2(k),
        forall|x: u64| x < u64::MAX && #[trigger] starts(s, p, rice_bits(E::little(), x, k)) ==> x as nat / pow2(k) == q,
{
    let le = E::little();
    lemma_pow2_pos(k);
    assert forall|x: u64| x < u64::MAX && #[trigger] starts(s, p, rice_bits(le, x, k)) implies x as nat / pow2(k) == q by {
        lemma_rice_split(s, p, le, x, k);
        lemma_unary_unique(s, p, quot(x, k), q as nat);
    }
    let x0 = choose|x: u64| x < u64::MAX && #[trigger] starts(s, p, rice_bits(le, x, k));
    let pk = pow2(k);
    assert(x0 as nat / pk == q);
    assert((x0 as nat / pk) * pk <= x0) by (nonlinear_arith) requires pk > 0;
    lemma_u64_shl_is_mul(q, k as u64);
}

pub proof fn lemma_rice_r<E: Endianness>(s: Seq<bool>, p: int, pos1: int, pos2: int, q: u64, qs: u64, r2: u64, k: nat)
    requires
        k <= 63, pos1 == p + q + 1, pos2 == pos1 + k, pos2 <= s.len(),
        qs == q * pow2(k),
        forall|x: u64| x < u64::MAX && #[trigger] starts(s, p, rice_bits(E::little(), x, k)) ==> x as nat / pow2(k) == q,
        (r2 as nat) < pow2(k),
        field(E::little(), r2, k) == s.subrange(pos1, pos1 + k),
    ensures
        forall|x: u64| x < u64::MAX && #[trigger] starts(s, p, rice_bits(E::little(), x, k))
            ==> qs + r2 == x && pos2 == p + rice_len(x, k),
{
    let le = E::little();
    lemma_pow2_pos(k);
    assert forall|x: u64| x < u64::MAX && #[trigger] starts(s, p, rice_bits(le, x, k)) implies qs + r2 == x && pos2 == p + rice_len(x, k) by {
        lemma_rice_split(s, p, le, x, k);
        let pk = pow2(k);
        let low = (x as nat % pk) as u64;
        lemma_field_low(le, x, k);
        lemma_mod_bound(x as int, pk as int);
        lemma_field_injective(le, r2, low, k);
        lemma_fundamental_div_mod(x as int, pk as int);
        assert(pk * (x as nat / pk) == (x as nat / pk) * pk) by (nonlinear_arith);
    }
}

} // verus!

fn main() {}
