// Unit C02/reader_unary: the real text of `BufBitReader::{read_unary, skip_bits}`
// (BE and LE impls, src/impls/buf_bit_reader.rs) under the reader contract of
// DESIGN 2.1, with UNBOUNDED word loops (the Kani obligations c02.read_unary.* /
// c02.skip_bits.* are bounded by the ghost backend window).
//
// Template parameters (word-type instantiation, one unit per backend word):
//   {{W}} = backend word type, {{N}} = its width, {{BB}} = the double-width bit
//   buffer type (`BB<WR>`), {{M}} = 2*{{N}}, {{LZINC}} = include providing the
//   count-zeros specification for u128 (absent from vstd).
// `WR::Word`, `BB<WR>` and `UpcastableInto::<BB<WR>>::upcast` of the real text are
// replaced textually (//@INST lines).
use vstd::prelude::*;
use vstd::arithmetic::power2::*;
use vstd::arithmetic::div_mod::*;
use vstd::bits::*;
use vstd::std_specs::bits::*;

verus! {

global size_of usize == 8;

//@INCLUDE {{LZINC}}

/// bit `i` of `v`
pub open spec fn wbit(v: nat, i: nat) -> bool {
    (v / pow2(i)) % 2 == 1
}

pub struct BE;
pub struct LE;

// the value of a word obtained from the backend: `w.to_be()` (BE readers) /
// `w.to_le()` (LE readers); the link to the canonical byte image is discharged
// by the Kani obligations std_spec.byte_order.*
pub uninterp spec fn spec_to_be(x: {{W}}) -> {{W}};
pub uninterp spec fn spec_to_le(x: {{W}}) -> {{W}};
pub assume_specification[ {{W}}::to_be ](x: {{W}}) -> (r: {{W}}) ensures r == spec_to_be(x);
pub assume_specification[ {{W}}::to_le ](x: {{W}}) -> (r: {{W}}) ensures r == spec_to_le(x);

pub trait WordRead {
    type Error;
    /// the (conceptually unbounded) sequence of words of the backend
    spec fn word_at(&self, i: nat) -> {{W}};
    spec fn cursor(&self) -> nat;
    /// no backend delivers more than `limit` words (streams are shorter than 2^64 bits)
    spec fn limit(&self) -> nat;
    /// number of words of actual data: a strict backend fails only at or beyond it, a
    /// zero-extended one never fails
    spec fn len(&self) -> nat;
    fn read_word(&mut self) -> (r: Result<{{W}}, Self::Error>)
        ensures
            forall|i: nat| final(self).word_at(i) == old(self).word_at(i),
            final(self).limit() == old(self).limit(),
            final(self).len() == old(self).len(),
            r is Ok ==> old(self).cursor() < old(self).limit() && r->Ok_0 == old(self).word_at(old(self).cursor()) && final(self).cursor() == old(self).cursor() + 1,
            r is Err ==> final(self).cursor() == old(self).cursor() && old(self).cursor() >= old(self).len(),
    ;
}

//@FIELDS file=src/impls/buf_bit_reader.rs item=/pub struct BufBitReader</ [[backend: WR]] [[buffer: BB<WR>]] [[bits_in_buffer: usize]]
pub struct BufBitReader<E, WR: WordRead> {
    backend: WR,
    buffer: {{BB}},
    bits_in_buffer: usize,
    _marker: core::marker::PhantomData<E>,
}

/// stream bit i of a backend: BE = bit N-1 - i%N of to_be(word i/N); LE = bit i%N of to_le(word i/N)
pub open spec fn sbit<WR: WordRead>(le: bool, b: &WR, i: int) -> bool {
    if le { wbit(spec_to_le(b.word_at((i / {{N}}) as nat)) as nat, (i % {{N}}) as nat) }
    else { wbit(spec_to_be(b.word_at((i / {{N}}) as nat)) as nat, ({{N}} - 1 - i % {{N}}) as nat) }
}

/// stream bit at offset t from position p
pub open spec fn rbit<WR: WordRead>(le: bool, b: &WR, p: int, t: int) -> bool {
    sbit(le, b, p + t)
}

pub proof fn lemma_wbit_bb(v: {{BB}}, i: nat)
    requires i < {{M}},
    ensures wbit(v as nat, i) == ((v >> (i as {{BB}})) & 1 == 1),
{
    lemma_{{BB}}_shr_is_div(v, i as {{BB}});
    let s = v >> (i as {{BB}});
    assert(s & 1 == s % 2) by (bit_vector);
}

pub proof fn lemma_wbit_w(v: {{W}}, i: nat)
    requires i < {{N}},
    ensures wbit(v as nat, i) == ((v >> (i as {{W}})) & 1 == 1),
{
    lemma_{{W}}_shr_is_div(v, i as {{W}});
    let s = v >> (i as {{W}});
    assert(s & 1 == s % 2) by (bit_vector);
}

/// facts about leading_zeros / trailing_zeros in wbit form
pub proof fn lemma_lz_bb(x: {{BB}})
    ensures
        0 <= {{BB}}_leading_zeros(x) <= {{M}},
        x == 0 <==> {{BB}}_leading_zeros(x) == {{M}},
        x != 0 ==> wbit(x as nat, ({{M}} - 1 - {{BB}}_leading_zeros(x)) as nat),
        forall|j: nat| {{M}} - {{BB}}_leading_zeros(x) <= j < {{M}} ==> !#[trigger] wbit(x as nat, j),
{
    axiom_{{BB}}_leading_zeros(x);
    let lz = {{BB}}_leading_zeros(x);
    if x != 0 {
        lemma_wbit_bb(x, ({{M}} - 1 - lz) as nat);
        let s = x >> (({{M}} - 1 - lz) as {{BB}});
        assert(s & 1 != 0 ==> s & 1 == 1) by (bit_vector);
    }
    assert forall|j: nat| {{M}} - lz <= j < {{M}} implies !#[trigger] wbit(x as nat, j) by {
        lemma_wbit_bb(x, j);
        assert((x >> (j as {{BB}})) & 1 == 0);
    }
}

pub proof fn lemma_lz_w(x: {{W}})
    ensures
        0 <= {{W}}_leading_zeros(x) <= {{N}},
        x == 0 <==> {{W}}_leading_zeros(x) == {{N}},
        x != 0 ==> wbit(x as nat, ({{N}} - 1 - {{W}}_leading_zeros(x)) as nat),
        forall|j: nat| {{N}} - {{W}}_leading_zeros(x) <= j < {{N}} ==> !#[trigger] wbit(x as nat, j),
{
    axiom_{{W}}_leading_zeros(x);
    let lz = {{W}}_leading_zeros(x);
    if x != 0 {
        lemma_wbit_w(x, ({{N}} - 1 - lz) as nat);
        let s = x >> (({{N}} - 1 - lz) as {{W}});
        assert(s & 1 != 0 ==> s & 1 == 1) by (bit_vector);
    }
    assert forall|j: nat| {{N}} - lz <= j < {{N}} implies !#[trigger] wbit(x as nat, j) by {
        lemma_wbit_w(x, j);
        assert((x >> (j as {{W}})) & 1 == 0);
    }
}

pub proof fn lemma_tz_bb(x: {{BB}})
    ensures
        0 <= {{BB}}_trailing_zeros(x) <= {{M}},
        x == 0 <==> {{BB}}_trailing_zeros(x) == {{M}},
        x != 0 ==> wbit(x as nat, {{BB}}_trailing_zeros(x) as nat),
        forall|j: nat| j < {{BB}}_trailing_zeros(x) ==> !#[trigger] wbit(x as nat, j),
{
    axiom_{{BB}}_trailing_zeros(x);
    let tz = {{BB}}_trailing_zeros(x);
    if x != 0 {
        lemma_wbit_bb(x, tz as nat);
        let s = x >> (tz as {{BB}});
        assert(s & 1 != 0 ==> s & 1 == 1) by (bit_vector);
    }
    assert forall|j: nat| j < tz implies !#[trigger] wbit(x as nat, j) by {
        lemma_wbit_bb(x, j);
        assert((x >> (j as {{BB}})) & 1 == 0);
    }
}

pub proof fn lemma_tz_w(x: {{W}})
    ensures
        0 <= {{W}}_trailing_zeros(x) <= {{N}},
        x == 0 <==> {{W}}_trailing_zeros(x) == {{N}},
        x != 0 ==> wbit(x as nat, {{W}}_trailing_zeros(x) as nat),
        forall|j: nat| j < {{W}}_trailing_zeros(x) ==> !#[trigger] wbit(x as nat, j),
{
    axiom_{{W}}_trailing_zeros(x);
    let tz = {{W}}_trailing_zeros(x);
    if x != 0 {
        lemma_wbit_w(x, tz as nat);
        let s = x >> (tz as {{W}});
        assert(s & 1 != 0 ==> s & 1 == 1) by (bit_vector);
    }
    assert forall|j: nat| j < tz implies !#[trigger] wbit(x as nat, j) by {
        lemma_wbit_w(x, j);
        assert((x >> (j as {{W}})) & 1 == 0);
    }
}

/// bits of (b << z) << 1
pub proof fn lemma_shl1_bits(b: {{BB}}, z: nat, j: nat)
    requires z < {{M}}, j < {{M}},
    ensures wbit((((b << (z as {{BB}})) << 1) as {{BB}}) as nat, j) == (j >= z + 1 && wbit(b as nat, (j - z - 1) as nat)),
{
    let b2: {{BB}} = (b << (z as {{BB}})) << 1;
    lemma_wbit_bb(b2, j);
    let zz = z as {{BB}};
    let jj = j as {{BB}};
    if j >= z + 1 {
        let k = (j - z - 1) as nat;
        lemma_wbit_bb(b, k);
        let kk = k as {{BB}};
        assert((((b << zz) << 1) >> jj) & 1 == (b >> kk) & 1) by (bit_vector) requires jj == kk + zz + 1, jj < {{M}};
    } else {
        assert((((b << zz) << 1) >> jj) & 1 == 0) by (bit_vector) requires jj <= zz, zz < {{M}};
    }
}

/// bits of b << z
pub proof fn lemma_shl_bits(b: {{BB}}, z: nat, j: nat)
    requires z < {{M}}, j < {{M}},
    ensures wbit(((b << (z as {{BB}})) as {{BB}}) as nat, j) == (j >= z && wbit(b as nat, (j - z) as nat)),
{
    let b2: {{BB}} = b << (z as {{BB}});
    lemma_wbit_bb(b2, j);
    let zz = z as {{BB}};
    let jj = j as {{BB}};
    if j >= z {
        let k = (j - z) as nat;
        lemma_wbit_bb(b, k);
        let kk = k as {{BB}};
        assert(((b << zz) >> jj) & 1 == (b >> kk) & 1) by (bit_vector) requires jj == kk + zz, jj < {{M}};
    } else {
        assert(((b << zz) >> jj) & 1 == 0) by (bit_vector) requires jj < zz, zz < {{M}};
    }
}

/// bits of (b >> z) >> 1
pub proof fn lemma_shr1_bits(b: {{BB}}, z: nat, j: nat)
    requires z < {{M}}, j < {{M}},
    ensures wbit((((b >> (z as {{BB}})) >> 1) as {{BB}}) as nat, j) == (j + z + 1 < {{M}} && wbit(b as nat, j + z + 1)),
{
    let b2: {{BB}} = (b >> (z as {{BB}})) >> 1;
    lemma_wbit_bb(b2, j);
    let zz = z as {{BB}};
    let jj = j as {{BB}};
    if j + z + 1 < {{M}} {
        let k = j + z + 1;
        lemma_wbit_bb(b, k);
        let kk = k as {{BB}};
        assert((((b >> zz) >> 1) >> jj) & 1 == (b >> kk) & 1) by (bit_vector) requires kk == jj + zz + 1, kk < {{M}};
    } else {
        assert((((b >> zz) >> 1) >> jj) & 1 == 0) by (bit_vector) requires jj + zz + 1 >= {{M}}, jj < {{M}}, zz < {{M}};
    }
}

/// bits of b >> z
pub proof fn lemma_shr_bits(b: {{BB}}, z: nat, j: nat)
    requires z < {{M}}, j < {{M}},
    ensures wbit(((b >> (z as {{BB}})) as {{BB}}) as nat, j) == (j + z < {{M}} && wbit(b as nat, j + z)),
{
    let b2: {{BB}} = b >> (z as {{BB}});
    lemma_wbit_bb(b2, j);
    let zz = z as {{BB}};
    let jj = j as {{BB}};
    if j + z < {{M}} {
        let k = j + z;
        lemma_wbit_bb(b, k);
        let kk = k as {{BB}};
        assert(((b >> zz) >> jj) & 1 == (b >> kk) & 1) by (bit_vector) requires kk == jj + zz, kk < {{M}};
    } else {
        assert(((b >> zz) >> jj) & 1 == 0) by (bit_vector) requires jj + zz >= {{M}}, jj < {{M}}, zz < {{M}};
    }
}

/// bits of an upcast word
pub proof fn lemma_upcast_bits(w: {{W}}, j: nat)
    requires j < {{M}},
    ensures wbit((w as {{BB}}) as nat, j) == (j < {{N}} && wbit(w as nat, j)),
{
    lemma_wbit_bb(w as {{BB}}, j);
    let jj = j as {{BB}};
    if j < {{N}} {
        lemma_wbit_w(w, j);
        let j3 = j as {{W}};
        assert(((w as {{BB}}) >> jj) & 1 == ((w >> j3) & 1) as {{BB}}) by (bit_vector) requires jj == j3 as {{BB}}, j3 < {{N}};
    } else {
        assert(((w as {{BB}}) >> jj) & 1 == 0) by (bit_vector) requires jj >= {{N}}, jj < {{M}};
    }
}

pub proof fn lemma_zero_bits(j: nat)
    ensures !wbit(0, j),
{
    lemma_pow2_pos(j);
    assert(0nat / pow2(j) == 0) by (nonlinear_arith) requires pow2(j) > 0;
}

/// a stream bit inside word c: position c*N + t with 0 <= t < N
pub proof fn lemma_sbit_word<WR: WordRead>(le: bool, b: &WR, c: nat, t: int)
    requires 0 <= t < {{N}},
    ensures sbit(le, b, c * {{N}} + t) == (if le { wbit(spec_to_le(b.word_at(c)) as nat, t as nat) } else { wbit(spec_to_be(b.word_at(c)) as nat, ({{N}} - 1 - t) as nat) }),
{
    lemma_fundamental_div_mod_converse(c * {{N}} + t, {{N}}, c as int, t);
}

// ---------------------------------------------------------------- BE
impl<WR: WordRead> BufBitReader<BE, WR> {
    /// the position of the reader in the stream
    spec fn pos(&self) -> int { self.backend.cursor() * {{N}} - self.bits_in_buffer }
    /// Inv_R: the top `bits_in_buffer` bits of the buffer are the next stream bits, the rest is zero
    spec fn inv(&self) -> bool {
        &&& self.bits_in_buffer < {{M}}
        &&& self.pos() >= 0
        &&& self.backend.limit() * {{N}} + {{M}} <= u64::MAX
        &&& self.backend.cursor() <= self.backend.limit()
        &&& forall|j: nat| j < {{M}} ==> #[trigger] wbit(self.buffer as nat, j) == (j >= {{M}} - self.bits_in_buffer && sbit(false, &self.backend, self.pos() + {{M}} - 1 - j))
    }

//@FN file=src/impls/buf_bit_reader.rs item=/impl<WR: WordRead, RP: ReadParams> BitRead<BE> for BufBitReader<BE, WR, RP>/ name=read_unary
//@SIG fn read_unary_be(&mut self) -> (r: Result<u64, WR::Error>)
//@SPEC     requires old(self).inv(),
//@SPEC     ensures
//@SPEC         forall|i: nat| final(self).backend.word_at(i) == old(self).backend.word_at(i),
//@SPEC         r is Ok ==> {
//@SPEC             &&& final(self).inv()
//@SPEC             &&& final(self).pos() == old(self).pos() + r->Ok_0 + 1
//@SPEC             &&& forall|t: int| 0 <= t < r->Ok_0 ==> !#[trigger] rbit(false, &old(self).backend, old(self).pos(), t)
//@SPEC             &&& rbit(false, &old(self).backend, old(self).pos(), r->Ok_0 as int)
//@SPEC         },
//@SPEC         // C09: an error only if no one-bit remains before the end of the data
//@SPEC         r is Err ==> forall|t: int| 0 <= t && old(self).pos() + t < old(self).backend.len() * {{N}} ==> !#[trigger] rbit(false, &old(self).backend, old(self).pos(), t),
//@INST <<UpcastableInto::<BB<WR>>::upcast(new_word)>> => <<(new_word as {{BB}})>>
//@INST <<BB::<WR>::BITS>> => <<{{M}}usize>>
//@INST <<WR::Word::BITS>> => <<{{N}}usize>>
//@INST <<WR::Word::ZERO>> => <<(0 as {{W}})>>
//@PROLOGUE let ghost pos0 = self.pos(); let ghost nb0 = self.bits_in_buffer as int; let ghost b0 = self.buffer;
//@PROLOGUE proof { lemma_lz_bb(b0); }
//@PROOF after=<<self.bits_in_buffer -= zeros + 1;>> proof { assert forall|j: nat| j < {{M}} implies #[trigger] wbit(self.buffer as nat, j) == (j >= {{M}} - self.bits_in_buffer && sbit(false, &self.backend, self.pos() + {{M}} - 1 - j)) by { lemma_shl1_bits(b0, zeros as nat, j); } assert forall|t: int| 0 <= t < zeros implies !#[trigger] rbit(false, &old(self).backend, pos0, t) by { assert(!wbit(b0 as nat, ({{M}} - 1 - t) as nat)); } assert(wbit(b0 as nat, ({{M}} - 1 - zeros) as nat)); }
//@PROOF after=<<let mut result: u64 = self.bits_in_buffer as _;>> proof { assert forall|t: int| 0 <= t < nb0 implies !#[trigger] rbit(false, &old(self).backend, pos0, t) by { assert(!wbit(b0 as nat, ({{M}} - 1 - t) as nat)); } }
//@LOOP 1 invariant
//@LOOP 1     forall|i: nat| self.backend.word_at(i) == old(self).backend.word_at(i),
//@LOOP 1     self.backend.limit() == old(self).backend.limit(), self.backend.len() == old(self).backend.len(),
//@LOOP 1     self.backend.limit() * {{N}} + {{M}} <= u64::MAX,
//@LOOP 1     self.backend.cursor() <= self.backend.limit(),
//@LOOP 1     pos0 >= 0, pos0 == old(self).pos(),
//@LOOP 1     result == self.backend.cursor() * {{N}} - pos0,
//@LOOP 1     forall|t: int| 0 <= t < result ==> !#[trigger] rbit(false, &old(self).backend, pos0, t),
//@LOOP 1 decreases self.backend.limit() - self.backend.cursor(),
//@PROOF after=<<let new_word = self.backend.read_word()?.to_be();>> proof { lemma_lz_w(new_word); }
//@PROOF after=<<self.bits_in_buffer = {{N}}usize - zeros - 1;>> proof { assert forall|j: nat| j < {{M}} implies #[trigger] wbit(self.buffer as nat, j) == (j >= {{M}} - self.bits_in_buffer && sbit(false, &self.backend, self.pos() + {{M}} - 1 - j)) by { lemma_shl1_bits(new_word as {{BB}}, ({{N}} + zeros) as nat, j); if j >= {{N}} + 1 + zeros { lemma_upcast_bits(new_word, (j - {{N}} - 1 - zeros) as nat); lemma_sbit_word(false, &self.backend, (self.backend.cursor() - 1) as nat, zeros + {{M}} - j); } } assert forall|t: int| 0 <= t < result + zeros implies !#[trigger] rbit(false, &old(self).backend, pos0, t) by { if t >= result { lemma_sbit_word(false, &old(self).backend, (self.backend.cursor() - 1) as nat, t - result); assert(!wbit(new_word as nat, ({{N}} - 1 - (t - result)) as nat)); } } assert(wbit(new_word as nat, ({{N}} - 1 - zeros) as nat)); lemma_sbit_word(false, &old(self).backend, (self.backend.cursor() - 1) as nat, zeros as int); assert(rbit(false, &old(self).backend, pos0, result + zeros)); }
//@REPLACE <<result += {{N}}usize as u64;>> => <<proof { assert forall|t: int| 0 <= t < result + {{N}} implies !#[trigger] rbit(false, &old(self).backend, pos0, t) by { if t >= result { lemma_sbit_word(false, &old(self).backend, (self.backend.cursor() - 1) as nat, t - result); lemma_zero_bits(({{N}} - 1 - (t - result)) as nat); } } } result += {{N}}usize as u64;>>
//@END

//@FN file=src/impls/buf_bit_reader.rs item=/impl<WR: WordRead, RP: ReadParams> BitRead<BE> for BufBitReader<BE, WR, RP>/ name=skip_bits
//@ATTR #[verifier::loop_isolation(false)]
//@SIG fn skip_bits_be(&mut self, mut n_bits: usize) -> (r: Result<(), WR::Error>)
//@SPEC     requires old(self).inv(),
//@SPEC     ensures
//@SPEC         forall|i: nat| final(self).backend.word_at(i) == old(self).backend.word_at(i),
//@SPEC         r is Ok ==> final(self).inv() && final(self).pos() == old(self).pos() + n_bits,
//@SPEC         // C09: an error only if the skip needs a word beyond the end of the data
//@SPEC         r is Err ==> old(self).pos() + n_bits > old(self).backend.len() * {{N}},
//@INST <<UpcastableInto::<BB<WR>>::upcast(new_word)>> => <<(new_word as {{BB}})>>
//@INST <<BB::<WR>::BITS>> => <<{{M}}usize>>
//@INST <<WR::Word::BITS>> => <<{{N}}usize>>
//@PROLOGUE let ghost pos0 = self.pos(); let ghost nb0 = self.bits_in_buffer as int; let ghost b0 = self.buffer; let ghost n0 = n_bits as int;
//@PROOF after=<<self.buffer <<= n_bits;>> proof { assert forall|j: nat| j < {{M}} implies #[trigger] wbit(self.buffer as nat, j) == (j >= {{M}} - self.bits_in_buffer && sbit(false, &self.backend, self.pos() + {{M}} - 1 - j)) by { lemma_shl_bits(b0, n_bits as nat, j); } }
//@LOOP 1 invariant
//@LOOP 1     forall|i: nat| self.backend.word_at(i) == old(self).backend.word_at(i),
//@LOOP 1     self.backend.limit() == old(self).backend.limit(), self.backend.len() == old(self).backend.len(),
//@LOOP 1     self.backend.limit() * {{N}} + {{M}} <= u64::MAX,
//@LOOP 1     self.backend.cursor() <= self.backend.limit(),
//@LOOP 1     pos0 >= 0, pos0 == old(self).pos(), n_bits >= 1,
//@LOOP 1     self.backend.cursor() * {{N}} + n_bits == pos0 + n0,
//@LOOP 1 decreases n_bits,
//@EPILOGUE proof { assert forall|j: nat| j < {{M}} implies #[trigger] wbit(self.buffer as nat, j) == (j >= {{M}} - self.bits_in_buffer && sbit(false, &self.backend, self.pos() + {{M}} - 1 - j)) by { lemma_shl1_bits(new_word as {{BB}}, ({{M}} - 1 - self.bits_in_buffer) as nat, j); if j >= {{M}} - self.bits_in_buffer { lemma_upcast_bits(new_word, (j - ({{M}} - self.bits_in_buffer)) as nat); lemma_sbit_word(false, &self.backend, (self.backend.cursor() - 1) as nat, n_bits + {{M}} - 1 - j); } } }
//@END
}

// ---------------------------------------------------------------- LE
impl<WR: WordRead> BufBitReader<LE, WR> {
    spec fn pos(&self) -> int { self.backend.cursor() * {{N}} - self.bits_in_buffer }
    /// Inv_R: the low `bits_in_buffer` bits of the buffer are the next stream bits, the rest is zero
    spec fn inv(&self) -> bool {
        &&& self.bits_in_buffer < {{M}}
        &&& self.pos() >= 0
        &&& self.backend.limit() * {{N}} + {{M}} <= u64::MAX
        &&& self.backend.cursor() <= self.backend.limit()
        &&& forall|j: nat| j < {{M}} ==> #[trigger] wbit(self.buffer as nat, j) == (j < self.bits_in_buffer && sbit(true, &self.backend, self.pos() + j))
    }

//@FN file=src/impls/buf_bit_reader.rs item=/impl<WR: WordRead, RP: ReadParams> BitRead<LE> for BufBitReader<LE, WR, RP>/ name=read_unary
//@SIG fn read_unary_le(&mut self) -> (r: Result<u64, WR::Error>)
//@SPEC     requires old(self).inv(),
//@SPEC     ensures
//@SPEC         forall|i: nat| final(self).backend.word_at(i) == old(self).backend.word_at(i),
//@SPEC         r is Ok ==> {
//@SPEC             &&& final(self).inv()
//@SPEC             &&& final(self).pos() == old(self).pos() + r->Ok_0 + 1
//@SPEC             &&& forall|t: int| 0 <= t < r->Ok_0 ==> !#[trigger] rbit(true, &old(self).backend, old(self).pos(), t)
//@SPEC             &&& rbit(true, &old(self).backend, old(self).pos(), r->Ok_0 as int)
//@SPEC         },
//@SPEC         // C09: an error only if no one-bit remains before the end of the data
//@SPEC         r is Err ==> forall|t: int| 0 <= t && old(self).pos() + t < old(self).backend.len() * {{N}} ==> !#[trigger] rbit(true, &old(self).backend, old(self).pos(), t),
//@INST <<UpcastableInto::<BB<WR>>::upcast(new_word)>> => <<(new_word as {{BB}})>>
//@INST <<BB::<WR>::BITS>> => <<{{M}}usize>>
//@INST <<WR::Word::BITS>> => <<{{N}}usize>>
//@INST <<WR::Word::ZERO>> => <<(0 as {{W}})>>
//@PROLOGUE let ghost pos0 = self.pos(); let ghost nb0 = self.bits_in_buffer as int; let ghost b0 = self.buffer;
//@PROLOGUE proof { lemma_tz_bb(b0); }
//@PROOF after=<<self.bits_in_buffer -= zeros + 1;>> proof { assert forall|j: nat| j < {{M}} implies #[trigger] wbit(self.buffer as nat, j) == (j < self.bits_in_buffer && sbit(true, &self.backend, self.pos() + j)) by { lemma_shr1_bits(b0, zeros as nat, j); } assert forall|t: int| 0 <= t < zeros implies !#[trigger] rbit(true, &old(self).backend, pos0, t) by { assert(!wbit(b0 as nat, t as nat)); } assert(wbit(b0 as nat, zeros as nat)); }
//@PROOF after=<<let mut result: u64 = self.bits_in_buffer as _;>> proof { assert forall|t: int| 0 <= t < nb0 implies !#[trigger] rbit(true, &old(self).backend, pos0, t) by { assert(!wbit(b0 as nat, t as nat)); } }
//@LOOP 1 invariant
//@LOOP 1     forall|i: nat| self.backend.word_at(i) == old(self).backend.word_at(i),
//@LOOP 1     self.backend.limit() == old(self).backend.limit(), self.backend.len() == old(self).backend.len(),
//@LOOP 1     self.backend.limit() * {{N}} + {{M}} <= u64::MAX,
//@LOOP 1     self.backend.cursor() <= self.backend.limit(),
//@LOOP 1     pos0 >= 0, pos0 == old(self).pos(),
//@LOOP 1     result == self.backend.cursor() * {{N}} - pos0,
//@LOOP 1     forall|t: int| 0 <= t < result ==> !#[trigger] rbit(true, &old(self).backend, pos0, t),
//@LOOP 1 decreases self.backend.limit() - self.backend.cursor(),
//@PROOF after=<<let new_word = self.backend.read_word()?.to_le();>> proof { lemma_tz_w(new_word); }
//@PROOF after=<<self.bits_in_buffer = {{N}}usize - zeros - 1;>> proof { assert forall|j: nat| j < {{M}} implies #[trigger] wbit(self.buffer as nat, j) == (j < self.bits_in_buffer && sbit(true, &self.backend, self.pos() + j)) by { lemma_shr1_bits(new_word as {{BB}}, zeros as nat, j); if j + zeros + 1 < {{M}} { lemma_upcast_bits(new_word, (j + zeros + 1) as nat); if j + zeros + 1 < {{N}} { lemma_sbit_word(true, &self.backend, (self.backend.cursor() - 1) as nat, j + zeros + 1); } } } assert forall|t: int| 0 <= t < result + zeros implies !#[trigger] rbit(true, &old(self).backend, pos0, t) by { if t >= result { lemma_sbit_word(true, &old(self).backend, (self.backend.cursor() - 1) as nat, t - result); assert(!wbit(new_word as nat, (t - result) as nat)); } } assert(wbit(new_word as nat, zeros as nat)); lemma_sbit_word(true, &old(self).backend, (self.backend.cursor() - 1) as nat, zeros as int); assert(rbit(true, &old(self).backend, pos0, result + zeros)); }
//@REPLACE <<result += {{N}}usize as u64;>> => <<proof { assert forall|t: int| 0 <= t < result + {{N}} implies !#[trigger] rbit(true, &old(self).backend, pos0, t) by { if t >= result { lemma_sbit_word(true, &old(self).backend, (self.backend.cursor() - 1) as nat, t - result); lemma_zero_bits((t - result) as nat); } } } result += {{N}}usize as u64;>>
//@END

//@FN file=src/impls/buf_bit_reader.rs item=/impl<WR: WordRead, RP: ReadParams> BitRead<LE> for BufBitReader<LE, WR, RP>/ name=skip_bits
//@ATTR #[verifier::loop_isolation(false)]
//@SIG fn skip_bits_le(&mut self, mut n_bits: usize) -> (r: Result<(), WR::Error>)
//@SPEC     requires old(self).inv(),
//@SPEC     ensures
//@SPEC         forall|i: nat| final(self).backend.word_at(i) == old(self).backend.word_at(i),
//@SPEC         r is Ok ==> final(self).inv() && final(self).pos() == old(self).pos() + n_bits,
//@SPEC         // C09: an error only if the skip needs a word beyond the end of the data
//@SPEC         r is Err ==> old(self).pos() + n_bits > old(self).backend.len() * {{N}},
//@INST <<UpcastableInto::<BB<WR>>::upcast(new_word)>> => <<(new_word as {{BB}})>>
//@INST <<BB::<WR>::BITS>> => <<{{M}}usize>>
//@INST <<WR::Word::BITS>> => <<{{N}}usize>>
//@PROLOGUE let ghost pos0 = self.pos(); let ghost nb0 = self.bits_in_buffer as int; let ghost b0 = self.buffer; let ghost n0 = n_bits as int;
//@PROOF after=[[self.buffer >>= n_bits;]] proof { assert forall|j: nat| j < {{M}} implies #[trigger] wbit(self.buffer as nat, j) == (j < self.bits_in_buffer && sbit(true, &self.backend, self.pos() + j)) by { lemma_shr_bits(b0, n_bits as nat, j); } }
//@LOOP 1 invariant
//@LOOP 1     forall|i: nat| self.backend.word_at(i) == old(self).backend.word_at(i),
//@LOOP 1     self.backend.limit() == old(self).backend.limit(), self.backend.len() == old(self).backend.len(),
//@LOOP 1     self.backend.limit() * {{N}} + {{M}} <= u64::MAX,
//@LOOP 1     self.backend.cursor() <= self.backend.limit(),
//@LOOP 1     pos0 >= 0, pos0 == old(self).pos(), n_bits >= 1,
//@LOOP 1     self.backend.cursor() * {{N}} + n_bits == pos0 + n0,
//@LOOP 1 decreases n_bits,
//@EPILOGUE proof { assert forall|j: nat| j < {{M}} implies #[trigger] wbit(self.buffer as nat, j) == (j < self.bits_in_buffer && sbit(true, &self.backend, self.pos() + j)) by { lemma_shr_bits(new_word as {{BB}}, n_bits as nat, j); if j + n_bits < {{M}} { lemma_upcast_bits(new_word, (j + n_bits) as nat); if j + n_bits < {{N}} { lemma_sbit_word(true, &self.backend, (self.backend.cursor() - 1) as nat, j + n_bits); } } } }
//@END
}

} // verus!

fn main() {}
