// Unit C02/reader_unary: the real text of `BufBitReader::{read_unary, skip_bits}`
// (BE and LE impls, src/impls/buf_bit_reader.rs) under the reader contract of
// DESIGN 2.1, with UNBOUNDED word loops (the Kani obligations c02.read_unary.* /
// c02.skip_bits.* are bounded by the ghost backend window).
//
// Template parameters (word-type instantiation, one unit per backend word):
//   {{W}} = backend word type, {{N}} = its width, {{BB}} = the double-width bit
//   buffer type (`BB<WR>`), {{M}} = 2*{{N}}, {{LZINC}} = include providing the
//   count-zeros specification for u128 (absent from vstd).
// `WR::Word`, `BB<WR>` and `UpcastableInto::<BB<WR>>::upcast` of the real text are
// replaced textually (//@INST lines).
use vstd::prelude::*;
use vstd::arithmetic::power2::*;
use vstd::arithmetic::div_mod::*;
use vstd::bits::*;
use vstd::std_specs::bits::*;

verus! {

global size_of usize == 8;

pub struct BE;
pub struct LE;

//@INCLUDE reader_defs.inc

// ---------------------------------------------------------------- BE
impl<WR: WordRead> BufBitReader<BE, WR> {
    /// the position of the reader in the stream
    spec fn pos(&self) -> int { self.backend.cursor() * {{N}} - self.bits_in_buffer }
    /// Inv_R: the top `bits_in_buffer` bits of the buffer are the next stream bits, the rest is zero
    spec fn inv(&self) -> bool {
        &&& self.bits_in_buffer < {{M}}
        &&& self.pos() >= 0
        &&& self.backend.limit() * {{N}} + {{M}} <= u64::MAX
        &&& self.backend.cursor() <= self.backend.limit()
        &&& forall|j: nat| j < {{M}} ==> #[trigger] wbit(self.buffer as nat, j) == (j >= {{M}} - self.bits_in_buffer && sbit(false, self.backend.data(), self.pos() + {{M}} - 1 - j))
    }

//@FN file=src/impls/buf_bit_reader.rs item=/impl<WR: WordRead, RP: ReadParams> BitRead<BE> for BufBitReader<BE, WR, RP>/ name=read_unary
//@SIG fn read_unary_be(&mut self) -> (r: Result<u64, WR::Error>)
//@SPEC     requires old(self).inv(),
//@SPEC     ensures
//@SPEC         final(self).backend.data() == old(self).backend.data(),
//@SPEC         r is Ok ==> {
//@SPEC             &&& final(self).inv()
//@SPEC             &&& final(self).pos() == old(self).pos() + r->Ok_0 + 1
//@SPEC             &&& forall|t: int| 0 <= t < r->Ok_0 ==> !#[trigger] rbit(false, old(self).backend.data(), old(self).pos(), t)
//@SPEC             &&& rbit(false, old(self).backend.data(), old(self).pos(), r->Ok_0 as int)
//@SPEC         },
//@SPEC         // C09: an error only if no one-bit remains before the end of the data
//@SPEC         r is Err ==> forall|t: int| 0 <= t && old(self).pos() + t < old(self).backend.len() * {{N}} ==> !#[trigger] rbit(false, old(self).backend.data(), old(self).pos(), t),
//@INST <<UpcastableInto::<BB<WR>>::upcast(new_word)>> => <<(new_word as {{BB}})>>
//@INST <<BB::<WR>::BITS>> => <<{{M}}usize>>
//@INST <<WR::Word::BITS>> => <<{{N}}usize>>
//@INST <<WR::Word::ZERO>> => <<(0 as {{W}})>>
//@PROLOGUE let ghost pos0 = self.pos(); let ghost nb0 = self.bits_in_buffer as int; let ghost b0 = self.buffer;
//@PROLOGUE proof { lemma_lz_bb(b0); }
//@PROOF after=<<self.bits_in_buffer -= zeros + 1;>> proof { assert forall|j: nat| j < {{M}} implies #[trigger] wbit(self.buffer as nat, j) == (j >= {{M}} - self.bits_in_buffer && sbit(false, self.backend.data(), self.pos() + {{M}} - 1 - j)) by { lemma_shl1_bits(b0, zeros as nat, j); } assert forall|t: int| 0 <= t < zeros implies !#[trigger] rbit(false, old(self).backend.data(), pos0, t) by { assert(!wbit(b0 as nat, ({{M}} - 1 - t) as nat)); } assert(wbit(b0 as nat, ({{M}} - 1 - zeros) as nat)); }
//@PROOF after=<<let mut result: u64 = self.bits_in_buffer as _;>> proof { assert forall|t: int| 0 <= t < nb0 implies !#[trigger] rbit(false, old(self).backend.data(), pos0, t) by { assert(!wbit(b0 as nat, ({{M}} - 1 - t) as nat)); } }
//@LOOP 1 invariant
//@LOOP 1     self.backend.data() == old(self).backend.data(),
//@LOOP 1     self.backend.limit() == old(self).backend.limit(), self.backend.len() == old(self).backend.len(),
//@LOOP 1     self.backend.limit() * {{N}} + {{M}} <= u64::MAX,
//@LOOP 1     self.backend.cursor() <= self.backend.limit(),
//@LOOP 1     pos0 >= 0, pos0 == old(self).pos(),
//@LOOP 1     result == self.backend.cursor() * {{N}} - pos0,
//@LOOP 1     forall|t: int| 0 <= t < result ==> !#[trigger] rbit(false, old(self).backend.data(), pos0, t),
//@LOOP 1 decreases self.backend.limit() - self.backend.cursor(),
//@PROOF after=<<let new_word = self.backend.read_word()?.to_be();>> proof { lemma_lz_w(new_word); }
//@PROOF after=<<self.bits_in_buffer = {{N}}usize - zeros - 1;>> proof { assert forall|j: nat| j < {{M}} implies #[trigger] wbit(self.buffer as nat, j) == (j >= {{M}} - self.bits_in_buffer && sbit(false, self.backend.data(), self.pos() + {{M}} - 1 - j)) by { lemma_shl1_bits(new_word as {{BB}}, ({{N}} + zeros) as nat, j); if j >= {{N}} + 1 + zeros { lemma_upcast_bits(new_word, (j - {{N}} - 1 - zeros) as nat); lemma_sbit_word(false, self.backend.data(), (self.backend.cursor() - 1) as nat, zeros + {{M}} - j); } } assert forall|t: int| 0 <= t < result + zeros implies !#[trigger] rbit(false, old(self).backend.data(), pos0, t) by { if t >= result { lemma_sbit_word(false, old(self).backend.data(), (self.backend.cursor() - 1) as nat, t - result); assert(!wbit(new_word as nat, ({{N}} - 1 - (t - result)) as nat)); } } assert(wbit(new_word as nat, ({{N}} - 1 - zeros) as nat)); lemma_sbit_word(false, old(self).backend.data(), (self.backend.cursor() - 1) as nat, zeros as int); assert(rbit(false, old(self).backend.data(), pos0, result + zeros)); }
//@REPLACE <<result += {{N}}usize as u64;>> => <<proof { assert forall|t: int| 0 <= t < result + {{N}} implies !#[trigger] rbit(false, old(self).backend.data(), pos0, t) by { if t >= result { lemma_sbit_word(false, old(self).backend.data(), (self.backend.cursor() - 1) as nat, t - result); lemma_zero_bits(({{N}} - 1 - (t - result)) as nat); } } } result += {{N}}usize as u64;>>
//@END

//@FN file=src/impls/buf_bit_reader.rs item=/impl<WR: WordRead, RP: ReadParams> BitRead<BE> for BufBitReader<BE, WR, RP>/ name=skip_bits
//@ATTR #[verifier::loop_isolation(false)]
//@SIG fn skip_bits_be(&mut self, mut n_bits: usize) -> (r: Result<(), WR::Error>)
//@SPEC     requires old(self).inv(),
//@SPEC     ensures
//@SPEC         final(self).backend.data() == old(self).backend.data(),
//@SPEC         r is Ok ==> final(self).inv() && final(self).pos() == old(self).pos() + n_bits,
//@SPEC         // C09: an error only if the skip needs a word beyond the end of the data
//@SPEC         r is Err ==> old(self).pos() + n_bits > old(self).backend.len() * {{N}},
//@INST <<UpcastableInto::<BB<WR>>::upcast(new_word)>> => <<(new_word as {{BB}})>>
//@INST <<BB::<WR>::BITS>> => <<{{M}}usize>>
//@INST <<WR::Word::BITS>> => <<{{N}}usize>>
//@PROLOGUE let ghost pos0 = self.pos(); let ghost nb0 = self.bits_in_buffer as int; let ghost b0 = self.buffer; let ghost n0 = n_bits as int;
//@PROOF after=<<self.buffer <<= n_bits;>> proof { assert forall|j: nat| j < {{M}} implies #[trigger] wbit(self.buffer as nat, j) == (j >= {{M}} - self.bits_in_buffer && sbit(false, self.backend.data(), self.pos() + {{M}} - 1 - j)) by { lemma_shl_bits(b0, n_bits as nat, j); } }
//@LOOP 1 invariant
//@LOOP 1     self.backend.data() == old(self).backend.data(),
//@LOOP 1     self.backend.limit() == old(self).backend.limit(), self.backend.len() == old(self).backend.len(),
//@LOOP 1     self.backend.limit() * {{N}} + {{M}} <= u64::MAX,
//@LOOP 1     self.backend.cursor() <= self.backend.limit(),
//@LOOP 1     pos0 >= 0, pos0 == old(self).pos(), n_bits >= 1,
//@LOOP 1     self.backend.cursor() * {{N}} + n_bits == pos0 + n0,
//@LOOP 1 decreases n_bits,
//@EPILOGUE proof { assert forall|j: nat| j < {{M}} implies #[trigger] wbit(self.buffer as nat, j) == (j >= {{M}} - self.bits_in_buffer && sbit(false, self.backend.data(), self.pos() + {{M}} - 1 - j)) by { lemma_shl1_bits(new_word as {{BB}}, ({{M}} - 1 - self.bits_in_buffer) as nat, j); if j >= {{M}} - self.bits_in_buffer { lemma_upcast_bits(new_word, (j - ({{M}} - self.bits_in_buffer)) as nat); lemma_sbit_word(false, self.backend.data(), (self.backend.cursor() - 1) as nat, n_bits + {{M}} - 1 - j); } } }
//@END
}

// ---------------------------------------------------------------- LE
impl<WR: WordRead> BufBitReader<LE, WR> {
    spec fn pos(&self) -> int { self.backend.cursor() * {{N}} - self.bits_in_buffer }
    /// Inv_R: the low `bits_in_buffer` bits of the buffer are the next stream bits, the rest is zero
    spec fn inv(&self) -> bool {
        &&& self.bits_in_buffer < {{M}}
        &&& self.pos() >= 0
        &&& self.backend.limit() * {{N}} + {{M}} <= u64::MAX
        &&& self.backend.cursor() <= self.backend.limit()
        &&& forall|j: nat| j < {{M}} ==> #[trigger] wbit(self.buffer as nat, j) == (j < self.bits_in_buffer && sbit(true, self.backend.data(), self.pos() + j))
    }

//@FN file=src/impls/buf_bit_reader.rs item=/impl<WR: WordRead, RP: ReadParams> BitRead<LE> for BufBitReader<LE, WR, RP>/ name=read_unary
//@SIG fn read_unary_le(&mut self) -> (r: Result<u64, WR::Error>)
//@SPEC     requires old(self).inv(),
//@SPEC     ensures
//@SPEC         final(self).backend.data() == old(self).backend.data(),
//@SPEC         r is Ok ==> {
//@SPEC             &&& final(self).inv()
//@SPEC             &&& final(self).pos() == old(self).pos() + r->Ok_0 + 1
//@SPEC             &&& forall|t: int| 0 <= t < r->Ok_0 ==> !#[trigger] rbit(true, old(self).backend.data(), old(self).pos(), t)
//@SPEC             &&& rbit(true, old(self).backend.data(), old(self).pos(), r->Ok_0 as int)
//@SPEC         },
//@SPEC         // C09: an error only if no one-bit remains before the end of the data
//@SPEC         r is Err ==> forall|t: int| 0 <= t && old(self).pos() + t < old(self).backend.len() * {{N}} ==> !#[trigger] rbit(true, old(self).backend.data(), old(self).pos(), t),
//@INST <<UpcastableInto::<BB<WR>>::upcast(new_word)>> => <<(new_word as {{BB}})>>
//@INST <<BB::<WR>::BITS>> => <<{{M}}usize>>
//@INST <<WR::Word::BITS>> => <<{{N}}usize>>
//@INST <<WR::Word::ZERO>> => <<(0 as {{W}})>>
//@PROLOGUE let ghost pos0 = self.pos(); let ghost nb0 = self.bits_in_buffer as int; let ghost b0 = self.buffer;
//@PROLOGUE proof { lemma_tz_bb(b0); }
//@PROOF after=<<self.bits_in_buffer -= zeros + 1;>> proof { assert forall|j: nat| j < {{M}} implies #[trigger] wbit(self.buffer as nat, j) == (j < self.bits_in_buffer && sbit(true, self.backend.data(), self.pos() + j)) by { lemma_shr1_bits(b0, zeros as nat, j); } assert forall|t: int| 0 <= t < zeros implies !#[trigger] rbit(true, old(self).backend.data(), pos0, t) by { assert(!wbit(b0 as nat, t as nat)); } assert(wbit(b0 as nat, zeros as nat)); }
//@PROOF after=<<let mut result: u64 = self.bits_in_buffer as _;>> proof { assert forall|t: int| 0 <= t < nb0 implies !#[trigger] rbit(true, old(self).backend.data(), pos0, t) by { assert(!wbit(b0 as nat, t as nat)); } }
//@LOOP 1 invariant
//@LOOP 1     self.backend.data() == old(self).backend.data(),
//@LOOP 1     self.backend.limit() == old(self).backend.limit(), self.backend.len() == old(self).backend.len(),
//@LOOP 1     self.backend.limit() * {{N}} + {{M}} <= u64::MAX,
//@LOOP 1     self.backend.cursor() <= self.backend.limit(),
//@LOOP 1     pos0 >= 0, pos0 == old(self).pos(),
//@LOOP 1     result == self.backend.cursor() * {{N}} - pos0,
//@LOOP 1     forall|t: int| 0 <= t < result ==> !#[trigger] rbit(true, old(self).backend.data(), pos0, t),
//@LOOP 1 decreases self.backend.limit() - self.backend.cursor(),
//@PROOF after=<<let new_word = self.backend.read_word()?.to_le();>> proof { lemma_tz_w(new_word); }
//@PROOF after=<<self.bits_in_buffer = {{N}}usize - zeros - 1;>> proof { assert forall|j: nat| j < {{M}} implies #[trigger] wbit(self.buffer as nat, j) == (j < self.bits_in_buffer && sbit(true, self.backend.data(), self.pos() + j)) by { lemma_shr1_bits(new_word as {{BB}}, zeros as nat, j); if j + zeros + 1 < {{M}} { lemma_upcast_bits(new_word, (j + zeros + 1) as nat); if j + zeros + 1 < {{N}} { lemma_sbit_word(true, self.backend.data(), (self.backend.cursor() - 1) as nat, j + zeros + 1); } } } assert forall|t: int| 0 <= t < result + zeros implies !#[trigger] rbit(true, old(self).backend.data(), pos0, t) by { if t >= result { lemma_sbit_word(true, old(self).backend.data(), (self.backend.cursor() - 1) as nat, t - result); assert(!wbit(new_word as nat, (t - result) as nat)); } } assert(wbit(new_word as nat, zeros as nat)); lemma_sbit_word(true, old(self).backend.data(), (self.backend.cursor() - 1) as nat, zeros as int); assert(rbit(true, old(self).backend.data(), pos0, result + zeros)); }
//@REPLACE <<result += {{N}}usize as u64;>> => <<proof { assert forall|t: int| 0 <= t < result + {{N}} implies !#[trigger] rbit(true, old(self).backend.data(), pos0, t) by { if t >= result { lemma_sbit_word(true, old(self).backend.data(), (self.backend.cursor() - 1) as nat, t - result); lemma_zero_bits((t - result) as nat); } } } result += {{N}}usize as u64;>>
//@END

//@FN file=src/impls/buf_bit_reader.rs item=/impl<WR: WordRead, RP: ReadParams> BitRead<LE> for BufBitReader<LE, WR, RP>/ name=skip_bits
//@ATTR #[verifier::loop_isolation(false)]
//@SIG fn skip_bits_le(&mut self, mut n_bits: usize) -> (r: Result<(), WR::Error>)
//@SPEC     requires old(self).inv(),
//@SPEC     ensures
//@SPEC         final(self).backend.data() == old(self).backend.data(),
//@SPEC         r is Ok ==> final(self).inv() && final(self).pos() == old(self).pos() + n_bits,
//@SPEC         // C09: an error only if the skip needs a word beyond the end of the data
//@SPEC         r is Err ==> old(self).pos() + n_bits > old(self).backend.len() * {{N}},
//@INST <<UpcastableInto::<BB<WR>>::upcast(new_word)>> => <<(new_word as {{BB}})>>
//@INST <<BB::<WR>::BITS>> => <<{{M}}usize>>
//@INST <<WR::Word::BITS>> => <<{{N}}usize>>
//@PROLOGUE let ghost pos0 = self.pos(); let ghost nb0 = self.bits_in_buffer as int; let ghost b0 = self.buffer; let ghost n0 = n_bits as int;
//@PROOF after=[[self.buffer >>= n_bits;]] proof { assert forall|j: nat| j < {{M}} implies #[trigger] wbit(self.buffer as nat, j) == (j < self.bits_in_buffer && sbit(true, self.backend.data(), self.pos() + j)) by { lemma_shr_bits(b0, n_bits as nat, j); } }
//@LOOP 1 invariant
//@LOOP 1     self.backend.data() == old(self).backend.data(),
//@LOOP 1     self.backend.limit() == old(self).backend.limit(), self.backend.len() == old(self).backend.len(),
//@LOOP 1     self.backend.limit() * {{N}} + {{M}} <= u64::MAX,
//@LOOP 1     self.backend.cursor() <= self.backend.limit(),
//@LOOP 1     pos0 >= 0, pos0 == old(self).pos(), n_bits >= 1,
//@LOOP 1     self.backend.cursor() * {{N}} + n_bits == pos0 + n0,
//@LOOP 1 decreases n_bits,
//@EPILOGUE proof { assert forall|j: nat| j < {{M}} implies #[trigger] wbit(self.buffer as nat, j) == (j < self.bits_in_buffer && sbit(true, self.backend.data(), self.pos() + j)) by { lemma_shr_bits(new_word as {{BB}}, n_bits as nat, j); if j + n_bits < {{M}} { lemma_upcast_bits(new_word, (j + n_bits) as nat); if j + n_bits < {{N}} { lemma_sbit_word(true, self.backend.data(), (self.backend.cursor() - 1) as nat, j + n_bits); } } } }
//@END
}

} // verus!

fn main() {}
