// Unit C03-C04-C06/minimal_binary: the real text of `len_minimal_binary`,
// `MinimalBinaryWrite::write_minimal_binary` and `MinimalBinaryRead::read_minimal_binary`
// (src/codes/minimal_binary.rs) against the trait contracts, for EVERY upper
// bound `max` in 1..2^64 and every value (the SAT engine only covers a grid of bounds).
use vstd::prelude::*;
use vstd::arithmetic::power2::*;
use vstd::arithmetic::div_mod::*;
use vstd::bits::*;

verus! {

//@INCLUDE prelude.inc

// discharged by the Kani obligation std_spec::ilog2 (loop-free, all 2^64 values)
pub assume_specification[ u64::ilog2 ](n: u64) -> (r: u32)
    requires n > 0,
    ensures r < 64, pow2(r as nat) <= n, (n as nat) < pow2((r + 1) as nat),
;

pub open spec fn log2f(max: u64) -> nat
    recommends max > 0
{
    choose|l: nat| l < 64 && #[trigger] pow2(l) <= max && (max as nat) < pow2(l + 1)
}
pub open spec fn mb_limit(max: u64) -> nat {
    (2 * pow2(log2f(max)) - max) as nat
}
pub open spec fn mb_len(n: u64, max: u64) -> nat {
    if max == 0 { 0 } else if n < mb_limit(max) { log2f(max) } else { log2f(max) + 1 }
}
/// the minimal binary codeword of n < max as stream bits
pub open spec fn mb_bits(le: bool, n: u64, max: u64) -> Seq<bool> {
    let l = log2f(max);
    let limit = mb_limit(max);
    if n < limit {
        field(le, n, l)
    } else {
        let t = (n + limit) as u64;
        field(le, t / 2, l) + field(le, t % 2, 1)
    }
}

proof fn lemma_log2_unique(max: u64, a: nat, b: nat)
    requires a < 64, b < 64, pow2(a) <= max, (max as nat) < pow2(a + 1), pow2(b) <= max, (max as nat) < pow2(b + 1),
    ensures a == b,
{
    if a < b {
        if a + 1 < b { lemma_pow2_strictly_increases(a + 1, b); }
    } else if b < a {
        if b + 1 < a { lemma_pow2_strictly_increases(b + 1, a); }
    }
}
proof fn lemma_log2f(max: u64, l: nat)
    requires max > 0, l < 64, pow2(l) <= max, (max as nat) < pow2(l + 1),
    ensures log2f(max) == l,
{
    lemma_log2_unique(max, log2f(max), l);
}

/// limit computation shared by the three functions
proof fn lemma_limit(max: u64, l: u32, limit: u64)
    requires max > 0, l < 64, pow2(l as nat) <= max, (max as nat) < pow2((l + 1) as nat),
        limit == ((1_u64 << l) << 1).wrapping_sub(max),
    ensures log2f(max) == l, limit == mb_limit(max), 1 <= limit <= pow2(l as nat), limit + max == 2 * pow2(l as nat),
        2 * pow2(l as nat) <= 0x1_0000_0000_0000_0000,
{
    lemma_log2f(max, l as nat);
    lemma_u64_shl_is_mul(1, l as u64);
    lemma_pow2_unfold((l + 1) as nat);
    lemma2_to64();
    if l < 63 {
        lemma_pow2_strictly_increases((l + 1) as nat, 64);
        lemma_u64_shl_is_mul((1u64 << l), 1);
    } else {
        assert(pow2(64) == 2 * pow2(63)) by { lemma_pow2_unfold(64); }
        assert(((1u64 << 63) << 1) == 0) by (bit_vector);
    }
}

/// the bits of a value below 2^n determine it
pub proof fn lemma_bits_determine(a: u64, b: u64, n: nat)
    requires
        (a as nat) < pow2(n), (b as nat) < pow2(n),
        forall|i: nat| i < n ==> bit_of(a, i) == bit_of(b, i),
    ensures a == b,
    decreases n,
{
    lemma2_to64();
    if n == 0 {
        assert(pow2(0) == 1);
    } else {
        lemma_pow2_unfold(n);
        let a2 = (a / 2) as u64;
        let b2 = (b / 2) as u64;
        assert((a2 as nat) < pow2((n - 1) as nat));
        assert((b2 as nat) < pow2((n - 1) as nat));
        assert forall|i: nat| i < (n - 1) as nat implies bit_of(a2, i) == bit_of(b2, i) by {
            lemma_pow2_unfold(i + 1);
            lemma_pow2_pos(i);
            lemma_div_denominator(a as int, 2, pow2(i) as int);
            lemma_div_denominator(b as int, 2, pow2(i) as int);
            assert(bit_of(a, i + 1) == bit_of(b, i + 1));
        }
        lemma_bits_determine(a2, b2, (n - 1) as nat);
        assert(bit_of(a, 0) == bit_of(b, 0));
        assert(pow2(0) == 1);
        assert(a % 2 == b % 2);
    }
}

pub proof fn lemma_field_injective(le: bool, a: u64, b: u64, n: nat)
    requires (a as nat) < pow2(n), (b as nat) < pow2(n), field(le, a, n) == field(le, b, n),
    ensures a == b,
{
    assert forall|i: nat| i < n implies bit_of(a, i) == bit_of(b, i) by {
        let j: int = if le { i as int } else { (n - 1 - i) as int };
        assert(0 <= j < n);
        assert(field(le, a, n)[j] == (if le { bit_of(a, j as nat) } else { bit_of(a, (n - 1 - j) as nat) }));
        assert(field(le, b, n)[j] == (if le { bit_of(b, j as nat) } else { bit_of(b, (n - 1 - j) as nat) }));
    }
    lemma_bits_determine(a, b, n);
}


//@FN file=src/codes/minimal_binary.rs item=- name=len_minimal_binary
//@SIG pub fn len_minimal_binary(n: u64, max: u64) -> (r: usize)
//@SPEC     ensures r == mb_len(n, max),
//@PROOF after=<<let limit = ((1_u64 << l) << 1).wrapping_sub(max);>> proof { lemma_limit(max, l, limit); }
//@END

pub trait MinimalBinaryWrite<E: Endianness>: BitWrite<E> {
//@FN file=src/codes/minimal_binary.rs item=/pub trait MinimalBinaryWrite<E: Endianness>: BitWrite<E>/ name=write_minimal_binary
//@SIG fn write_minimal_binary(&mut self, n: u64, max: u64) -> (r: Result<usize, Self::Error>)
//@SPEC     requires max > 0, n < max,
//@SPEC     ensures r is Ok ==> r->Ok_0 == mb_len(n, max) && final(self).view() == old(self).view() + mb_bits(E::little(), n, max),
//@PROOF after=<<let limit = ((1_u64 << l) << 1).wrapping_sub(max);>> proof { lemma_limit(max, l, limit); lemma_pow2_strictly_increases(l as nat, 64); lemma2_to64(); }
//@PROOF after=<<let to_write = n + limit;>> proof { assert(to_write >> 1 == to_write / 2) by (bit_vector); assert(to_write & 1 == to_write % 2) by (bit_vector); }
//@PROOF after=<<self.write_bits(to_write & 1, 1)?;>> proof { assert(final(self).view() =~= old(self).view() + (field(E::little(), to_write / 2, l as nat) + field(E::little(), to_write % 2, 1))); }
//@END
}

pub trait MinimalBinaryRead<E: Endianness>: BitRead<E> {
//@FN file=src/codes/minimal_binary.rs item=/pub trait MinimalBinaryRead<E: Endianness>: BitRead<E>/ name=read_minimal_binary
//@SIG fn read_minimal_binary(&mut self, max: u64) -> (r: Result<u64, Self::Error>)
//@SPEC     requires max > 0, old(self).pos() <= old(self).stream().len(),
//@SPEC     ensures
//@SPEC         final(self).stream() == old(self).stream(),
//@SPEC         final(self).pos() <= final(self).stream().len(),
//@SPEC         // on a stream that continues with the codeword of some x < max, x is returned
//@SPEC         // and the reader stops exactly at the end of the codeword
//@SPEC         r is Ok ==> forall|x: u64| x < max
//@SPEC             && old(self).pos() + mb_len(x, max) <= old(self).stream().len()
//@SPEC             && old(self).stream().subrange(old(self).pos() as int, (old(self).pos() + mb_len(x, max)) as int) == mb_bits(E::little(), x, max)
//@SPEC             ==> r->Ok_0 == x && final(self).pos() == old(self).pos() + mb_len(x, max),
//@REPLACE <<prefix |= self.read_bits(1)?;>> => <<let low = self.read_bits(1)?; prefix |= low;>>
//@PROOF after=<<let limit = ((1_u64 << l) << 1).wrapping_sub(max);>> proof { lemma_limit(max, l, limit); lemma_pow2_strictly_increases(l as nat, 64); lemma2_to64(); lemma_read_short::<E>(old(self).stream(), old(self).pos() as int, self.pos() as int, prefix, max, l, limit); }
//@PROOF after=<<let limit = ((1_u64 << l) << 1).wrapping_sub(max);>> let ghost prefix0 = prefix;
//@PROOF after=<<prefix |= low;>> proof { lemma_read_long::<E>(old(self).stream(), old(self).pos() as int, self.pos() as int, prefix0, low, prefix, max, l, limit); }
//@END
}

/// decoding of a short codeword (first branch of read_minimal_binary)
pub proof fn lemma_read_short<E: Endianness>(s: Seq<bool>, p: int, pos1: int, prefix: u64, max: u64, l: u32, limit: u64)
    requires
        max > 0, l < 64, log2f(max) == l, limit == mb_limit(max), 1 <= limit <= pow2(l as nat), limit + max == 2 * pow2(l as nat),
        2 * pow2(l as nat) <= 0x1_0000_0000_0000_0000,
        0 <= p, p + l <= s.len(), pos1 == p + l,
        (prefix as nat) < pow2(l as nat),
        field(E::little(), prefix, l as nat) == s.subrange(p, p + l),
    ensures
        prefix < limit ==> forall|x: u64| x < max && p + mb_len(x, max) <= s.len() && s.subrange(p, (p + mb_len(x, max)) as int) == mb_bits(E::little(), x, max)
            ==> prefix == x && pos1 == p + mb_len(x, max),
{
    let le = E::little();
    if prefix < limit {
        assert forall|x: u64| x < max && p + mb_len(x, max) <= s.len() && s.subrange(p, (p + mb_len(x, max)) as int) == mb_bits(le, x, max)
            implies prefix == x && pos1 == p + mb_len(x, max) by {
            if x < limit {
                lemma_field_injective(le, prefix, x, l as nat);
            } else {
                let t = (x + limit) as u64;
                assert(s.subrange(p, p + l) =~= mb_bits(le, x, max).subrange(0, l as int));
                assert(mb_bits(le, x, max).subrange(0, l as int) =~= field(le, t / 2, l as nat));
                lemma_field_injective(le, prefix, t / 2, l as nat);
                assert(false);
            }
        }
    }
}

/// decoding of a long codeword (second branch)
pub proof fn lemma_read_long<E: Endianness>(s: Seq<bool>, p: int, pos2: int, prefix0: u64, low: u64, prefix: u64, max: u64, l: u32, limit: u64)
    requires
        max > 0, l < 64, log2f(max) == l, limit == mb_limit(max), 1 <= limit <= pow2(l as nat), limit + max == 2 * pow2(l as nat),
        2 * pow2(l as nat) <= 0x1_0000_0000_0000_0000,
        0 <= p, p + l + 1 <= s.len(), pos2 == p + l + 1,
        (prefix0 as nat) < pow2(l as nat), prefix0 >= limit,
        field(E::little(), prefix0, l as nat) == s.subrange(p, p + l),
        low < 2,
        field(E::little(), low, 1) == s.subrange(p + l, p + l + 1),
        prefix == (prefix0 << 1) | low,
    ensures
        prefix >= limit,
        forall|x: u64| x < max && p + mb_len(x, max) <= s.len() && s.subrange(p, (p + mb_len(x, max)) as int) == mb_bits(E::little(), x, max)
            ==> prefix - limit == x && pos2 == p + mb_len(x, max),
{
    let le = E::little();
    lemma_pow2_strictly_increases(l as nat, 64);
    lemma2_to64();
    lemma2_to64_rest();
    assert(prefix0 < 0x8000_0000_0000_0000) by {
        if l < 63 { lemma_pow2_strictly_increases(l as nat, 63); }
    }
    assert(((prefix0 << 1) | low) == 2 * prefix0 + low) by (bit_vector)
        requires prefix0 < 0x8000_0000_0000_0000, low < 2;
    assert forall|x: u64| x < max && p + mb_len(x, max) <= s.len() && s.subrange(p, (p + mb_len(x, max)) as int) == mb_bits(le, x, max)
        implies prefix - limit == x && pos2 == p + mb_len(x, max) by {
        if x < limit {
            lemma_field_injective(le, prefix0, x, l as nat);
            assert(false);
        } else {
            let t = (x + limit) as u64;
            let w = mb_bits(le, x, max);
            assert(w == field(le, t / 2, l as nat) + field(le, t % 2, 1));
            assert(s.subrange(p, p + l) =~= w.subrange(0, l as int));
            assert(w.subrange(0, l as int) =~= field(le, t / 2, l as nat));
            lemma_field_injective(le, prefix0, t / 2, l as nat);
            assert(s.subrange(p + l, p + l + 1) =~= w.subrange(l as int, l + 1));
            assert(w.subrange(l as int, l + 1) =~= field(le, t % 2, 1));
            lemma_field_injective(le, low, t % 2, 1);
        }
    }
}

} // verus!

fn main() {}
