// Unit C01/writer_unary: the real text of `BufBitWriter::write_unary` (BE and LE
// impls, src/impls/buf_bit_writer.rs) under the stream-view contract of DESIGN
// 2.1, for EVERY value below 2^64-1 (the zero-word loop is unbounded here; the
// Kani obligation c01.write_unary.* is bounded by the ghost window).
//
// Template parameters (word-type instantiation, one unit per backend word):
//   {{W}} = the backend word type, {{BITS}} = its width.
// The generic `WW::Word` of the real text is replaced textually by {{W}} (//@INST
// lines); the trait `WordWrite` is the contract-carrying declaration below.
use vstd::prelude::*;
use vstd::arithmetic::power2::*;
use vstd::arithmetic::div_mod::*;
use vstd::bits::*;

verus! {

global size_of usize == 8;

/// bit `i` of `v`
pub open spec fn wbit(v: nat, i: nat) -> bool {
    (v / pow2(i)) % 2 == 1
}

/// the n low bits of v, MSB first (BE) / LSB first (LE)
pub open spec fn wfield(le: bool, v: nat, n: nat) -> Seq<bool> {
    Seq::new(n, |i: int| if le { wbit(v, i as nat) } else { wbit(v, (n - 1 - i) as nat) })
}

/// the p pending bits of a writer buffer in stream order: BE keeps them in the
/// p low bits (oldest = most significant of those), LE in the p high bits
/// (oldest = least significant of those)
pub open spec fn wpending(le: bool, b: nat, p: nat) -> Seq<bool> {
    Seq::new(p, |i: int| if le { wbit(b, ({{BITS}} - p + i) as nat) } else { wbit(b, (p - 1 - i) as nat) })
}

pub open spec fn unary(x: nat) -> Seq<bool> {
    Seq::new(x + 1, |i: int| i == x)
}

pub open spec fn zeros(n: nat) -> Seq<bool> {
    Seq::new(n, |i: int| false)
}

pub struct BE;
pub struct LE;

// byte-order conversions: uninterpreted, with the two facts the proof needs
// (discharged for every value by the Kani obligations std_spec.to_be_* / to_le_*)
pub uninterp spec fn spec_to_be(x: {{W}}) -> {{W}};
pub uninterp spec fn spec_from_be(x: {{W}}) -> {{W}};
pub uninterp spec fn spec_to_le(x: {{W}}) -> {{W}};
pub uninterp spec fn spec_from_le(x: {{W}}) -> {{W}};
pub assume_specification[ {{W}}::to_be ](x: {{W}}) -> (r: {{W}}) ensures r == spec_to_be(x);
pub assume_specification[ {{W}}::to_le ](x: {{W}}) -> (r: {{W}}) ensures r == spec_to_le(x);
#[verifier::external_body]
pub proof fn axiom_be(x: {{W}}) ensures spec_from_be(spec_to_be(x)) == x, spec_to_be(0) == 0 {}
#[verifier::external_body]
pub proof fn axiom_le(x: {{W}}) ensures spec_from_le(spec_to_le(x)) == x, spec_to_le(0) == 0 {}

/// the stream bits of a sequence of delivered words (canonical image: a word
/// delivered by a BE writer is `x.to_be()`, whose memory bytes are x's bytes most
/// significant first; by an LE writer `x.to_le()`)
pub open spec fn words_bits(le: bool, ws: Seq<{{W}}>) -> Seq<bool> decreases ws.len() {
    if ws.len() == 0 { Seq::empty() } else {
        words_bits(le, ws.drop_last()) + wfield(le, (if le { spec_from_le(ws.last()) } else { spec_from_be(ws.last()) }) as nat, {{BITS}})
    }
}

pub trait WordWrite {
    type Error;
    spec fn words(&self) -> Seq<{{W}}>;
    fn write_word(&mut self, word: {{W}}) -> (r: Result<(), Self::Error>)
        ensures r is Ok ==> final(self).words() == old(self).words().push(word);
}

//@FIELDS file=src/impls/buf_bit_writer.rs item=/pub struct BufBitWriter</ <<backend: WW>> <<buffer: WW::Word>> <<space_left_in_buffer: usize>>
pub struct BufBitWriter<E, WW: WordWrite> {
    backend: WW,
    buffer: {{W}},
    space_left_in_buffer: usize,
    _marker_endianness: core::marker::PhantomData<E>,
}

/// bit i of v, machine form
pub proof fn lemma_wbit(v: {{W}}, i: nat)
    requires i < {{BITS}},
    ensures wbit(v as nat, i) == ((v >> (i as {{W}})) & 1 == 1),
{
    lemma_{{W}}_shr_is_div(v, i as {{W}});
    let s = v >> (i as {{W}});
    assert(s & 1 == s % 2) by (bit_vector);
}

pub proof fn lemma_push(le: bool, ws: Seq<{{W}}>, w: {{W}})
    ensures words_bits(le, ws.push(w)) == words_bits(le, ws) + wfield(le, (if le { spec_from_le(w) } else { spec_from_be(w) }) as nat, {{BITS}}),
{
    assert(ws.push(w).drop_last() =~= ws);
}

pub proof fn lemma_full_pending(le: bool, b: {{W}})
    ensures wpending(le, b as nat, {{BITS}}) =~= wfield(le, b as nat, {{BITS}}),
{}

// ---------------------------------------------------------------- BE
pub proof fn lemma_be_append_unary(b: {{W}}, p: nat, v: nat)
    requires p + v + 1 <= {{BITS}},
    ensures wpending(false, ((((b << (v as {{W}})) << 1) | 1) as {{W}}) as nat, p + v + 1) =~= wpending(false, b as nat, p) + unary(v),
{
    let b2: {{W}} = ((b << (v as {{W}})) << 1) | 1;
    let n = p + v + 1;
    assert forall|j: int| 0 <= j < n implies #[trigger] wpending(false, b2 as nat, n)[j] == (wpending(false, b as nat, p) + unary(v))[j] by {
        let i = (n - 1 - j) as nat;
        lemma_wbit(b2, i);
        let vv = v as {{W}};
        let ii = i as {{W}};
        if j < p {
            let k = (p - 1 - j) as nat;
            lemma_wbit(b, k);
            let kk = k as {{W}};
            assert(ii == kk + vv + 1);
            assert(((((b << vv) << 1) | 1) >> ii) & 1 == (b >> kk) & 1) by (bit_vector)
                requires ii == kk + vv + 1, ii < {{BITS}};
        } else {
            assert((((((b << vv) << 1) | 1) >> ii) & 1 == 1) == (ii == 0)) by (bit_vector)
                requires ii <= vv, vv < {{BITS}};
        }
    }
}

pub proof fn lemma_be_shift_out(b: {{W}}, p: nat)
    requires p < {{BITS}},
    ensures wfield(false, (((b << (({{BITS}} - p - 1) as {{W}})) << 1) as {{W}}) as nat, {{BITS}}) =~= wpending(false, b as nat, p) + zeros(({{BITS}} - p) as nat),
{
    let s = ({{BITS}} - p) as nat;
    let b2: {{W}} = (b << ((s - 1) as {{W}})) << 1;
    assert forall|j: int| 0 <= j < {{BITS}} implies #[trigger] wfield(false, b2 as nat, {{BITS}})[j] == (wpending(false, b as nat, p) + zeros(s))[j] by {
        let i = ({{BITS}} - 1 - j) as nat;
        lemma_wbit(b2, i);
        let ss = (s - 1) as {{W}};
        let ii = i as {{W}};
        if j < p {
            let k = (p - 1 - j) as nat;
            lemma_wbit(b, k);
            let kk = k as {{W}};
            assert((((b << ss) << 1) >> ii) & 1 == (b >> kk) & 1) by (bit_vector)
                requires ii == kk + ss + 1, ii < {{BITS}};
        } else {
            assert((((b << ss) << 1) >> ii) & 1 == 0) by (bit_vector)
                requires ii <= ss, ss < {{BITS}};
        }
    }
}

pub proof fn lemma_be_one_is_unary(n: nat)
    requires 1 <= n <= {{BITS}},
    ensures wpending(false, 1, n) =~= unary((n - 1) as nat), wfield(false, 1, n) =~= unary((n - 1) as nat),
{
    assert forall|j: int| 0 <= j < n implies #[trigger] wpending(false, 1, n)[j] == unary((n - 1) as nat)[j] by {
        let i = (n - 1 - j) as nat;
        let one: {{W}} = 1;
        lemma_wbit(one, i);
        let ii = i as {{W}};
        assert(((one >> ii) & 1 == 1) == (ii == 0)) by (bit_vector) requires ii < {{BITS}}, one == 1;
    }
}

// ---------------------------------------------------------------- LE
/// 2^(BITS-1), the word whose only set bit is the top one
pub open spec fn top() -> {{W}} { (1 as {{W}}) << (({{BITS}} - 1) as {{W}}) }

pub proof fn lemma_le_append_unary(b: {{W}}, p: nat, v: nat)
    requires p + v + 1 <= {{BITS}},
    ensures wpending(true, ((((b >> (v as {{W}})) >> 1) | top()) as {{W}}) as nat, p + v + 1) =~= wpending(true, b as nat, p) + unary(v),
{
    let t = top();
    let b2: {{W}} = ((b >> (v as {{W}})) >> 1) | t;
    let n = p + v + 1;
    assert forall|j: int| 0 <= j < n implies #[trigger] wpending(true, b2 as nat, n)[j] == (wpending(true, b as nat, p) + unary(v))[j] by {
        let i = ({{BITS}} - n + j) as nat;
        lemma_wbit(b2, i);
        let vv = v as {{W}};
        let ii = i as {{W}};
        let hi: {{W}} = ({{BITS}} - 1) as {{W}};
        if j < p {
            let k = ({{BITS}} - p + j) as nat;
            lemma_wbit(b, k);
            let kk = k as {{W}};
            assert(kk == ii + vv + 1);
            assert(((((b >> vv) >> 1) | ((1 as {{W}}) << hi)) >> ii) & 1 == (b >> kk) & 1) by (bit_vector)
                requires kk == ii + vv + 1, kk < {{BITS}}, hi == {{BITS}} - 1;
        } else {
            assert(((((((b >> vv) >> 1) | ((1 as {{W}}) << hi)) >> ii) & 1) == 1) == (ii == hi)) by (bit_vector)
                requires ii + vv >= hi, ii <= hi, vv <= hi, hi == {{BITS}} - 1;
        }
    }
}

pub proof fn lemma_le_shift_out(b: {{W}}, p: nat)
    requires p < {{BITS}},
    ensures wfield(true, (((b >> (({{BITS}} - p - 1) as {{W}})) >> 1) as {{W}}) as nat, {{BITS}}) =~= wpending(true, b as nat, p) + zeros(({{BITS}} - p) as nat),
{
    let s = ({{BITS}} - p) as nat;
    let b2: {{W}} = (b >> ((s - 1) as {{W}})) >> 1;
    assert forall|j: int| 0 <= j < {{BITS}} implies #[trigger] wfield(true, b2 as nat, {{BITS}})[j] == (wpending(true, b as nat, p) + zeros(s))[j] by {
        let i = j as nat;
        lemma_wbit(b2, i);
        let ss = (s - 1) as {{W}};
        let ii = i as {{W}};
        if j < p {
            let k = ({{BITS}} - p + j) as nat;
            lemma_wbit(b, k);
            let kk = k as {{W}};
            assert((((b >> ss) >> 1) >> ii) & 1 == (b >> kk) & 1) by (bit_vector)
                requires kk == ii + ss + 1, kk < {{BITS}};
        } else {
            assert((((b >> ss) >> 1) >> ii) & 1 == 0) by (bit_vector)
                requires ii + ss + 1 >= {{BITS}}, ii < {{BITS}}, ss < {{BITS}};
        }
    }
}

pub proof fn lemma_le_top_is_unary(n: nat)
    requires 1 <= n <= {{BITS}},
    ensures wpending(true, top() as nat, n) =~= unary((n - 1) as nat),
{
    let t = top();
    assert forall|j: int| 0 <= j < n implies #[trigger] wpending(true, t as nat, n)[j] == unary((n - 1) as nat)[j] by {
        let i = ({{BITS}} - n + j) as nat;
        lemma_wbit(t, i);
        let ii = i as {{W}};
        let hi: {{W}} = ({{BITS}} - 1) as {{W}};
        assert((((((1 as {{W}}) << hi) >> ii) & 1) == 1) == (ii == hi)) by (bit_vector) requires ii <= hi, hi == {{BITS}} - 1;
    }
}

pub proof fn lemma_zero_word(le: bool)
    ensures wfield(le, 0, {{BITS}}) =~= zeros({{BITS}}),
{
    assert forall|j: int| 0 <= j < {{BITS}} implies #[trigger] wfield(le, 0, {{BITS}})[j] == false by {
        let i: nat = if le { j as nat } else { ({{BITS}} - 1 - j) as nat };
        lemma_pow2_pos(i);
        assert(0nat / pow2(i) == 0) by (nonlinear_arith) requires pow2(i) > 0;
    }
}

pub proof fn lemma_zeros_unary(a: nat, b: nat)
    ensures zeros(a) + unary(b) =~= unary(a + b), zeros(a) + zeros(b) =~= zeros(a + b),
{}

// ---------------------------------------------------------------- the real functions
impl<WW: WordWrite> BufBitWriter<BE, WW> {
    /// Inv_W
    spec fn inv(&self) -> bool { 1 <= self.space_left_in_buffer <= {{BITS}} }
    /// α_W: delivered words ++ pending bits
    spec fn view(&self) -> Seq<bool> {
        words_bits(false, self.backend.words()) + wpending(false, self.buffer as nat, ({{BITS}} - self.space_left_in_buffer) as nat)
    }

//@FN file=src/impls/buf_bit_writer.rs item=/impl<WW: WordWrite, WP: WriteParams> BitWrite<BE> for BufBitWriter<BE, WW, WP>/ name=write_unary
//@SIG fn write_unary_be(&mut self, mut value: u64) -> (r: Result<usize, WW::Error>)
//@SPEC     requires value < u64::MAX, old(self).inv(),
//@SPEC     ensures r is Ok ==> r->Ok_0 == value + 1 && final(self).inv() && final(self).view() == old(self).view() + unary(value as nat),
//@INST <<WW::Word::BITS>> => <<{{BITS}}usize>>
//@INST <<WW::Word::ZERO>> => <<(0 as {{W}})>>
//@INST <<WW::Word::ONE>> => <<(1 as {{W}})>>
//@INST <<WW::Word>> => <<{{W}}>>
//@REPLACE <<for _ in 0..>> => <<for _i in it: 0..>>
//@PROLOGUE let ghost v0 = value; let ghost sp = self.space_left_in_buffer as nat; let ghost p = ({{BITS}} - sp) as nat; let ghost b0 = self.buffer;
//@PROLOGUE let ghost base = self.view();
//@PROOF after=<<let code_length = value + 1;>> proof { if v0 + 1 <= sp { lemma_be_append_unary(b0, p, v0 as nat); } else { lemma_be_shift_out(b0, p); } }
//@PROOF after=<<self.buffer |= (1 as {{W}});>> proof { if self.space_left_in_buffer != 0 { assert(self.view() =~= base + unary(v0 as nat)); } }
//@PROOF after=<<self.backend.write_word(self.buffer.to_be())?;>>#1 proof { lemma_push(false, old(self).backend.words(), spec_to_be(self.buffer)); axiom_be(self.buffer); lemma_full_pending(false, self.buffer); }
//@PROOF after=<<self.space_left_in_buffer = {{BITS}}usize;>>#1 assert(self.view() =~= base + unary(v0 as nat));
//@PROOF after=<<self.backend.write_word(self.buffer.to_be())?;>>#2 proof { lemma_push(false, old(self).backend.words(), spec_to_be(self.buffer)); axiom_be(self.buffer); } assert(words_bits(false, self.backend.words()) =~= base + zeros(sp));
//@LOOP 1 invariant
//@LOOP 1     words_bits(false, self.backend.words()) == base + zeros(sp + {{BITS}} * _i as nat),
//@LOOP 1     self.space_left_in_buffer == sp, value == v0 - sp, code_length == v0 + 1,
//@PROOF after=<<self.backend.write_word((0 as {{W}}))?;>> proof { lemma_push(false, w0, 0); axiom_be(0); lemma_zero_word(false); lemma_zeros_unary(sp + {{BITS}} * _i as nat, {{BITS}}); }
//@REPLACE <<self.backend.write_word((0 as {{W}}))?;>> => <<let ghost w0 = self.backend.words(); self.backend.write_word((0 as {{W}}))?;>>
//@REPLACE <<value %= {{BITS}}usize as u64;>> => <<let ghost k = (value / {{BITS}}) as nat; value %= {{BITS}}usize as u64; let ghost w1 = self.backend.words(); assert(sp + {{BITS}} * k + value == v0);>>
//@PROOF after=<<self.backend.write_word((1 as {{W}}).to_be())?;>> proof { lemma_push(false, w1, spec_to_be(1)); axiom_be(1); lemma_be_one_is_unary({{BITS}}); lemma_zeros_unary(sp + {{BITS}} * k, ({{BITS}} - 1) as nat); }
//@PROOF after=<<self.space_left_in_buffer = {{BITS}}usize;>>#2 assert(self.view() =~= base + unary(v0 as nat));
//@PROOF after=<<self.space_left_in_buffer = {{BITS}}usize - (value as usize + 1);>> proof { lemma_be_one_is_unary((value + 1) as nat); lemma_zeros_unary(sp + {{BITS}} * k, value as nat); } assert(self.view() =~= base + unary(v0 as nat));
//@END
}

impl<WW: WordWrite> BufBitWriter<LE, WW> {
    spec fn inv(&self) -> bool { 1 <= self.space_left_in_buffer <= {{BITS}} }
    spec fn view(&self) -> Seq<bool> {
        words_bits(true, self.backend.words()) + wpending(true, self.buffer as nat, ({{BITS}} - self.space_left_in_buffer) as nat)
    }

//@FN file=src/impls/buf_bit_writer.rs item=/impl<WW: WordWrite, WP: WriteParams> BitWrite<LE> for BufBitWriter<LE, WW, WP>/ name=write_unary
//@SIG fn write_unary_le(&mut self, mut value: u64) -> (r: Result<usize, WW::Error>)
//@SPEC     requires value < u64::MAX, old(self).inv(),
//@SPEC     ensures r is Ok ==> r->Ok_0 == value + 1 && final(self).inv() && final(self).view() == old(self).view() + unary(value as nat),
//@INST <<WW::Word::BITS>> => <<{{BITS}}usize>>
//@INST <<WW::Word::ZERO>> => <<(0 as {{W}})>>
//@INST <<WW::Word::ONE>> => <<(1 as {{W}})>>
//@INST <<WW::Word>> => <<{{W}}>>
//@REPLACE <<for _ in 0..>> => <<for _i in it: 0..>>
//@PROLOGUE let ghost v0 = value; let ghost sp = self.space_left_in_buffer as nat; let ghost p = ({{BITS}} - sp) as nat; let ghost b0 = self.buffer;
//@PROLOGUE let ghost base = self.view();
//@PROOF after=<<let code_length = value + 1;>> proof { if v0 + 1 <= sp { lemma_le_append_unary(b0, p, v0 as nat); } else { lemma_le_shift_out(b0, p); } }
//@PROOF after=<<self.buffer |= (1 as {{W}}) << ({{BITS}}usize - 1);>> proof { if self.space_left_in_buffer != 0 { assert(self.view() =~= base + unary(v0 as nat)); } }
//@PROOF after=<<self.backend.write_word(self.buffer.to_le())?;>>#1 proof { lemma_push(true, old(self).backend.words(), spec_to_le(self.buffer)); axiom_le(self.buffer); lemma_full_pending(true, self.buffer); }
//@PROOF after=<<self.space_left_in_buffer = {{BITS}}usize;>>#1 assert(self.view() =~= base + unary(v0 as nat));
//@PROOF after=<<self.backend.write_word(self.buffer.to_le())?;>>#2 proof { lemma_push(true, old(self).backend.words(), spec_to_le(self.buffer)); axiom_le(self.buffer); } assert(words_bits(true, self.backend.words()) =~= base + zeros(sp));
//@LOOP 1 invariant
//@LOOP 1     words_bits(true, self.backend.words()) == base + zeros(sp + {{BITS}} * _i as nat),
//@LOOP 1     self.space_left_in_buffer == sp, value == v0 - sp, code_length == v0 + 1,
//@PROOF after=<<self.backend.write_word((0 as {{W}}))?;>> proof { lemma_push(true, w0, 0); axiom_le(0); lemma_zero_word(true); lemma_zeros_unary(sp + {{BITS}} * _i as nat, {{BITS}}); }
//@REPLACE <<self.backend.write_word((0 as {{W}}))?;>> => <<let ghost w0 = self.backend.words(); self.backend.write_word((0 as {{W}}))?;>>
//@REPLACE <<value %= {{BITS}}usize as u64;>> => <<let ghost k = (value / {{BITS}}) as nat; value %= {{BITS}}usize as u64; let ghost w1 = self.backend.words(); assert(sp + {{BITS}} * k + value == v0);>>
//@PROOF after=<<.write_word(((1 as {{W}}) << ({{BITS}}usize - 1)).to_le())?;>> proof { lemma_push(true, w1, spec_to_le(top())); axiom_le(top()); lemma_le_top_is_unary({{BITS}}); lemma_full_pending(true, top()); lemma_zeros_unary(sp + {{BITS}} * k, ({{BITS}} - 1) as nat); }
//@PROOF after=<<self.space_left_in_buffer = {{BITS}}usize;>>#2 assert(self.view() =~= base + unary(v0 as nat));
//@PROOF after=<<self.space_left_in_buffer = {{BITS}}usize - (value as usize + 1);>> proof { lemma_le_top_is_unary((value + 1) as nat); lemma_zeros_unary(sp + {{BITS}} * k, value as nat); } assert(self.view() =~= base + unary(v0 as nat));
//@END
}

} // verus!

fn main() {}
