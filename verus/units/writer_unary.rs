// Unit C01/writer_unary: the real text of `BufBitWriter::write_unary` (BE and LE
// impls, src/impls/buf_bit_writer.rs) under the stream-view contract of DESIGN
// 2.1, for EVERY value below 2^64-1 (the zero-word loop is unbounded here; the
// Kani obligation c01.write_unary.* is bounded by the ghost window).
//
// Template parameters (word-type instantiation, one unit per backend word):
//   {{W}} = the backend word type, {{BITS}} = its width.
// The generic `WW::Word` of the real text is replaced textually by {{W}} (//@INST
// lines); the trait `WordWrite` is the contract-carrying declaration below.
use vstd::prelude::*;
use vstd::arithmetic::power2::*;
use vstd::arithmetic::div_mod::*;
use vstd::bits::*;

verus! {

global size_of usize == 8;

pub struct BE;
pub struct LE;

pub open spec fn unary(x: nat) -> Seq<bool> {
    Seq::new(x + 1, |i: int| i == x)
}

//@INCLUDE writer_defs.inc

// ---------------------------------------------------------------- BE
pub proof fn lemma_be_append_unary(b: {{W}}, p: nat, v: nat)
    requires p + v + 1 <= {{BITS}},
    ensures wpending(false, ((((b << (v as {{W}})) << 1) | 1) as {{W}}) as nat, p + v + 1) =~= wpending(false, b as nat, p) + unary(v),
{
    let b2: {{W}} = ((b << (v as {{W}})) << 1) | 1;
    let n = p + v + 1;
    assert forall|j: int| 0 <= j < n implies #[trigger] wpending(false, b2 as nat, n)[j] == (wpending(false, b as nat, p) + unary(v))[j] by {
        let i = (n - 1 - j) as nat;
        lemma_wbit(b2, i);
        let vv = v as {{W}};
        let ii = i as {{W}};
        if j < p {
            let k = (p - 1 - j) as nat;
            lemma_wbit(b, k);
            let kk = k as {{W}};
            assert(ii == kk + vv + 1);
            assert(((((b << vv) << 1) | 1) >> ii) & 1 == (b >> kk) & 1) by (bit_vector)
                requires ii == kk + vv + 1, ii < {{BITS}};
        } else {
            assert((((((b << vv) << 1) | 1) >> ii) & 1 == 1) == (ii == 0)) by (bit_vector)
                requires ii <= vv, vv < {{BITS}};
        }
    }
}

pub proof fn lemma_be_shift_out(b: {{W}}, p: nat)
    requires p < {{BITS}},
    ensures wfield(false, (((b << (({{BITS}} - p - 1) as {{W}})) << 1) as {{W}}) as nat, {{BITS}}) =~= wpending(false, b as nat, p) + zeros(({{BITS}} - p) as nat),
{
    let s = ({{BITS}} - p) as nat;
    let b2: {{W}} = (b << ((s - 1) as {{W}})) << 1;
    assert forall|j: int| 0 <= j < {{BITS}} implies #[trigger] wfield(false, b2 as nat, {{BITS}})[j] == (wpending(false, b as nat, p) + zeros(s))[j] by {
        let i = ({{BITS}} - 1 - j) as nat;
        lemma_wbit(b2, i);
        let ss = (s - 1) as {{W}};
        let ii = i as {{W}};
        if j < p {
            let k = (p - 1 - j) as nat;
            lemma_wbit(b, k);
            let kk = k as {{W}};
            assert((((b << ss) << 1) >> ii) & 1 == (b >> kk) & 1) by (bit_vector)
                requires ii == kk + ss + 1, ii < {{BITS}};
        } else {
            assert((((b << ss) << 1) >> ii) & 1 == 0) by (bit_vector)
                requires ii <= ss, ss < {{BITS}};
        }
    }
}

pub proof fn lemma_be_one_is_unary(n: nat)
    requires 1 <= n <= {{BITS}},
    ensures wpending(false, 1, n) =~= unary((n - 1) as nat), wfield(false, 1, n) =~= unary((n - 1) as nat),
{
    assert forall|j: int| 0 <= j < n implies #[trigger] wpending(false, 1, n)[j] == unary((n - 1) as nat)[j] by {
        let i = (n - 1 - j) as nat;
        let one: {{W}} = 1;
        lemma_wbit(one, i);
        let ii = i as {{W}};
        assert(((one >> ii) & 1 == 1) == (ii == 0)) by (bit_vector) requires ii < {{BITS}}, one == 1;
    }
}

// ---------------------------------------------------------------- LE
/// 2^(BITS-1), the word whose only set bit is the top one
pub open spec fn top() -> {{W}} { (1 as {{W}}) << (({{BITS}} - 1) as {{W}}) }

pub proof fn lemma_le_append_unary(b: {{W}}, p: nat, v: nat)
    requires p + v + 1 <= {{BITS}},
    ensures wpending(true, ((((b >> (v as {{W}})) >> 1) | top()) as {{W}}) as nat, p + v + 1) =~= wpending(true, b as nat, p) + unary(v),
{
    let t = top();
    let b2: {{W}} = ((b >> (v as {{W}})) >> 1) | t;
    let n = p + v + 1;
    assert forall|j: int| 0 <= j < n implies #[trigger] wpending(true, b2 as nat, n)[j] == (wpending(true, b as nat, p) + unary(v))[j] by {
        let i = ({{BITS}} - n + j) as nat;
        lemma_wbit(b2, i);
        let vv = v as {{W}};
        let ii = i as {{W}};
        let hi: {{W}} = ({{BITS}} - 1) as {{W}};
        if j < p {
            let k = ({{BITS}} - p + j) as nat;
            lemma_wbit(b, k);
            let kk = k as {{W}};
            assert(kk == ii + vv + 1);
            assert(((((b >> vv) >> 1) | ((1 as {{W}}) << hi)) >> ii) & 1 == (b >> kk) & 1) by (bit_vector)
                requires kk == ii + vv + 1, kk < {{BITS}}, hi == {{BITS}} - 1;
        } else {
            assert(((((((b >> vv) >> 1) | ((1 as {{W}}) << hi)) >> ii) & 1) == 1) == (ii == hi)) by (bit_vector)
                requires ii + vv >= hi, ii <= hi, vv <= hi, hi == {{BITS}} - 1;
        }
    }
}

pub proof fn lemma_le_shift_out(b: {{W}}, p: nat)
    requires p < {{BITS}},
    ensures wfield(true, (((b >> (({{BITS}} - p - 1) as {{W}})) >> 1) as {{W}}) as nat, {{BITS}}) =~= wpending(true, b as nat, p) + zeros(({{BITS}} - p) as nat),
{
    let s = ({{BITS}} - p) as nat;
    let b2: {{W}} = (b >> ((s - 1) as {{W}})) >> 1;
    assert forall|j: int| 0 <= j < {{BITS}} implies #[trigger] wfield(true, b2 as nat, {{BITS}})[j] == (wpending(true, b as nat, p) + zeros(s))[j] by {
        let i = j as nat;
        lemma_wbit(b2, i);
        let ss = (s - 1) as {{W}};
        let ii = i as {{W}};
        if j < p {
            let k = ({{BITS}} - p + j) as nat;
            lemma_wbit(b, k);
            let kk = k as {{W}};
            assert((((b >> ss) >> 1) >> ii) & 1 == (b >> kk) & 1) by (bit_vector)
                requires kk == ii + ss + 1, kk < {{BITS}};
        } else {
            assert((((b >> ss) >> 1) >> ii) & 1 == 0) by (bit_vector)
                requires ii + ss + 1 >= {{BITS}}, ii < {{BITS}}, ss < {{BITS}};
        }
    }
}

pub proof fn lemma_le_top_is_unary(n: nat)
    requires 1 <= n <= {{BITS}},
    ensures wpending(true, top() as nat, n) =~= unary((n - 1) as nat),
{
    let t = top();
    assert forall|j: int| 0 <= j < n implies #[trigger] wpending(true, t as nat, n)[j] == unary((n - 1) as nat)[j] by {
        let i = ({{BITS}} - n + j) as nat;
        lemma_wbit(t, i);
        let ii = i as {{W}};
        let hi: {{W}} = ({{BITS}} - 1) as {{W}};
        assert((((((1 as {{W}}) << hi) >> ii) & 1) == 1) == (ii == hi)) by (bit_vector) requires ii <= hi, hi == {{BITS}} - 1;
    }
}

pub proof fn lemma_zero_word(le: bool)
    ensures wfield(le, 0, {{BITS}}) =~= zeros({{BITS}}),
{
    assert forall|j: int| 0 <= j < {{BITS}} implies #[trigger] wfield(le, 0, {{BITS}})[j] == false by {
        let i: nat = if le { j as nat } else { ({{BITS}} - 1 - j) as nat };
        lemma_pow2_pos(i);
        assert(0nat / pow2(i) == 0) by (nonlinear_arith) requires pow2(i) > 0;
    }
}

pub proof fn lemma_zeros_unary(a: nat, b: nat)
    ensures zeros(a) + unary(b) =~= unary(a + b), zeros(a) + zeros(b) =~= zeros(a + b),
{}

// ---------------------------------------------------------------- the real functions
impl<WW: WordWrite> BufBitWriter<BE, WW> {
    /// Inv_W
    spec fn inv(&self) -> bool { 1 <= self.space_left_in_buffer <= {{BITS}} }
    /// α_W: delivered words ++ pending bits
    spec fn view(&self) -> Seq<bool> {
        words_bits(false, self.backend.words()) + wpending(false, self.buffer as nat, ({{BITS}} - self.space_left_in_buffer) as nat)
    }

//@FN file=src/impls/buf_bit_writer.rs item=/impl<WW: WordWrite, WP: WriteParams> BitWrite<BE> for BufBitWriter<BE, WW, WP>/ name=write_unary
//@SIG fn write_unary_be(&mut self, mut value: u64) -> (r: Result<usize, WW::Error>)
//@SPEC     requires value < u64::MAX, old(self).inv(),
//@SPEC     ensures r is Ok ==> r->Ok_0 == value + 1 && final(self).inv() && final(self).view() == old(self).view() + unary(value as nat),
//@INST <<WW::Word::BITS>> => <<{{BITS}}usize>>
//@INST <<WW::Word::ZERO>> => <<(0 as {{W}})>>
//@INST <<WW::Word::ONE>> => <<(1 as {{W}})>>
//@INST <<WW::Word>> => <<{{W}}>>
//@REPLACE <<for _ in 0..>> => <<for _i in it: 0..>>
//@PROLOGUE let ghost v0 = value; let ghost sp = self.space_left_in_buffer as nat; let ghost p = ({{BITS}} - sp) as nat; let ghost b0 = self.buffer;
//@PROLOGUE let ghost base = self.view();
//@PROOF after=<<let code_length = value + 1;>> proof { if v0 + 1 <= sp { lemma_be_append_unary(b0, p, v0 as nat); } else { lemma_be_shift_out(b0, p); } }
//@PROOF after=<<self.buffer |= (1 as {{W}});>> proof { if self.space_left_in_buffer != 0 { assert(self.view() =~= base + unary(v0 as nat)); } }
//@PROOF after=<<self.backend.write_word(self.buffer.to_be())?;>>#1 proof { lemma_push(false, old(self).backend.words(), spec_to_be(self.buffer)); axiom_be(self.buffer); lemma_full_pending(false, self.buffer); }
//@PROOF after=<<self.space_left_in_buffer = {{BITS}}usize;>>#1 assert(self.view() =~= base + unary(v0 as nat));
//@PROOF after=<<self.backend.write_word(self.buffer.to_be())?;>>#2 proof { lemma_push(false, old(self).backend.words(), spec_to_be(self.buffer)); axiom_be(self.buffer); } assert(words_bits(false, self.backend.words()) =~= base + zeros(sp));
//@LOOP 1 invariant
//@LOOP 1     words_bits(false, self.backend.words()) == base + zeros(sp + {{BITS}} * _i as nat),
//@LOOP 1     self.space_left_in_buffer == sp, value == v0 - sp, code_length == v0 + 1,
//@PROOF after=<<self.backend.write_word((0 as {{W}}))?;>> proof { lemma_push(false, w0, 0); axiom_be(0); lemma_zero_word(false); lemma_zeros_unary(sp + {{BITS}} * _i as nat, {{BITS}}); }
//@REPLACE <<self.backend.write_word((0 as {{W}}))?;>> => <<let ghost w0 = self.backend.words(); self.backend.write_word((0 as {{W}}))?;>>
//@REPLACE <<value %= {{BITS}}usize as u64;>> => <<let ghost k = (value / {{BITS}}) as nat; value %= {{BITS}}usize as u64; let ghost w1 = self.backend.words(); assert(sp + {{BITS}} * k + value == v0);>>
//@PROOF after=<<self.backend.write_word((1 as {{W}}).to_be())?;>> proof { lemma_push(false, w1, spec_to_be(1)); axiom_be(1); lemma_be_one_is_unary({{BITS}}); lemma_zeros_unary(sp + {{BITS}} * k, ({{BITS}} - 1) as nat); }
//@PROOF after=<<self.space_left_in_buffer = {{BITS}}usize;>>#2 assert(self.view() =~= base + unary(v0 as nat));
//@PROOF after=<<self.space_left_in_buffer = {{BITS}}usize - (value as usize + 1);>> proof { lemma_be_one_is_unary((value + 1) as nat); lemma_zeros_unary(sp + {{BITS}} * k, value as nat); } assert(self.view() =~= base + unary(v0 as nat));
//@END
}

impl<WW: WordWrite> BufBitWriter<LE, WW> {
    spec fn inv(&self) -> bool { 1 <= self.space_left_in_buffer <= {{BITS}} }
    spec fn view(&self) -> Seq<bool> {
        words_bits(true, self.backend.words()) + wpending(true, self.buffer as nat, ({{BITS}} - self.space_left_in_buffer) as nat)
    }

//@FN file=src/impls/buf_bit_writer.rs item=/impl<WW: WordWrite, WP: WriteParams> BitWrite<LE> for BufBitWriter<LE, WW, WP>/ name=write_unary
//@SIG fn write_unary_le(&mut self, mut value: u64) -> (r: Result<usize, WW::Error>)
//@SPEC     requires value < u64::MAX, old(self).inv(),
//@SPEC     ensures r is Ok ==> r->Ok_0 == value + 1 && final(self).inv() && final(self).view() == old(self).view() + unary(value as nat),
//@INST <<WW::Word::BITS>> => <<{{BITS}}usize>>
//@INST <<WW::Word::ZERO>> => <<(0 as {{W}})>>
//@INST <<WW::Word::ONE>> => <<(1 as {{W}})>>
//@INST <<WW::Word>> => <<{{W}}>>
//@REPLACE <<for _ in 0..>> => <<for _i in it: 0..>>
//@PROLOGUE let ghost v0 = value; let ghost sp = self.space_left_in_buffer as nat; let ghost p = ({{BITS}} - sp) as nat; let ghost b0 = self.buffer;
//@PROLOGUE let ghost base = self.view();
//@PROOF after=<<let code_length = value + 1;>> proof { if v0 + 1 <= sp { lemma_le_append_unary(b0, p, v0 as nat); } else { lemma_le_shift_out(b0, p); } }
//@PROOF after=<<self.buffer |= (1 as {{W}}) << ({{BITS}}usize - 1);>> proof { if self.space_left_in_buffer != 0 { assert(self.view() =~= base + unary(v0 as nat)); } }
//@PROOF after=<<self.backend.write_word(self.buffer.to_le())?;>>#1 proof { lemma_push(true, old(self).backend.words(), spec_to_le(self.buffer)); axiom_le(self.buffer); lemma_full_pending(true, self.buffer); }
//@PROOF after=<<self.space_left_in_buffer = {{BITS}}usize;>>#1 assert(self.view() =~= base + unary(v0 as nat));
//@PROOF after=<<self.backend.write_word(self.buffer.to_le())?;>>#2 proof { lemma_push(true, old(self).backend.words(), spec_to_le(self.buffer)); axiom_le(self.buffer); } assert(words_bits(true, self.backend.words()) =~= base + zeros(sp));
//@LOOP 1 invariant
//@LOOP 1     words_bits(true, self.backend.words()) == base + zeros(sp + {{BITS}} * _i as nat),
//@LOOP 1     self.space_left_in_buffer == sp, value == v0 - sp, code_length == v0 + 1,
//@PROOF after=<<self.backend.write_word((0 as {{W}}))?;>> proof { lemma_push(true, w0, 0); axiom_le(0); lemma_zero_word(true); lemma_zeros_unary(sp + {{BITS}} * _i as nat, {{BITS}}); }
//@REPLACE <<self.backend.write_word((0 as {{W}}))?;>> => <<let ghost w0 = self.backend.words(); self.backend.write_word((0 as {{W}}))?;>>
//@REPLACE <<value %= {{BITS}}usize as u64;>> => <<let ghost k = (value / {{BITS}}) as nat; value %= {{BITS}}usize as u64; let ghost w1 = self.backend.words(); assert(sp + {{BITS}} * k + value == v0);>>
//@PROOF after=<<.write_word(((1 as {{W}}) << ({{BITS}}usize - 1)).to_le())?;>> proof { lemma_push(true, w1, spec_to_le(top())); axiom_le(top()); lemma_le_top_is_unary({{BITS}}); lemma_full_pending(true, top()); lemma_zeros_unary(sp + {{BITS}} * k, ({{BITS}} - 1) as nat); }
//@PROOF after=<<self.space_left_in_buffer = {{BITS}}usize;>>#2 assert(self.view() =~= base + unary(v0 as nat));
//@PROOF after=<<self.space_left_in_buffer = {{BITS}}usize - (value as usize + 1);>> proof { lemma_le_top_is_unary((value + 1) as nat); lemma_zeros_unary(sp + {{BITS}} * k, value as nat); } assert(self.view() =~= base + unary(v0 as nat));
//@END
}

} // verus!

fn main() {}
