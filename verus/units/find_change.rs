// Unit C20/find_change: the real text of `FindChangePoints::{new, next}`
// (src/utils/find_change.rs) under contract. Built by tools/extract.py.
use vstd::prelude::*;

verus! {

/// The value the (deterministic) closure returns for `x`.
pub open spec fn val<F: Fn(u64) -> usize>(f: F, x: u64) -> usize {
    choose|r: usize| f.ensures((x,), r)
}

/// `f` is a total, deterministic function (what "applied to a function" means).
pub open spec fn det<F: Fn(u64) -> usize>(f: F) -> bool {
    &&& forall|x: u64| #[trigger] f.requires((x,))
    &&& forall|x: u64, r: usize| #[trigger] f.ensures((x,), r) ==> r == val(f, x)
}

/// non-decreasing
pub open spec fn monotone<F: Fn(u64) -> usize>(f: F) -> bool {
    forall|a: u64, b: u64| a <= b ==> #[trigger] val(f, a) <= #[trigger] val(f, b)
}

/// `usize::MAX` is the iterator's "not started" marker: lengths never reach it.
pub open spec fn bounded<F: Fn(u64) -> usize>(f: F) -> bool {
    forall|x: u64| #[trigger] val(f, x) < usize::MAX
}

//@ITEM file=src/utils/find_change.rs item=/pub struct FindChangePoints<F: Fn\(u64\) -> usize>/

impl<F: Fn(u64) -> usize> FindChangePoints<F> {

    spec fn first(&self) -> bool {
        self.current == 0 && self.prev_value == usize::MAX
    }

    /// representation invariant
    spec fn inv(&self) -> bool {
        &&& det(self.func)
        &&& monotone(self.func)
        &&& bounded(self.func)
        &&& (self.first() || self.prev_value == val(self.func, self.current))
    }

//@FN file=src/utils/find_change.rs item=/impl<F: Fn\(u64\) -> usize> FindChangePoints<F>/ name=new
//@SIG fn new(func: F) -> (r: Self)
//@SPEC     ensures r.first(), r.func == func,
//@END

//@FN file=src/utils/find_change.rs item=/impl<F: Fn\(u64\) -> usize> Iterator for FindChangePoints<F>/ name=next
//@SIG fn next(&mut self) -> (r: Option<(u64, usize)>)
//@SPEC     requires old(self).inv(),
//@SPEC     ensures
//@SPEC         final(self).inv(),
//@SPEC         final(self).func == old(self).func,
//@SPEC         // the iterator starts with value 0
//@SPEC         old(self).first() ==> r == Some((0u64, val(old(self).func, 0))) && final(self).current == 0 && !final(self).first(),
//@SPEC         // afterwards: the least x > current at which the function differs, with the new value
//@SPEC         !old(self).first() ==> match r {
//@SPEC             Some((x, v)) => {
//@SPEC                 &&& x > old(self).current
//@SPEC                 &&& v == val(old(self).func, x)
//@SPEC                 &&& v != old(self).prev_value
//@SPEC                 &&& forall|y: u64| old(self).current <= y < x ==> #[trigger] val(old(self).func, y) == old(self).prev_value
//@SPEC                 &&& final(self).current == x && final(self).prev_value == v
//@SPEC             },
//@SPEC             // it ends only when no change point exists up to 2^63 (none is missed)
//@SPEC             None => {
//@SPEC                 &&& forall|y: u64| old(self).current <= y <= 0x8000_0000_0000_0000u64 ==> #[trigger] val(old(self).func, y) == old(self).prev_value
//@SPEC                 &&& final(self).current == old(self).current && final(self).prev_value == old(self).prev_value
//@SPEC             },
//@SPEC         },
//@LOOP 1 invariant
//@LOOP 1     step >= 1, step == 1 || step % 2 == 0,
//@LOOP 1     self.current as int + (step / 2) as int <= u64::MAX,
//@LOOP 1     self.inv(), !self.first(), self.func == old(self).func, self.current == old(self).current, self.prev_value == old(self).prev_value,
//@LOOP 1     forall|y: u64| self.current <= y <= self.current + step / 2 ==> #[trigger] val(self.func, y) == self.prev_value,
//@LOOP 1 ensures
//@LOOP 1     u64::MAX - self.current > step,
//@LOOP 1     val(self.func, (self.current + step) as u64) != self.prev_value,
//@LOOP 1 decreases u64::MAX - step,
//@LOOP 2 invariant
//@LOOP 2     self.inv(), !self.first(), self.func == old(self).func, self.current == old(self).current, self.prev_value == old(self).prev_value,
//@LOOP 2     self.current <= left <= right, right as int <= self.current as int + step as int, u64::MAX - self.current > step,
//@LOOP 2     val(self.func, right) != self.prev_value,
//@LOOP 2     forall|y: u64| self.current <= y < left ==> #[trigger] val(self.func, y) == self.prev_value,
//@LOOP 2 decreases right - left,
//@PROOF after=<<let new_val = (self.func)(self.current + step);>> proof { lemma_flat(self.func, self.current, (self.current + step) as u64); }
//@PROOF after=<<let mid_val = (self.func)(mid);>> proof { lemma_flat(self.func, self.current, mid); }
//@END

}

/// If a monotone function takes the same value at `a` and `b`, it is constant in between.
pub proof fn lemma_flat<F: Fn(u64) -> usize>(f: F, a: u64, b: u64)
    requires monotone(f), a <= b,
    ensures val(f, a) == val(f, b) ==> forall|y: u64| a <= y <= b ==> #[trigger] val(f, y) == val(f, a),
{
    if val(f, a) == val(f, b) {
        assert forall|y: u64| a <= y <= b implies #[trigger] val(f, y) == val(f, a) by {
            assert(val(f, a) <= val(f, y));
            assert(val(f, y) <= val(f, b));
        }
    }
}

} // verus!

fn main() {}
