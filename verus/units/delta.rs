// Unit C03-C04-C06/delta: the real text of `len_delta_param` (non-table path),
// `default_write_delta`, `default_read_delta` (src/codes/delta.rs) against the
// trait contracts, for every value below 2^64-1 and both byte orders.
// `GammaWriteParam::write_gamma_param` / `GammaReadParam::read_gamma_param` /
// `len_gamma_param` (table or default implementation, selected by the const
// parameter) are contract-carrying declarations here; their default
// implementation is proved in the exp_golomb unit, the table variants are the
// Kani obligations c04/c05/c06 def_gamma*, tvb_gamma*, len_gamma*.
use vstd::prelude::*;
use vstd::arithmetic::power2::*;
use vstd::arithmetic::div_mod::*;
use vstd::bits::*;

verus! {

//@INCLUDE prelude.inc

//@INCLUDE mb_spec.inc

//@INCLUDE rice.inc

//@INCLUDE pi_value.inc

//@INCLUDE gamma_defs.inc

/// `len_gamma_param::<USE_TABLE>` (table or default implementation), by contract
#[verifier::external_body]
pub fn len_gamma_param<const USE_TABLE: bool>(n: u64) -> (r: usize)
    requires n < u64::MAX,
    ensures r == gamma_len(n),
{ unimplemented!() }

/// `GammaWriteParam::write_gamma_param` / `GammaReadParam::read_gamma_param`, by contract
pub trait GammaWriteParam<E: Endianness>: BitWrite<E> {
    fn write_gamma_param<const USE_TABLE: bool>(&mut self, n: u64) -> (r: Result<usize, Self::Error>)
        requires n < u64::MAX,
        ensures r is Ok ==> r->Ok_0 == gamma_len(n) && final(self).view() == old(self).view() + gamma_bits(E::little(), n),
    ;
}
pub trait GammaReadParam<E: Endianness>: BitRead<E> {
    fn read_gamma_param<const USE_TABLE: bool>(&mut self) -> (r: Result<u64, Self::Error>)
        requires
            old(self).pos() <= old(self).stream().len(),
            exists|x: u64| x < u64::MAX && #[trigger] starts(old(self).stream(), old(self).pos() as int, gamma_bits(E::little(), x)),
        ensures
            final(self).stream() == old(self).stream(),
            final(self).pos() <= final(self).stream().len(),
            r is Ok ==> forall|x: u64| x < u64::MAX && #[trigger] starts(old(self).stream(), old(self).pos() as int, gamma_bits(E::little(), x))
                ==> r->Ok_0 == x && final(self).pos() == old(self).pos() + gamma_len(x),
    ;
}

// ---------------------------------------------------------------------------
// delta (src/codes/delta.rs): gamma(lambda) followed by the lambda low bits of n+1,
// lambda = floor(log2(n+1))
// ---------------------------------------------------------------------------

pub open spec fn delta_bits(le: bool, n: u64) -> Seq<bool> {
    gamma_bits(le, gamma_lambda(n) as u64) + field(le, (n + 1) as u64, gamma_lambda(n))
}
pub open spec fn delta_len(n: u64) -> nat {
    gamma_len(gamma_lambda(n) as u64) + gamma_lambda(n)
}

pub proof fn lemma_delta_lambda(n: u64, m: u64, lg: u32)
    requires n < u64::MAX, m == n + 1, lg < 64, pow2(lg as nat) <= m, (m as nat) < pow2((lg + 1) as nat),
    ensures gamma_lambda(n) == lg, gamma_lambda(n) <= 63, gamma_len(lg as u64) + lg <= 200,
{
    lemma_log2f(m, lg as nat);
    lemma_log2f_exists((lg + 1) as u64);
}

//@FN file=src/codes/delta.rs item=- name=len_delta_param
//@SIG pub fn len_delta_param<const USE_DELTA_TABLE: bool, const USE_GAMMA_TABLE: bool>(n: u64) -> (r: usize)
//@SPEC     requires n < u64::MAX,
//@SPEC     ensures r == delta_len(n),
//@REPLACE_RE <<(?s)if USE_DELTA_TABLE \{.*?\n    \}\n>> => <<>>
//@PROOF after=<<let lambda = (n + 1).ilog2();>> proof { lemma_delta_lambda(n, (n + 1) as u64, lambda); }
//@END

//@FN file=src/codes/delta.rs item=- name=default_write_delta
//@SIG fn default_write_delta<E: Endianness, B: GammaWriteParam<E>, const USE_GAMMA_TABLE: bool>(backend: &mut B, mut n: u64) -> (r: Result<usize, B::Error>)
//@SPEC     requires n < u64::MAX,
//@SPEC     ensures r is Ok ==> r->Ok_0 == delta_len(n) && final(backend).view() == old(backend).view() + delta_bits(E::little(), n),
//@PROLOGUE let ghost n0 = n;
//@PROOF after=<<let lambda = n.ilog2();>> proof { lemma_delta_lambda(n0, n, lambda); }
//@PROOF[checks] after=<<n ^= 1 << lambda;>> proof { lemma_xor_top(E::little(), (n0 + 1) as u64, lambda as nat, n); }
//@END

pub proof fn lemma_delta_split(s: Seq<bool>, p: int, le: bool, x: u64)
    requires x < u64::MAX, starts(s, p, delta_bits(le, x)),
    ensures
        gamma_lambda(x) <= 63,
        starts(s, p, gamma_bits(le, gamma_lambda(x) as u64)),
        starts(s, p + gamma_len(gamma_lambda(x) as u64), field(le, (x + 1) as u64, gamma_lambda(x))),
        delta_bits(le, x).len() == delta_len(x),
{
    lemma_log2f_exists((x + 1) as u64);
    let lam = gamma_lambda(x);
    let g = lam as u64;
    lemma_log2f_exists((g + 1) as u64);
    let u = gamma_bits(le, g);
    let m = field(le, (x + 1) as u64, lam);
    let w = delta_bits(le, x);
    assert(u.len() == gamma_len(g));
    assert(w == u + m);
    assert(s.subrange(p, p + u.len()) =~= w.subrange(0, u.len() as int));
    assert(w.subrange(0, u.len() as int) =~= u);
    assert(s.subrange(p + u.len(), p + u.len() + m.len()) =~= w.subrange(u.len() as int, w.len() as int));
    assert(w.subrange(u.len() as int, w.len() as int) =~= m);
}

pub proof fn lemma_delta_pre<E: Endianness>(s: Seq<bool>, p: int)
    requires
        exists|x: u64| x < u64::MAX && #[trigger] starts(s, p, delta_bits(E::little(), x)),
    ensures
        exists|y: u64| y < u64::MAX && #[trigger] starts(s, p, gamma_bits(E::little(), y)),
{
    let x0 = choose|x: u64| x < u64::MAX && #[trigger] starts(s, p, delta_bits(E::little(), x));
    lemma_delta_split(s, p, E::little(), x0);
    let y0 = gamma_lambda(x0) as u64;
    assert(y0 < u64::MAX && starts(s, p, gamma_bits(E::little(), y0)));
}

/// after the gamma part: len is the lambda of every candidate value
pub proof fn lemma_delta_q<E: Endianness>(s: Seq<bool>, p: int, pos1: int, len: u64)
    requires
        exists|x: u64| x < u64::MAX && #[trigger] starts(s, p, delta_bits(E::little(), x)),
        forall|y: u64| y < u64::MAX && #[trigger] starts(s, p, gamma_bits(E::little(), y)) ==> len == y && pos1 == p + gamma_len(y),
    ensures
        len <= 63,
        forall|x: u64| x < u64::MAX && #[trigger] starts(s, p, delta_bits(E::little(), x)) ==> gamma_lambda(x) == len && pos1 == p + gamma_len(len),
{
    let le = E::little();
    assert forall|x: u64| x < u64::MAX && #[trigger] starts(s, p, delta_bits(le, x)) implies gamma_lambda(x) == len && pos1 == p + gamma_len(len) by {
        lemma_delta_split(s, p, le, x);
        let y = gamma_lambda(x) as u64;
        assert(starts(s, p, gamma_bits(le, y)));
    }
    let x0 = choose|x: u64| x < u64::MAX && #[trigger] starts(s, p, delta_bits(le, x));
    lemma_delta_split(s, p, le, x0);
}

pub proof fn lemma_delta_r<E: Endianness>(s: Seq<bool>, p: int, pos1: int, pos2: int, len: u64, top: u64, low: u64)
    requires
        len <= 63, top == 1u64 << len, pos2 == pos1 + len, pos2 <= s.len(),
        forall|x: u64| x < u64::MAX && #[trigger] starts(s, p, delta_bits(E::little(), x)) ==> gamma_lambda(x) == len && pos1 == p + gamma_len(len),
        (low as nat) < pow2(len as nat),
        field(E::little(), low, len as nat) == s.subrange(pos1, pos1 + len),
    ensures
        low + top <= u64::MAX, low + top >= 1,
        forall|x: u64| x < u64::MAX && #[trigger] starts(s, p, delta_bits(E::little(), x)) ==> low + top - 1 == x && pos2 == p + delta_len(x),
{
    let le = E::little();
    lemma_pi_top(len, top, low);
    assert forall|x: u64| x < u64::MAX && #[trigger] starts(s, p, delta_bits(le, x)) implies low + top - 1 == x && pos2 == p + delta_len(x) by {
        lemma_delta_split(s, p, le, x);
        let m = (x + 1) as u64;
        lemma_log2f_exists(m);
        lemma_pi_value(le, m, len as nat, low);
    }
}

//@FN file=src/codes/delta.rs item=- name=default_read_delta
//@SIG fn default_read_delta<E: Endianness, B: GammaReadParam<E>, const USE_GAMMA_TABLE: bool>(backend: &mut B) -> (r: Result<u64, B::Error>)
//@SPEC     requires
//@SPEC         old(backend).pos() <= old(backend).stream().len(),
//@SPEC         exists|x: u64| x < u64::MAX && #[trigger] starts(old(backend).stream(), old(backend).pos() as int, delta_bits(E::little(), x)),
//@SPEC     ensures
//@SPEC         final(backend).stream() == old(backend).stream(),
//@SPEC         r is Ok ==> forall|x: u64| x < u64::MAX && #[trigger] starts(old(backend).stream(), old(backend).pos() as int, delta_bits(E::little(), x))
//@SPEC             ==> r->Ok_0 == x && final(backend).pos() == old(backend).pos() + delta_len(x),
//@PROLOGUE proof { lemma_delta_pre::<E>(backend.stream(), backend.pos() as int); }
//@PROOF after=<<let len = backend.read_gamma_param::<USE_GAMMA_TABLE>()?;>> let ghost pos1 = backend.pos() as int; proof { lemma_delta_q::<E>(old(backend).stream(), old(backend).pos() as int, pos1, len); }
//@REPLACE_RE <<Ok\(backend\.read_bits\(len as usize\)\? \+ \(1 << len\) - 1\)>> => <<let low = backend.read_bits(len as usize)?; let top: u64 = 1 << len; proof { lemma_delta_r::<E>(old(backend).stream(), old(backend).pos() as int, pos1, backend.pos() as int, len, top, low); } Ok(low + top - 1)>>
//@END

} // verus!

fn main() {}
