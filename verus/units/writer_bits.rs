// Unit C01/writer_bits: the real text of `BufBitWriter::write_bits` and of
// `flush_be` / `flush_le` (src/impls/buf_bit_writer.rs) under the stream-view
// contract of DESIGN 2.1, for every value (dirty or clean), every width 0..=64
// and every Inv_W state (default configuration).
//
// Template parameters: {{W}} = backend word type, {{BITS}} = its width.
use vstd::prelude::*;
use vstd::arithmetic::power2::*;
use vstd::arithmetic::div_mod::*;
use vstd::bits::*;

verus! {

//@INCLUDE prelude.inc

//@INCLUDE writer_defs.inc

/// `CastableInto<WW::Word> for u64` of the real code (`common_traits`): `as` cast (truncating for narrow words)
pub trait CastableIntoW: Sized {
    spec fn cast_spec(self) -> {{W}};
    fn cast(self) -> (r: {{W}})
        ensures r == self.cast_spec();
}
impl CastableIntoW for u64 {
    open spec fn cast_spec(self) -> {{W}} { self as {{W}} }
    fn cast(self) -> (r: {{W}}) { self as {{W}} }
}

pub proof fn lemma_bit_of(v: u64, i: nat)
    requires i < 64,
    ensures bit_of(v, i) == ((v >> (i as u64)) & 1 == 1),
{
    lemma_u64_shr_is_div(v, i as u64);
    let s = v >> (i as u64);
    assert(s & 1 == s % 2) by (bit_vector);
}

/// the low bits survive the cast to the word type
pub proof fn lemma_trunc_bits(v: u64, j: nat)
    requires j < 64, j < {{BITS}},
    ensures wbit((v as {{W}}) as nat, j) == bit_of(v, j),
{
    lemma_wbit(v as {{W}}, j);
    lemma_bit_of(v, j);
    let jw = j as {{W}};
    let j6 = j as u64;
    assert((((v as {{W}}) >> jw) & 1 == 1) == ((v >> j6) & 1 == 1)) by (bit_vector) requires jw as u64 == j6, j6 < 64, jw < {{BITS}};
}

/// for words wider than 64 bits the cast adds zero bits
pub proof fn lemma_ext_bits(v: u64, j: nat)
    requires 64 <= j < {{BITS}},
    ensures !wbit((v as {{W}}) as nat, j),
{
    lemma_wbit(v as {{W}}, j);
    let jw = j as {{W}};
    assert(((v as {{W}}) >> jw) & 1 == 0) by (bit_vector) requires jw >= 64, jw < {{BITS}};
}

pub proof fn lemma_or_bits(x: {{W}}, y: {{W}}, j: nat)
    requires j < {{BITS}},
    ensures wbit((x | y) as nat, j) == (wbit(x as nat, j) || wbit(y as nat, j)),
{
    lemma_wbit(x | y, j);
    lemma_wbit(x, j);
    lemma_wbit(y, j);
    let jj = j as {{W}};
    assert((((x | y) >> jj) & 1 == 1) == (((x >> jj) & 1 == 1) || ((y >> jj) & 1 == 1))) by (bit_vector);
}

/// x & !(MAX << n): the n low bits of x
pub proof fn lemma_low_mask(x: {{W}}, n: nat, j: nat)
    requires n < {{BITS}}, j < {{BITS}},
    ensures wbit((x & !({{W}}::MAX << (n as {{W}}))) as nat, j) == (j < n && wbit(x as nat, j)),
{
    let y: {{W}} = x & !({{W}}::MAX << (n as {{W}}));
    lemma_wbit(y, j);
    lemma_wbit(x, j);
    let nn = n as {{W}};
    let jj = j as {{W}};
    assert((((x & !({{W}}::MAX << nn)) >> jj) & 1 == 1) == (jj < nn && ((x >> jj) & 1 == 1))) by (bit_vector) requires jj < {{BITS}}, nn < {{BITS}};
}

pub proof fn lemma_shl_bits(b: {{W}}, z: nat, j: nat)
    requires z < {{BITS}}, j < {{BITS}},
    ensures wbit(((b << (z as {{W}})) as {{W}}) as nat, j) == (j >= z && wbit(b as nat, (j - z) as nat)),
{
    let b2: {{W}} = b << (z as {{W}});
    lemma_wbit(b2, j);
    let zz = z as {{W}};
    let jj = j as {{W}};
    if j >= z {
        let k = (j - z) as nat;
        lemma_wbit(b, k);
        let kk = k as {{W}};
        assert(((b << zz) >> jj) & 1 == (b >> kk) & 1) by (bit_vector) requires jj == kk + zz, jj < {{BITS}};
    } else {
        assert(((b << zz) >> jj) & 1 == 0) by (bit_vector) requires jj < zz, zz < {{BITS}};
    }
}

pub proof fn lemma_shl1_bits(b: {{W}}, z: nat, j: nat)
    requires z < {{BITS}}, j < {{BITS}},
    ensures wbit((((b << (z as {{W}})) << 1) as {{W}}) as nat, j) == (j >= z + 1 && wbit(b as nat, (j - z - 1) as nat)),
{
    let b2: {{W}} = (b << (z as {{W}})) << 1;
    lemma_wbit(b2, j);
    let zz = z as {{W}};
    let jj = j as {{W}};
    if j >= z + 1 {
        let k = (j - z - 1) as nat;
        lemma_wbit(b, k);
        let kk = k as {{W}};
        assert((((b << zz) << 1) >> jj) & 1 == (b >> kk) & 1) by (bit_vector) requires jj == kk + zz + 1, jj < {{BITS}};
    } else {
        assert((((b << zz) << 1) >> jj) & 1 == 0) by (bit_vector) requires jj <= zz, zz < {{BITS}};
    }
}

/// bits of v >> z (u64)
pub proof fn lemma_shr64_bits(v: u64, z: nat, j: nat)
    requires z < 64, j < 64,
    ensures bit_of(v >> (z as u64), j) == (j + z < 64 && bit_of(v, j + z)),
{
    lemma_bit_of(v >> (z as u64), j);
    let zz = z as u64;
    let jj = j as u64;
    if j + z < 64 {
        lemma_bit_of(v, j + z);
        let kk = (j + z) as u64;
        assert(((v >> zz) >> jj) & 1 == (v >> kk) & 1) by (bit_vector) requires kk == jj + zz, kk < 64;
    } else {
        assert(((v >> zz) >> jj) & 1 == 0) by (bit_vector) requires jj + zz >= 64, jj < 64, zz < 64;
    }
}

/// t = v << (64 - n) >> (64 - s): the s most significant bits of the n-bit field of v
pub proof fn lemma_top_of_field(v: u64, n: nat, s: nat, j: nat)
    requires 1 <= s <= n, n <= 64, j < 64,
    ensures bit_of((v << ((64 - n) as u64)) >> ((64 - s) as u64), j) == (j < s && bit_of(v, (j + n - s) as nat)),
{
    let a = (64 - n) as u64;
    let c = (64 - s) as u64;
    let t: u64 = (v << a) >> c;
    lemma_bit_of(t, j);
    let jj = j as u64;
    if j < s {
        let k = (j + n - s) as nat;
        lemma_bit_of(v, k);
        let kk = k as u64;
        assert((((v << a) >> c) >> jj) & 1 == (v >> kk) & 1) by (bit_vector) requires kk + a == jj + c, jj + c < 64, a <= c, c < 64;
    } else {
        assert((((v << a) >> c) >> jj) & 1 == 0) by (bit_vector) requires jj + c >= 64, jj < 64, c < 64;
    }
}

/// `checks` configuration: the argument check of write_bits passes for a clean value
pub proof fn lemma_clean_check(value: u64, n: nat)
    requires n <= 64, (value as nat) < pow2(n),
    ensures value & (((1_u128 << (n as u64)).wrapping_sub(1)) as u64) == value,
{
    if n == 64 {
        let x: u128 = 1_u128 << 64u64;
        assert(x == 0x1_0000_0000_0000_0000u128) by (bit_vector) requires x == 1_u128 << 64u64;
        assert(value & 0xffff_ffff_ffff_ffffu64 == value) by (bit_vector);
    } else {
        let k = n as u64;
        let x: u128 = 1_u128 << k;
        assert(x as u64 == (1u64 << k) && x >= 1 && x <= 0x8000_0000_0000_0000u128) by (bit_vector) requires k <= 63, x == 1_u128 << k;
        lemma2_to64();
        lemma2_to64_rest();
        lemma_pow2_strictly_increases(n, 64);
        lemma_u64_shl_is_mul(1, k);
        assert(x as u64 as nat == pow2(n));
        assert(x == pow2(n));
        assert((x.wrapping_sub(1)) as u64 == low_bits_mask(n));
        lemma_u64_low_bits_mask_is_mod(value, n);
        lemma_pow2_pos(n);
        lemma_small_mod(value as nat, pow2(n));
    }
}

// ---------------------------------------------------------------- BE
/// easy path: (b << n) | (v.cast() & !(MAX << n))
pub proof fn lemma_be_wb_easy(b: {{W}}, p: nat, v: u64, n: nat, b2: {{W}})
    requires
        p + n < {{BITS}}, n <= 64,
        b2 == (b << (n as {{W}})) | ((v as {{W}}) & !({{W}}::MAX << (n as {{W}}))),
    ensures wpending(false, b2 as nat, p + n) =~= wpending(false, b as nat, p) + field(false, v, n),
{
    let x: {{W}} = b << (n as {{W}});
    let y: {{W}} = (v as {{W}}) & !({{W}}::MAX << (n as {{W}}));
    let m = p + n;
    assert forall|i: int| 0 <= i < m implies #[trigger] wpending(false, b2 as nat, m)[i] == (wpending(false, b as nat, p) + field(false, v, n))[i] by {
        let j = (m - 1 - i) as nat;
        lemma_or_bits(x, y, j);
        lemma_shl_bits(b, n, j);
        lemma_low_mask(v as {{W}}, n, j);
        if j < n { lemma_trunc_bits(v, j); }
    }
}

/// the word completed by the top s = BITS - p bits of the n-bit field
pub proof fn lemma_be_wb_fill(b: {{W}}, p: nat, v: u64, n: nat, t: u64, b2: {{W}})
    requires
        p < {{BITS}}, {{BITS}} - p <= n, n <= 64,
        t == (v << ((64 - n) as u64)) >> ((64 - ({{BITS}} - p)) as u64),
        b2 == ((b << (({{BITS}} - p - 1) as {{W}})) << 1) | (t as {{W}}),
    ensures wfield(false, b2 as nat, {{BITS}}) =~= wpending(false, b as nat, p) + field(false, v, n).subrange(0, {{BITS}} - p),
{
    let s = ({{BITS}} - p) as nat;
    let x: {{W}} = (b << ((s - 1) as {{W}})) << 1;
    let y: {{W}} = t as {{W}};
    assert forall|i: int| 0 <= i < {{BITS}} implies #[trigger] wfield(false, b2 as nat, {{BITS}})[i] == (wpending(false, b as nat, p) + field(false, v, n).subrange(0, s as int))[i] by {
        let j = ({{BITS}} - 1 - i) as nat;
        lemma_or_bits(x, y, j);
        lemma_shl1_bits(b, (s - 1) as nat, j);
        if j < 64 {
            lemma_trunc_bits(t, j);
            lemma_top_of_field(v, n, s, j);
        } else {
            lemma_ext_bits(t, j);
        }
    }
}

/// a whole middle word: bits [tw, tw + BITS) of v
pub proof fn lemma_be_wb_mid(v: u64, n: nat, tw: nat, w: {{W}})
    requires tw + {{BITS}} <= n, n <= 64, w == (v >> (tw as u64)) as {{W}},
    ensures wfield(false, w as nat, {{BITS}}) =~= field(false, v, n).subrange(n - tw - {{BITS}}, n - tw),
{
    assert forall|i: int| 0 <= i < {{BITS}} implies #[trigger] wfield(false, w as nat, {{BITS}})[i] == field(false, v, n).subrange(n - tw - {{BITS}}, n - tw)[i] by {
        let j = ({{BITS}} - 1 - i) as nat;
        lemma_trunc_bits(v >> (tw as u64), j);
        lemma_shr64_bits(v, tw, j);
    }
}

/// the tail left in the buffer: the tw low bits of v
pub proof fn lemma_be_wb_tail(v: u64, n: nat, tw: nat)
    requires tw < {{BITS}}, tw <= n, n <= 64,
    ensures wpending(false, (v as {{W}}) as nat, tw) =~= field(false, v, n).subrange(n - tw, n as int),
{
    assert forall|i: int| 0 <= i < tw implies #[trigger] wpending(false, (v as {{W}}) as nat, tw)[i] == field(false, v, n).subrange(n - tw, n as int)[i] by {
        lemma_trunc_bits(v, (tw - 1 - i) as nat);
    }
}

pub proof fn lemma_subrange_step(f: Seq<bool>, a: int, b: int)
    requires 0 <= a <= b <= f.len(),
    ensures f.subrange(0, a) + f.subrange(a, b) =~= f.subrange(0, b),
{}

impl<WW: WordWrite> BufBitWriter<BE, WW> {
    /// Inv_W
    spec fn inv(&self) -> bool { 1 <= self.space_left_in_buffer <= {{BITS}} }
    /// α_W: delivered words ++ pending bits
    spec fn view(&self) -> Seq<bool> {
        words_bits(false, self.backend.words()) + wpending(false, self.buffer as nat, ({{BITS}} - self.space_left_in_buffer) as nat)
    }

//@FN file=src/impls/buf_bit_writer.rs item=/impl<WW: WordWrite, WP: WriteParams> BitWrite<BE> for BufBitWriter<BE, WW, WP>/ name=write_bits
//@ATTR #[verifier::loop_isolation(false)]
//@SIG fn write_bits_be(&mut self, mut value: u64, n_bits: usize) -> (r: Result<usize, WW::Error>)
//@SPEC     requires old(self).inv(), n_bits <= 64,
//@SPEC[checks]         (value as nat) < pow2(n_bits as nat),
//@SPEC     ensures r is Ok ==> r->Ok_0 == n_bits && final(self).inv() && final(self).view() == old(self).view() + field(false, value, n_bits as nat),
//@INST <<WW::Word::BITS>> => <<{{BITS}}usize>>
//@INST <<WW::Word::MAX>> => <<{{W}}::MAX>>
//@REPLACE <<for _ in 0..>> => <<for _i in it: 0..>>
//@PROLOGUE let ghost sp = self.space_left_in_buffer as nat; let ghost p = ({{BITS}} - sp) as nat; let ghost b0 = self.buffer; let ghost ws0 = self.backend.words(); let ghost base = self.view(); let ghost F = field(false, value, n_bits as nat); let ghost n = n_bits as nat;
//@PROLOGUE[checks] proof { lemma_clean_check(value, n_bits as nat); }
//@PROOF after=<<self.space_left_in_buffer -= n_bits;>> proof { lemma_be_wb_easy(b0, p, value, n, self.buffer); assert(self.view() =~= base + F); }
//@REPLACE [[self.buffer |= (value << (64 - n_bits) >> (64 - self.space_left_in_buffer)).cast();]] => [[let tt = value << (64 - n_bits) >> (64 - self.space_left_in_buffer); self.buffer |= tt.cast();]]
//@PROOF after=<<self.buffer |= tt.cast();>> proof { lemma_be_wb_fill(b0, p, value, n, tt, self.buffer); }
//@PROOF after=<<self.backend.write_word(self.buffer.to_be())?;>> proof { lemma_push(false, ws0, spec_to_be(self.buffer)); axiom_be(self.buffer); assert(words_bits(false, self.backend.words()) =~= base + F.subrange(0, sp as int)); }
//@PROOF after=<<let mut to_write = n_bits - self.space_left_in_buffer;>> let ghost tw0 = to_write as nat;
//@LOOP 1 invariant
//@LOOP 1     self.space_left_in_buffer == sp, to_write == tw0 - {{BITS}} * _i, tw0 == n - sp, tw0 / {{BITS}} == it.snapshot.end,
//@LOOP 1     words_bits(false, self.backend.words()) == base + F.subrange(0, n - to_write),
//@REPLACE_RE [[self\.backend\s*\.write_word\(\(value >> to_write\)\.cast\(\)\.to_be\(\)\)\?;]] => [[let ghost wsc = self.backend.words(); let mw = (value >> to_write).cast(); self.backend.write_word(mw.to_be())?; proof { lemma_be_wb_mid(value, n, to_write as nat, mw); lemma_push(false, wsc, spec_to_be(mw)); axiom_be(mw); lemma_subrange_step(F, n - to_write - {{BITS}}, n - to_write); }]]
//@EPILOGUE proof { lemma_be_wb_tail(value, n, to_write as nat); lemma_subrange_step(F, n - to_write, n as int); assert(self.view() =~= base + F); }
//@END
}

// ---------------------------------------------------------------- LE
// rotate_right in bit form (discharged by the Kani obligation std_spec.rotate_right_*)
pub uninterp spec fn spec_rotr(x: {{W}}, n: u32) -> {{W}};
pub assume_specification[ {{W}}::rotate_right ](x: {{W}}, n: u32) -> (r: {{W}}) ensures r == spec_rotr(x, n);
#[verifier::external_body]
pub proof fn axiom_rotr(x: {{W}}, n: u32, j: nat)
    requires j < {{BITS}},
    ensures wbit(spec_rotr(x, n) as nat, j) == wbit(x as nat, ((j + n) % {{BITS}}) as nat),
{}

pub proof fn lemma_shr_bits(b: {{W}}, z: nat, j: nat)
    requires z < {{BITS}}, j < {{BITS}},
    ensures wbit(((b >> (z as {{W}})) as {{W}}) as nat, j) == (j + z < {{BITS}} && wbit(b as nat, j + z)),
{
    let b2: {{W}} = b >> (z as {{W}});
    lemma_wbit(b2, j);
    let zz = z as {{W}};
    let jj = j as {{W}};
    if j + z < {{BITS}} {
        let k = j + z;
        lemma_wbit(b, k);
        let kk = k as {{W}};
        assert(((b >> zz) >> jj) & 1 == (b >> kk) & 1) by (bit_vector) requires kk == jj + zz, kk < {{BITS}};
    } else {
        assert(((b >> zz) >> jj) & 1 == 0) by (bit_vector) requires jj + zz >= {{BITS}}, jj < {{BITS}}, zz < {{BITS}};
    }
}

pub proof fn lemma_shr1_bits(b: {{W}}, z: nat, j: nat)
    requires z < {{BITS}}, j < {{BITS}},
    ensures wbit((((b >> (z as {{W}})) >> 1) as {{W}}) as nat, j) == (j + z + 1 < {{BITS}} && wbit(b as nat, j + z + 1)),
{
    let b2: {{W}} = (b >> (z as {{W}})) >> 1;
    lemma_wbit(b2, j);
    let zz = z as {{W}};
    let jj = j as {{W}};
    if j + z + 1 < {{BITS}} {
        let k = j + z + 1;
        lemma_wbit(b, k);
        let kk = k as {{W}};
        assert((((b >> zz) >> 1) >> jj) & 1 == (b >> kk) & 1) by (bit_vector) requires kk == jj + zz + 1, kk < {{BITS}};
    } else {
        assert((((b >> zz) >> 1) >> jj) & 1 == 0) by (bit_vector) requires jj + zz + 1 >= {{BITS}}, jj < {{BITS}}, zz < {{BITS}};
    }
}

/// bits of (v >> z) >> 1 (u64)
pub proof fn lemma_shr64_1_bits(v: u64, z: nat, j: nat)
    requires z < 64, j < 64,
    ensures bit_of((v >> (z as u64)) >> 1, j) == (j + z + 1 < 64 && bit_of(v, j + z + 1)),
{
    lemma_bit_of((v >> (z as u64)) >> 1, j);
    let zz = z as u64;
    let jj = j as u64;
    if j + z + 1 < 64 {
        lemma_bit_of(v, j + z + 1);
        let kk = (j + z + 1) as u64;
        assert((((v >> zz) >> 1) >> jj) & 1 == (v >> kk) & 1) by (bit_vector) requires kk == jj + zz + 1, kk < 64;
    } else {
        assert((((v >> zz) >> 1) >> jj) & 1 == 0) by (bit_vector) requires jj + zz + 1 >= 64, jj < 64, zz < 64;
    }
}

/// easy path: (b >> n) | rotr(v.cast() & !(MAX << n), n)
pub proof fn lemma_le_wb_easy(b: {{W}}, p: nat, v: u64, n: nat, b2: {{W}})
    requires
        p + n < {{BITS}}, n <= 64,
        b2 == (b >> (n as {{W}})) | spec_rotr((v as {{W}}) & !({{W}}::MAX << (n as {{W}})), n as u32),
    ensures wpending(true, b2 as nat, p + n) =~= wpending(true, b as nat, p) + field(true, v, n),
{
    let x: {{W}} = b >> (n as {{W}});
    let y0: {{W}} = (v as {{W}}) & !({{W}}::MAX << (n as {{W}}));
    let y: {{W}} = spec_rotr(y0, n as u32);
    let m = p + n;
    assert forall|i: int| 0 <= i < m implies #[trigger] wpending(true, b2 as nat, m)[i] == (wpending(true, b as nat, p) + field(true, v, n))[i] by {
        let j = ({{BITS}} - m + i) as nat;
        lemma_or_bits(x, y, j);
        lemma_shr_bits(b, n, j);
        axiom_rotr(y0, n as u32, j);
        if j + n >= {{BITS}} {
            lemma_fundamental_div_mod_converse((j + n) as int, {{BITS}}, 1, (j + n - {{BITS}}) as int);
            lemma_low_mask(v as {{W}}, n, (j + n - {{BITS}}) as nat);
            lemma_trunc_bits(v, (j + n - {{BITS}}) as nat);
        } else {
            lemma_fundamental_div_mod_converse((j + n) as int, {{BITS}}, 0, (j + n) as int);
            lemma_low_mask(v as {{W}}, n, j + n);
        }
    }
}

/// the word completed by the first s = BITS - p bits of the field
pub proof fn lemma_le_wb_fill(b: {{W}}, p: nat, v: u64, n: nat, b2: {{W}})
    requires
        p < {{BITS}}, {{BITS}} - p <= n, n <= 64,
        b2 == ((b >> (({{BITS}} - p - 1) as {{W}})) >> 1) | ((v as {{W}}) << (p as {{W}})),
    ensures wfield(true, b2 as nat, {{BITS}}) =~= wpending(true, b as nat, p) + field(true, v, n).subrange(0, {{BITS}} - p),
{
    let s = ({{BITS}} - p) as nat;
    let x: {{W}} = (b >> ((s - 1) as {{W}})) >> 1;
    let y: {{W}} = (v as {{W}}) << (p as {{W}});
    assert forall|i: int| 0 <= i < {{BITS}} implies #[trigger] wfield(true, b2 as nat, {{BITS}})[i] == (wpending(true, b as nat, p) + field(true, v, n).subrange(0, s as int))[i] by {
        let j = i as nat;
        lemma_or_bits(x, y, j);
        lemma_shr1_bits(b, (s - 1) as nat, j);
        lemma_shl_bits(v as {{W}}, p, j);
        if j >= p { lemma_trunc_bits(v, (j - p) as nat); }
    }
}

/// a whole middle word: the low BITS bits of the (shifted) value
pub proof fn lemma_le_wb_mid(v0: u64, n: nat, done: nat, vc: u64, w: {{W}})
    requires
        done + {{BITS}} <= n, n <= 64, w == vc as {{W}},
        forall|j: nat| j < 64 ==> #[trigger] bit_of(vc, j) == (j + done < 64 && bit_of(v0, j + done)),
    ensures wfield(true, w as nat, {{BITS}}) =~= field(true, v0, n).subrange(done as int, (done + {{BITS}}) as int),
{
    assert forall|i: int| 0 <= i < {{BITS}} implies #[trigger] wfield(true, w as nat, {{BITS}})[i] == field(true, v0, n).subrange(done as int, (done + {{BITS}}) as int)[i] by {
        lemma_trunc_bits(vc, i as nat);
        assert(bit_of(vc, i as nat) == (i + done < 64 && bit_of(v0, (i + done) as nat)));
    }
}

/// the tail: the tw low bits of the (shifted) value, rotated to the top of the buffer
pub proof fn lemma_le_wb_tail(v0: u64, n: nat, done: nat, vc: u64, tw: nat, r: u32, b2: {{W}})
    requires
        tw < {{BITS}}, done + tw == n, n <= 64, r as nat % {{BITS}} == tw,
        b2 == spec_rotr(vc as {{W}}, r),
        forall|j: nat| j < 64 ==> #[trigger] bit_of(vc, j) == (j + done < 64 && bit_of(v0, j + done)),
    ensures wpending(true, b2 as nat, tw) =~= field(true, v0, n).subrange(done as int, n as int),
{
    assert forall|i: int| 0 <= i < tw implies #[trigger] wpending(true, b2 as nat, tw)[i] == field(true, v0, n).subrange(done as int, n as int)[i] by {
        let j = ({{BITS}} - tw + i) as nat;
        axiom_rotr(vc as {{W}}, r, j);
        // (j + r) % BITS == i
        let q = (r as nat / {{BITS}}) as int;
        lemma_fundamental_div_mod(r as int, {{BITS}});
        lemma_fundamental_div_mod_converse((j + r) as int, {{BITS}}, q + 1, i);
        lemma_trunc_bits(vc, i as nat);
        assert(bit_of(vc, i as nat) == (i + done < 64 && bit_of(v0, (i + done) as nat)));
    }
}

impl<WW: WordWrite> BufBitWriter<LE, WW> {
    spec fn inv(&self) -> bool { 1 <= self.space_left_in_buffer <= {{BITS}} }
    spec fn view(&self) -> Seq<bool> {
        words_bits(true, self.backend.words()) + wpending(true, self.buffer as nat, ({{BITS}} - self.space_left_in_buffer) as nat)
    }

//@FN file=src/impls/buf_bit_writer.rs item=/impl<WW: WordWrite, WP: WriteParams> BitWrite<LE> for BufBitWriter<LE, WW, WP>/ name=write_bits
//@ATTR #[verifier::loop_isolation(false)]
//@SIG fn write_bits_le(&mut self, mut value: u64, n_bits: usize) -> (r: Result<usize, WW::Error>)
//@SPEC     requires old(self).inv(), n_bits <= 64,
//@SPEC[checks]         (value as nat) < pow2(n_bits as nat),
//@SPEC     ensures r is Ok ==> r->Ok_0 == n_bits && final(self).inv() && final(self).view() == old(self).view() + field(true, value, n_bits as nat),
//@INST <<WW::Word::BITS>> => <<{{BITS}}usize>>
//@INST <<WW::Word::MAX>> => <<{{W}}::MAX>>
//@REPLACE <<for _ in 0..>> => <<for _i in it: 0..>>
//@PROLOGUE let ghost sp = self.space_left_in_buffer as nat; let ghost p = ({{BITS}} - sp) as nat; let ghost b0 = self.buffer; let ghost ws0 = self.backend.words(); let ghost base = self.view(); let ghost v0 = value; let ghost F = field(true, v0, n_bits as nat); let ghost n = n_bits as nat;
//@PROLOGUE[checks] proof { lemma_clean_check(value, n_bits as nat); }
//@PROOF after=<<self.space_left_in_buffer -= n_bits;>> proof { lemma_le_wb_easy(b0, p, v0, n, self.buffer); assert(self.view() =~= base + F); }
//@PROOF after=[[self.buffer |= value.cast() << ({{BITS}}usize - self.space_left_in_buffer);]] proof { lemma_le_wb_fill(b0, p, v0, n, self.buffer); }
//@PROOF after=<<self.backend.write_word(self.buffer.to_le())?;>> proof { lemma_push(true, ws0, spec_to_le(self.buffer)); axiom_le(self.buffer); assert(words_bits(true, self.backend.words()) =~= base + F.subrange(0, sp as int)); }
//@PROOF after=[[value = value >> (self.space_left_in_buffer - 1) >> 1;]] proof { assert forall|j: nat| j < 64 implies #[trigger] bit_of(value, j) == (j + sp < 64 && bit_of(v0, j + sp)) by { lemma_shr64_1_bits(v0, (sp - 1) as nat, j); } }
//@LOOP 1 invariant
//@LOOP 1     self.space_left_in_buffer == sp, to_write == n - sp, to_write / {{BITS}} == it.snapshot.end,
//@LOOP 1     forall|j: nat| j < 64 ==> #[trigger] bit_of(value, j) == (j + sp + {{BITS}} * _i < 64 && bit_of(v0, (j + sp + {{BITS}} * _i) as nat)),
//@LOOP 1     words_bits(true, self.backend.words()) == base + F.subrange(0, sp + {{BITS}} * _i),
//@REPLACE <<self.backend.write_word(value.cast().to_le())?;>> => <<let ghost wsc = self.backend.words(); let ghost vc = value; let mw = value.cast(); self.backend.write_word(mw.to_le())?; proof { assert(sp + {{BITS}} * (_i + 1) <= n) by (nonlinear_arith) requires _i < (n - sp) / {{BITS}}, sp <= n; lemma_le_wb_mid(v0, n, (sp + {{BITS}} * _i) as nat, vc, mw); lemma_push(true, wsc, spec_to_le(mw)); axiom_le(mw); lemma_subrange_step(F, sp + {{BITS}} * _i, sp + {{BITS}} * (_i + 1)); }>>
//@PROOF after=[[value >>= {{BITS}}usize;]] proof { assert forall|j: nat| j < 64 implies #[trigger] bit_of(value, j) == (j + sp + {{BITS}} * (_i + 1) < 64 && bit_of(v0, (j + sp + {{BITS}} * (_i + 1)) as nat)) by { lemma_shr64_bits(vc, {{BITS}}, j); if j + {{BITS}} < 64 { assert(bit_of(vc, j + {{BITS}}) == (j + {{BITS}} + sp + {{BITS}} * _i < 64 && bit_of(v0, (j + {{BITS}} + sp + {{BITS}} * _i) as nat))); } } }
//@EPILOGUE proof { let k = (to_write / {{BITS}}) as nat; let tw = (to_write % {{BITS}}) as nat; lemma_fundamental_div_mod(to_write as int, {{BITS}}); lemma_le_wb_tail(v0, n, (sp + {{BITS}} * k) as nat, value, tw, to_write as u32, self.buffer); lemma_subrange_step(F, (sp + {{BITS}} * k) as int, n as int); assert(self.view() =~= base + F); }
//@END
}

// ---------------------------------------------------------------- flush
pub proof fn lemma_be_flush(b: {{W}}, p: nat, b2: {{W}})
    requires 1 <= p < {{BITS}}, b2 == b << (({{BITS}} - p) as {{W}}),
    ensures wfield(false, b2 as nat, {{BITS}}) =~= wpending(false, b as nat, p) + zeros(({{BITS}} - p) as nat),
{
    let s = ({{BITS}} - p) as nat;
    assert forall|i: int| 0 <= i < {{BITS}} implies #[trigger] wfield(false, b2 as nat, {{BITS}})[i] == (wpending(false, b as nat, p) + zeros(s))[i] by {
        lemma_shl_bits(b, s, ({{BITS}} - 1 - i) as nat);
    }
}

pub proof fn lemma_le_flush(b: {{W}}, p: nat, b2: {{W}})
    requires 1 <= p < {{BITS}}, b2 == b >> (({{BITS}} - p) as {{W}}),
    ensures wfield(true, b2 as nat, {{BITS}}) =~= wpending(true, b as nat, p) + zeros(({{BITS}} - p) as nat),
{
    let s = ({{BITS}} - p) as nat;
    assert forall|i: int| 0 <= i < {{BITS}} implies #[trigger] wfield(true, b2 as nat, {{BITS}})[i] == (wpending(true, b as nat, p) + zeros(s))[i] by {
        lemma_shr_bits(b, s, i as nat);
    }
}

/// α_W of a writer of either endianness (flush_be / flush_le are generic in E in the real code)
spec fn wview<E, WW: WordWrite>(le: bool, w: &BufBitWriter<E, WW>) -> Seq<bool> {
    words_bits(le, w.backend.words()) + wpending(le, w.buffer as nat, ({{BITS}} - w.space_left_in_buffer) as nat)
}

//@FN file=src/impls/buf_bit_writer.rs item=- name=flush_be
//@SIGDROP <<, WP>>
//@SIG fn flush_be<E, WW: WordWrite>(buf_bit_writer: &mut BufBitWriter<E, WW>) -> (r: Result<usize, WW::Error>)
//@SPEC     requires 1 <= old(buf_bit_writer).space_left_in_buffer <= {{BITS}},
//@SPEC     ensures r is Ok ==> {
//@SPEC         &&& r->Ok_0 == {{BITS}} - old(buf_bit_writer).space_left_in_buffer
//@SPEC         &&& final(buf_bit_writer).space_left_in_buffer == {{BITS}}
//@SPEC         // the pending bits are delivered, padded with zeros to a whole word; nothing when there is none
//@SPEC         &&& wview(false, final(buf_bit_writer)) == wview(false, old(buf_bit_writer)) + zeros(if r->Ok_0 == 0 { 0 } else { old(buf_bit_writer).space_left_in_buffer as nat })
//@SPEC     },
//@INST <<WW::Word::BITS>> => <<{{BITS}}usize>>
//@PROLOGUE let ghost b0 = buf_bit_writer.buffer; let ghost ws0 = buf_bit_writer.backend.words(); let ghost sp = buf_bit_writer.space_left_in_buffer as nat; let ghost base = wview(false, buf_bit_writer);
//@PROOF after=<<buf_bit_writer.space_left_in_buffer = {{BITS}}usize;>> proof { lemma_be_flush(b0, ({{BITS}} - sp) as nat, buf_bit_writer.buffer); lemma_push(false, ws0, spec_to_be(buf_bit_writer.buffer)); axiom_be(buf_bit_writer.buffer); assert(wview(false, buf_bit_writer) =~= base + zeros(sp)); }
//@EPILOGUE proof { if to_flush == 0 { assert(wview(false, buf_bit_writer) =~= base + zeros(0)); } }
//@END

//@FN file=src/impls/buf_bit_writer.rs item=- name=flush_le
//@SIGDROP <<, WP>>
//@SIG fn flush_le<E, WW: WordWrite>(buf_bit_writer: &mut BufBitWriter<E, WW>) -> (r: Result<usize, WW::Error>)
//@SPEC     requires 1 <= old(buf_bit_writer).space_left_in_buffer <= {{BITS}},
//@SPEC     ensures r is Ok ==> {
//@SPEC         &&& r->Ok_0 == {{BITS}} - old(buf_bit_writer).space_left_in_buffer
//@SPEC         &&& final(buf_bit_writer).space_left_in_buffer == {{BITS}}
//@SPEC         &&& wview(true, final(buf_bit_writer)) == wview(true, old(buf_bit_writer)) + zeros(if r->Ok_0 == 0 { 0 } else { old(buf_bit_writer).space_left_in_buffer as nat })
//@SPEC     },
//@INST <<WW::Word::BITS>> => <<{{BITS}}usize>>
//@PROLOGUE let ghost b0 = buf_bit_writer.buffer; let ghost ws0 = buf_bit_writer.backend.words(); let ghost sp = buf_bit_writer.space_left_in_buffer as nat; let ghost base = wview(true, buf_bit_writer);
//@PROOF after=<<buf_bit_writer.space_left_in_buffer = {{BITS}}usize;>> proof { lemma_le_flush(b0, ({{BITS}} - sp) as nat, buf_bit_writer.buffer); lemma_push(true, ws0, spec_to_le(buf_bit_writer.buffer)); axiom_le(buf_bit_writer.buffer); assert(wview(true, buf_bit_writer) =~= base + zeros(sp)); }
//@EPILOGUE proof { if to_flush == 0 { assert(wview(true, buf_bit_writer) =~= base + zeros(0)); } }
//@END

} // verus!

fn main() {}
