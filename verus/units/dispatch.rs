// Unit C10/dispatch: the real text of the code-enumeration dispatchers
// `<Codes as DynamicCodeWrite>::write`, `<Codes as DynamicCodeRead>::read` and
// `<Codes as CodeLen>::len` (src/dispatch/codes.rs): for EVERY variant and EVERY
// accepted parameter (not only the 0..=10 grid of the native obligations) the
// dispatcher performs exactly the code it names: same bits appended, same value
// and final position, same length as the code's own method.
//
// The codes' own methods are contract-carrying declarations whose effect is an
// uninterpreted function of (value, parameter) / of the stream: the statement is
// relational (dispatcher = direct method). The two identities the dispatcher
// relies on (zeta_1 = gamma, for bits and lengths) are axioms here and lemmas of
// the zeta unit (lemma_zeta1_is_gamma).
use vstd::prelude::*;

verus! {

global size_of usize == 8;

pub trait Endianness: Sized {
    spec fn little() -> bool;
}

//@ITEM file=src/dispatch/codes.rs item=/pub enum Codes/

// what each code writes / reads / how long it is, as uninterpreted functions
pub uninterp spec fn unary_bits(n: u64) -> Seq<bool>;
pub uninterp spec fn gamma_bits(le: bool, n: u64) -> Seq<bool>;
pub uninterp spec fn delta_bits(le: bool, n: u64) -> Seq<bool>;
pub uninterp spec fn omega_bits(le: bool, n: u64) -> Seq<bool>;
pub uninterp spec fn vbyte_bits(le: bool, big: bool, n: u64) -> Seq<bool>;
pub uninterp spec fn zeta_bits(le: bool, n: u64, k: nat) -> Seq<bool>;
pub uninterp spec fn pi_bits(le: bool, n: u64, k: nat) -> Seq<bool>;
pub uninterp spec fn golomb_bits(le: bool, n: u64, b: u64) -> Seq<bool>;
pub uninterp spec fn eg_bits(le: bool, n: u64, k: nat) -> Seq<bool>;
pub uninterp spec fn rice_bits(le: bool, n: u64, k: nat) -> Seq<bool>;

/// the codeword the enumeration value names
pub open spec fn code_bits(c: Codes, le: bool, n: u64) -> Seq<bool> {
    match c {
        Codes::Unary => unary_bits(n),
        Codes::Gamma => gamma_bits(le, n),
        Codes::Delta => delta_bits(le, n),
        Codes::Omega => omega_bits(le, n),
        Codes::VByteLe => vbyte_bits(le, false, n),
        Codes::VByteBe => vbyte_bits(le, true, n),
        Codes::Zeta { k } => zeta_bits(le, n, k as nat),
        Codes::Pi { k } => pi_bits(le, n, k as nat),
        Codes::Golomb { b } => golomb_bits(le, n, b as u64),
        Codes::ExpGolomb { k } => eg_bits(le, n, k as nat),
        Codes::Rice { log2_b } => rice_bits(le, n, log2_b as nat),
    }
}

/// parameters the codes accept
pub open spec fn supported(c: Codes) -> bool {
    match c {
        Codes::Zeta { k } => 1 <= k <= 63,
        Codes::Pi { k } => k <= 63,
        Codes::Golomb { b } => b >= 1,
        Codes::ExpGolomb { k } => k <= 63,
        Codes::Rice { log2_b } => log2_b <= 63,
        _ => true,
    }
}

/// zeta_1 = gamma (proved in the zeta unit: lemma_zeta1_is_gamma)
#[verifier::external_body]
pub proof fn axiom_zeta1_gamma(le: bool, n: u64)
    ensures zeta_bits(le, n, 1) == gamma_bits(le, n), zeta_len(n, 1) == gamma_len(n),
{}

pub trait CodesWrite<E: Endianness>: Sized {
    type Error;
    spec fn view(&self) -> Seq<bool>;
    fn write_unary(&mut self, n: u64) -> (r: Result<usize, Self::Error>)
        requires n < u64::MAX,
        ensures r is Ok ==> final(self).view() == old(self).view() + unary_bits(n) && r->Ok_0 == unary_len(n);
    fn write_gamma(&mut self, n: u64) -> (r: Result<usize, Self::Error>)
        requires n < u64::MAX,
        ensures r is Ok ==> final(self).view() == old(self).view() + gamma_bits(E::little(), n) && r->Ok_0 == gamma_len(n);
    fn write_delta(&mut self, n: u64) -> (r: Result<usize, Self::Error>)
        requires n < u64::MAX,
        ensures r is Ok ==> final(self).view() == old(self).view() + delta_bits(E::little(), n) && r->Ok_0 == delta_len(n);
    fn write_omega(&mut self, n: u64) -> (r: Result<usize, Self::Error>)
        requires n < u64::MAX,
        ensures r is Ok ==> final(self).view() == old(self).view() + omega_bits(E::little(), n) && r->Ok_0 == omega_len(n);
    fn write_vbyte_be(&mut self, n: u64) -> (r: Result<usize, Self::Error>)
        ensures r is Ok ==> final(self).view() == old(self).view() + vbyte_bits(E::little(), true, n) && r->Ok_0 == vbyte_len(n);
    fn write_vbyte_le(&mut self, n: u64) -> (r: Result<usize, Self::Error>)
        ensures r is Ok ==> final(self).view() == old(self).view() + vbyte_bits(E::little(), false, n) && r->Ok_0 == vbyte_len(n);
    fn write_zeta3(&mut self, n: u64) -> (r: Result<usize, Self::Error>)
        requires n < u64::MAX,
        ensures r is Ok ==> final(self).view() == old(self).view() + zeta_bits(E::little(), n, 3) && r->Ok_0 == zeta_len(n, 3);
    fn write_zeta(&mut self, n: u64, k: usize) -> (r: Result<usize, Self::Error>)
        requires n < u64::MAX, 1 <= k <= 63,
        ensures r is Ok ==> final(self).view() == old(self).view() + zeta_bits(E::little(), n, k as nat) && r->Ok_0 == zeta_len(n, k as nat);
    fn write_pi(&mut self, n: u64, k: usize) -> (r: Result<usize, Self::Error>)
        requires n < u64::MAX, k <= 63,
        ensures r is Ok ==> final(self).view() == old(self).view() + pi_bits(E::little(), n, k as nat) && r->Ok_0 == pi_len(n, k as nat);
    fn write_golomb(&mut self, n: u64, b: u64) -> (r: Result<usize, Self::Error>)
        requires n < u64::MAX, b >= 1,
        ensures r is Ok ==> final(self).view() == old(self).view() + golomb_bits(E::little(), n, b) && r->Ok_0 == golomb_len(n, b);
    fn write_exp_golomb(&mut self, n: u64, k: usize) -> (r: Result<usize, Self::Error>)
        requires n < u64::MAX, k <= 63,
        ensures r is Ok ==> final(self).view() == old(self).view() + eg_bits(E::little(), n, k as nat) && r->Ok_0 == eg_len(n, k as nat);
    fn write_rice(&mut self, n: u64, log2_b: usize) -> (r: Result<usize, Self::Error>)
        requires n < u64::MAX, log2_b <= 63,
        ensures r is Ok ==> final(self).view() == old(self).view() + rice_bits(E::little(), n, log2_b as nat) && r->Ok_0 == rice_len(n, log2_b as nat);
}

// lengths
pub uninterp spec fn unary_len(n: u64) -> usize;
pub uninterp spec fn gamma_len(n: u64) -> usize;
pub uninterp spec fn delta_len(n: u64) -> usize;
pub uninterp spec fn omega_len(n: u64) -> usize;
pub uninterp spec fn vbyte_len(n: u64) -> usize;
pub uninterp spec fn zeta_len(n: u64, k: nat) -> usize;
pub uninterp spec fn pi_len(n: u64, k: nat) -> usize;
pub uninterp spec fn golomb_len(n: u64, b: u64) -> usize;
pub uninterp spec fn eg_len(n: u64, k: nat) -> usize;
pub uninterp spec fn rice_len(n: u64, k: nat) -> usize;

pub open spec fn code_len(c: Codes, n: u64) -> usize {
    match c {
        Codes::Unary => unary_len(n),
        Codes::Gamma => gamma_len(n),
        Codes::Delta => delta_len(n),
        Codes::Omega => omega_len(n),
        Codes::VByteLe => vbyte_len(n),
        Codes::VByteBe => vbyte_len(n),
        Codes::Zeta { k } => zeta_len(n, k as nat),
        Codes::Pi { k } => pi_len(n, k as nat),
        Codes::Golomb { b } => golomb_len(n, b as u64),
        Codes::ExpGolomb { k } => eg_len(n, k as nat),
        Codes::Rice { log2_b } => rice_len(n, log2_b as nat),
    }
}

/// the unary length is value + 1 (C06)
#[verifier::external_body]
pub proof fn axiom_unary_len(n: u64)
    requires n < u64::MAX,
    ensures unary_len(n) == n + 1,
{}

#[verifier::external_body] pub fn len_gamma(n: u64) -> (r: usize) requires n < u64::MAX, ensures r == gamma_len(n), { unimplemented!() }
#[verifier::external_body] pub fn len_delta(n: u64) -> (r: usize) requires n < u64::MAX, ensures r == delta_len(n), { unimplemented!() }
#[verifier::external_body] pub fn len_omega(n: u64) -> (r: usize) requires n < u64::MAX, ensures r == omega_len(n), { unimplemented!() }
#[verifier::external_body] pub fn bit_len_vbyte(n: u64) -> (r: usize) ensures r == vbyte_len(n), { unimplemented!() }
#[verifier::external_body] pub fn len_zeta(n: u64, k: usize) -> (r: usize) requires n < u64::MAX, 1 <= k <= 63, ensures r == zeta_len(n, k as nat), { unimplemented!() }
#[verifier::external_body] pub fn len_pi(n: u64, k: usize) -> (r: usize) requires n < u64::MAX, k <= 63, ensures r == pi_len(n, k as nat), { unimplemented!() }
#[verifier::external_body] pub fn len_golomb(n: u64, b: u64) -> (r: usize) requires n < u64::MAX, b >= 1, ensures r == golomb_len(n, b), { unimplemented!() }
#[verifier::external_body] pub fn len_exp_golomb(n: u64, k: usize) -> (r: usize) requires n < u64::MAX, k <= 63, ensures r == eg_len(n, k as nat), { unimplemented!() }
#[verifier::external_body] pub fn len_rice(n: u64, k: usize) -> (r: usize) requires n < u64::MAX, k <= 63, ensures r == rice_len(n, k as nat), { unimplemented!() }

// what each code's reader returns (value, final position) on a stream: an uninterpreted function of the stream
pub uninterp spec fn unary_read(s: Seq<bool>, p: nat) -> (u64, nat);
pub uninterp spec fn gamma_read(le: bool, s: Seq<bool>, p: nat) -> (u64, nat);
pub uninterp spec fn delta_read(le: bool, s: Seq<bool>, p: nat) -> (u64, nat);
pub uninterp spec fn omega_read(le: bool, s: Seq<bool>, p: nat) -> (u64, nat);
pub uninterp spec fn vbyte_read(le: bool, big: bool, s: Seq<bool>, p: nat) -> (u64, nat);
pub uninterp spec fn zeta_read(le: bool, s: Seq<bool>, p: nat, k: nat) -> (u64, nat);
pub uninterp spec fn pi_read(le: bool, s: Seq<bool>, p: nat, k: nat) -> (u64, nat);
pub uninterp spec fn golomb_read(le: bool, s: Seq<bool>, p: nat, b: u64) -> (u64, nat);
pub uninterp spec fn eg_read(le: bool, s: Seq<bool>, p: nat, k: nat) -> (u64, nat);
pub uninterp spec fn rice_read(le: bool, s: Seq<bool>, p: nat, k: nat) -> (u64, nat);

pub open spec fn code_read(c: Codes, le: bool, s: Seq<bool>, p: nat) -> (u64, nat) {
    match c {
        Codes::Unary => unary_read(s, p),
        Codes::Gamma => gamma_read(le, s, p),
        Codes::Delta => delta_read(le, s, p),
        Codes::Omega => omega_read(le, s, p),
        Codes::VByteLe => vbyte_read(le, false, s, p),
        Codes::VByteBe => vbyte_read(le, true, s, p),
        Codes::Zeta { k } => zeta_read(le, s, p, k as nat),
        Codes::Pi { k } => pi_read(le, s, p, k as nat),
        Codes::Golomb { b } => golomb_read(le, s, p, b as u64),
        Codes::ExpGolomb { k } => eg_read(le, s, p, k as nat),
        Codes::Rice { log2_b } => rice_read(le, s, p, log2_b as nat),
    }
}

pub trait CodesRead<E: Endianness>: Sized {
    type Error;
    spec fn stream(&self) -> Seq<bool>;
    spec fn pos(&self) -> nat;
    fn read_unary(&mut self) -> (r: Result<u64, Self::Error>)
        ensures final(self).stream() == old(self).stream(), r is Ok ==> (r->Ok_0, final(self).pos()) == unary_read(old(self).stream(), old(self).pos());
    fn read_gamma(&mut self) -> (r: Result<u64, Self::Error>)
        ensures final(self).stream() == old(self).stream(), r is Ok ==> (r->Ok_0, final(self).pos()) == gamma_read(E::little(), old(self).stream(), old(self).pos());
    fn read_delta(&mut self) -> (r: Result<u64, Self::Error>)
        ensures final(self).stream() == old(self).stream(), r is Ok ==> (r->Ok_0, final(self).pos()) == delta_read(E::little(), old(self).stream(), old(self).pos());
    fn read_omega(&mut self) -> (r: Result<u64, Self::Error>)
        ensures final(self).stream() == old(self).stream(), r is Ok ==> (r->Ok_0, final(self).pos()) == omega_read(E::little(), old(self).stream(), old(self).pos());
    fn read_vbyte_be(&mut self) -> (r: Result<u64, Self::Error>)
        ensures final(self).stream() == old(self).stream(), r is Ok ==> (r->Ok_0, final(self).pos()) == vbyte_read(E::little(), true, old(self).stream(), old(self).pos());
    fn read_vbyte_le(&mut self) -> (r: Result<u64, Self::Error>)
        ensures final(self).stream() == old(self).stream(), r is Ok ==> (r->Ok_0, final(self).pos()) == vbyte_read(E::little(), false, old(self).stream(), old(self).pos());
    fn read_zeta3(&mut self) -> (r: Result<u64, Self::Error>)
        ensures final(self).stream() == old(self).stream(), r is Ok ==> (r->Ok_0, final(self).pos()) == zeta_read(E::little(), old(self).stream(), old(self).pos(), 3);
    fn read_zeta(&mut self, k: usize) -> (r: Result<u64, Self::Error>)
        requires 1 <= k <= 63,
        ensures final(self).stream() == old(self).stream(), r is Ok ==> (r->Ok_0, final(self).pos()) == zeta_read(E::little(), old(self).stream(), old(self).pos(), k as nat);
    fn read_pi(&mut self, k: usize) -> (r: Result<u64, Self::Error>)
        requires k <= 63,
        ensures final(self).stream() == old(self).stream(), r is Ok ==> (r->Ok_0, final(self).pos()) == pi_read(E::little(), old(self).stream(), old(self).pos(), k as nat);
    fn read_golomb(&mut self, b: u64) -> (r: Result<u64, Self::Error>)
        requires b >= 1,
        ensures final(self).stream() == old(self).stream(), r is Ok ==> (r->Ok_0, final(self).pos()) == golomb_read(E::little(), old(self).stream(), old(self).pos(), b);
    fn read_exp_golomb(&mut self, k: usize) -> (r: Result<u64, Self::Error>)
        requires k <= 63,
        ensures final(self).stream() == old(self).stream(), r is Ok ==> (r->Ok_0, final(self).pos()) == eg_read(E::little(), old(self).stream(), old(self).pos(), k as nat);
    fn read_rice(&mut self, log2_b: usize) -> (r: Result<u64, Self::Error>)
        requires log2_b <= 63,
        ensures final(self).stream() == old(self).stream(), r is Ok ==> (r->Ok_0, final(self).pos()) == rice_read(E::little(), old(self).stream(), old(self).pos(), log2_b as nat);
}

impl Codes {
//@FN file=src/dispatch/codes.rs item=/impl DynamicCodeWrite for Codes/ name=write
//@SIG fn dyn_write<E: Endianness, CW: CodesWrite<E>>(&self, writer: &mut CW, value: u64) -> (r: Result<usize, CW::Error>)
//@SPEC     requires supported(*self), value < u64::MAX,
//@SPEC     ensures r is Ok ==> final(writer).view() == old(writer).view() + code_bits(*self, E::little(), value) && r->Ok_0 == code_len(*self, value),
//@PROLOGUE proof { axiom_zeta1_gamma(E::little(), value); }
//@END

//@FN file=src/dispatch/codes.rs item=/impl DynamicCodeRead for Codes/ name=read
//@SIG fn dyn_read<E: Endianness, CR: CodesRead<E>>(&self, reader: &mut CR) -> (r: Result<u64, CR::Error>)
//@SPEC     requires supported(*self),
//@SPEC     ensures final(reader).stream() == old(reader).stream(),
//@SPEC         r is Ok ==> (r->Ok_0, final(reader).pos()) == code_read(*self, E::little(), old(reader).stream(), old(reader).pos()),
//@END

//@FN file=src/dispatch/codes.rs item=/impl CodeLen for Codes/ name=len
//@SIG fn code_len_dispatch(&self, value: u64) -> (r: usize)
//@SPEC     requires supported(*self), value < u64::MAX,
//@SPEC     ensures r == code_len(*self, value),
//@PROLOGUE proof { axiom_zeta1_gamma(false, value); axiom_unary_len(value); }
//@END
}

} // verus!

fn main() {}
