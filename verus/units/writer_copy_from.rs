// Unit C08/writer_copy_from: the real text of the optimised
// `BufBitWriter::copy_from` (BE and LE impls, src/impls/buf_bit_writer.rs) under
// the stream-view contract, for EVERY n (the word loop is unbounded here; the Kani
// obligations c08.copy_from.* are bounded by the ghost window), generic in the
// source reader `R: BitRead<F>` of the same endianness.
//
// Template parameters: {{W}} = backend word type, {{BITS}} = its width.
// `self.write_bits` (used by the path for words wider than 64 bits) is taken by
// contract (external_body; the contract is discharged by the Kani obligations
// c01.write_bits.*).
use vstd::prelude::*;
use vstd::arithmetic::power2::*;
use vstd::arithmetic::div_mod::*;
use vstd::bits::*;

verus! {

//@INJECT top
pub enum CopyError<RE, WE> {
    ReadError(RE),
    WriteError(WE),
}
//@ENDINJECT

//@INCLUDE prelude.inc

//@INCLUDE writer_defs.inc

/// `CastableInto<WW::Word> for u64` of the real code (`common_traits`): `as` cast
pub trait CastableIntoW: Sized {
    spec fn cast_spec(self) -> {{W}};
    fn cast(self) -> (r: {{W}})
        ensures r == self.cast_spec();
}
impl CastableIntoW for u64 {
    open spec fn cast_spec(self) -> {{W}} { self as {{W}} }
    fn cast(self) -> (r: {{W}}) { self as {{W}} }
}

// rotate_right in bit form (discharged by the Kani obligation std_spec.rotate_right_*)
pub uninterp spec fn spec_rotr(x: {{W}}, n: u32) -> {{W}};
pub assume_specification[ {{W}}::rotate_right ](x: {{W}}, n: u32) -> (r: {{W}}) ensures r == spec_rotr(x, n);
#[verifier::external_body]
pub proof fn axiom_rotr(x: {{W}}, n: u32, j: nat)
    requires j < {{BITS}},
    ensures wbit(spec_rotr(x, n) as nat, j) == wbit(x as nat, ((j + n) % {{BITS}}) as nat),
{}

/// appending the chunk just moved extends the moved prefix
pub proof fn lemma_chunk(s: Seq<bool>, p: int, a: int, b: int)
    requires 0 <= p <= a <= b <= s.len(),
    ensures s.subrange(p, a) + s.subrange(a, b) == s.subrange(p, b),
{
    assert(s.subrange(p, a) + s.subrange(a, b) =~= s.subrange(p, b));
}

/// a value below 2^n survives the cast to the word type and has no bit at or above n
pub proof fn lemma_cast(v: u64, n: nat)
    requires n <= {{BITS}}, n <= 64, (v as nat) < pow2(n),
    ensures
        (v as {{W}}) as nat == v as nat,
        forall|i: nat| i < {{BITS}} ==> #[trigger] wbit((v as {{W}}) as nat, i) == (i < n && bit_of(v, i)),
{
    lemma2_to64();
    lemma2_to64_rest();
    lemma_pow2_strictly_increases_or_eq(n, {{BITS}});
    assert forall|i: nat| i < {{BITS}} implies #[trigger] wbit((v as {{W}}) as nat, i) == (i < n && bit_of(v, i)) by {
        if i >= n {
            lemma_pow2_strictly_increases_or_eq(n, i);
            lemma_pow2_pos(i);
            assert((v as nat) / pow2(i) == 0) by (nonlinear_arith) requires (v as nat) < pow2(i), pow2(i) > 0;
        }
    }
}

pub proof fn lemma_pow2_strictly_increases_or_eq(a: nat, b: nat)
    requires a <= b,
    ensures pow2(a) <= pow2(b),
{
    if a < b { lemma_pow2_strictly_increases(a, b); }
}

// ---------------------------------------------------------------- BE
/// (b << n) | v : the p pending bits followed by the n-bit field of v
pub proof fn lemma_be_append_field(b: {{W}}, p: nat, v: u64, n: nat)
    requires p + n < {{BITS}}, n <= 64, (v as nat) < pow2(n),
    ensures wpending(false, (((b << (n as {{W}})) | (v as {{W}})) as {{W}}) as nat, p + n) =~= wpending(false, b as nat, p) + field(false, v, n),
{
    lemma_cast(v, n);
    let vw = v as {{W}};
    let b2: {{W}} = (b << (n as {{W}})) | vw;
    let m = p + n;
    let nn = n as {{W}};
    lemma_{{W}}_shr_is_div(vw, nn);
    lemma_pow2_pos(n);
    assert((vw as nat) / pow2(n) == 0) by (nonlinear_arith) requires (vw as nat) < pow2(n), pow2(n) > 0;
    assert(vw >> nn == 0);
    assert forall|j: int| 0 <= j < m implies #[trigger] wpending(false, b2 as nat, m)[j] == (wpending(false, b as nat, p) + field(false, v, n))[j] by {
        let i = (m - 1 - j) as nat;
        lemma_wbit(b2, i);
        let ii = i as {{W}};
        if j < p {
            let k = (p - 1 - j) as nat;
            lemma_wbit(b, k);
            let kk = k as {{W}};
            assert((((b << nn) | vw) >> ii) & 1 == (b >> kk) & 1) by (bit_vector)
                requires ii == kk + nn, ii < {{BITS}}, vw >> nn == 0;
        } else {
            lemma_wbit(vw, i);
            assert((((b << nn) | vw) >> ii) & 1 == (vw >> ii) & 1) by (bit_vector)
                requires ii < nn, nn < {{BITS}};
        }
    }
}

/// (b << (s-1) << 1) | v with s = BITS - p: a full word
pub proof fn lemma_be_fill(b: {{W}}, p: nat, v: u64)
    requires p < {{BITS}}, {{BITS}} - p <= 64, (v as nat) < pow2(({{BITS}} - p) as nat),
    ensures wfield(false, ((((b << (({{BITS}} - p - 1) as {{W}})) << 1) | (v as {{W}})) as {{W}}) as nat, {{BITS}}) =~= wpending(false, b as nat, p) + field(false, v, ({{BITS}} - p) as nat),
{
    let s = ({{BITS}} - p) as nat;
    lemma_cast(v, s);
    let vw = v as {{W}};
    let ss = (s - 1) as {{W}};
    let b2: {{W}} = ((b << ss) << 1) | vw;
    assert forall|j: int| 0 <= j < {{BITS}} implies #[trigger] wfield(false, b2 as nat, {{BITS}})[j] == (wpending(false, b as nat, p) + field(false, v, s))[j] by {
        let i = ({{BITS}} - 1 - j) as nat;
        lemma_wbit(b2, i);
        let ii = i as {{W}};
        lemma_wbit(vw, i);
        if j < p {
            let k = (p - 1 - j) as nat;
            lemma_wbit(b, k);
            let kk = k as {{W}};
            assert(!wbit(vw as nat, i));
            assert(((((b << ss) << 1) | vw) >> ii) & 1 == (b >> kk) & 1) by (bit_vector)
                requires ii == kk + ss + 1, ii < {{BITS}}, (vw >> ii) & 1 != 1;
        } else {
            assert(((((b << ss) << 1) | vw) >> ii) & 1 == (vw >> ii) & 1) by (bit_vector)
                requires ii <= ss, ss < {{BITS}};
        }
    }
}

/// a whole word read as a BITS-wide field
pub proof fn lemma_word_field(le: bool, v: u64)
    requires {{BITS}} <= 64, (v as nat) < pow2({{BITS}}),
    ensures wfield(le, (v as {{W}}) as nat, {{BITS}}) =~= field(le, v, {{BITS}}),
{
    lemma_cast(v, {{BITS}});
}

/// the tail: n < BITS bits in an otherwise empty buffer
pub proof fn lemma_be_tail(v: u64, n: nat)
    requires n < {{BITS}}, n <= 64, (v as nat) < pow2(n),
    ensures wpending(false, (v as {{W}}) as nat, n) =~= field(false, v, n),
{
    lemma_cast(v, n);
}

// ---------------------------------------------------------------- LE
pub proof fn lemma_or_bits(x: {{W}}, y: {{W}}, j: nat)
    requires j < {{BITS}},
    ensures wbit((x | y) as nat, j) == (wbit(x as nat, j) || wbit(y as nat, j)),
{
    lemma_wbit(x | y, j);
    lemma_wbit(x, j);
    lemma_wbit(y, j);
    let jj = j as {{W}};
    assert((((x | y) >> jj) & 1 == 1) == (((x >> jj) & 1 == 1) || ((y >> jj) & 1 == 1))) by (bit_vector);
}

/// bits of (b >> z) >> 1
pub proof fn lemma_shr1_bits(b: {{W}}, z: nat, j: nat)
    requires z < {{BITS}}, j < {{BITS}},
    ensures wbit((((b >> (z as {{W}})) >> 1) as {{W}}) as nat, j) == (j + z + 1 < {{BITS}} && wbit(b as nat, j + z + 1)),
{
    let b2: {{W}} = (b >> (z as {{W}})) >> 1;
    lemma_wbit(b2, j);
    let zz = z as {{W}};
    let jj = j as {{W}};
    if j + z + 1 < {{BITS}} {
        let k = j + z + 1;
        lemma_wbit(b, k);
        let kk = k as {{W}};
        assert((((b >> zz) >> 1) >> jj) & 1 == (b >> kk) & 1) by (bit_vector) requires kk == jj + zz + 1, kk < {{BITS}};
    } else {
        assert((((b >> zz) >> 1) >> jj) & 1 == 0) by (bit_vector) requires jj + zz + 1 >= {{BITS}}, jj < {{BITS}}, zz < {{BITS}};
    }
}

/// bits of b >> z
pub proof fn lemma_shr_bits(b: {{W}}, z: nat, j: nat)
    requires z < {{BITS}}, j < {{BITS}},
    ensures wbit(((b >> (z as {{W}})) as {{W}}) as nat, j) == (j + z < {{BITS}} && wbit(b as nat, j + z)),
{
    let b2: {{W}} = b >> (z as {{W}});
    lemma_wbit(b2, j);
    let zz = z as {{W}};
    let jj = j as {{W}};
    if j + z < {{BITS}} {
        let k = j + z;
        lemma_wbit(b, k);
        let kk = k as {{W}};
        assert(((b >> zz) >> jj) & 1 == (b >> kk) & 1) by (bit_vector) requires kk == jj + zz, kk < {{BITS}};
    } else {
        assert(((b >> zz) >> jj) & 1 == 0) by (bit_vector) requires jj + zz >= {{BITS}}, jj < {{BITS}}, zz < {{BITS}};
    }
}

/// the bits of rotr(v as W, n) for v < 2^n: the n-bit field moved to the top
pub proof fn lemma_rotr_bits(v: u64, n: nat, j: nat)
    requires n <= {{BITS}}, n <= 64, (v as nat) < pow2(n), j < {{BITS}},
    ensures wbit(spec_rotr(v as {{W}}, n as u32) as nat, j) == (j >= {{BITS}} - n && bit_of(v, (j + n - {{BITS}}) as nat)),
{
    lemma_cast(v, n);
    axiom_rotr(v as {{W}}, n as u32, j);
    if j + n >= {{BITS}} {
        lemma_fundamental_div_mod_converse((j + n) as int, {{BITS}}, 1, (j + n - {{BITS}}) as int);
    } else {
        lemma_fundamental_div_mod_converse((j + n) as int, {{BITS}}, 0, (j + n) as int);
    }
}

pub proof fn lemma_le_append_field(b: {{W}}, p: nat, v: u64, n: nat)
    requires p + n < {{BITS}}, n <= 64, (v as nat) < pow2(n),
    ensures wpending(true, (((b >> (n as {{W}})) | spec_rotr(v as {{W}}, n as u32)) as {{W}}) as nat, p + n) =~= wpending(true, b as nat, p) + field(true, v, n),
{
    let r = spec_rotr(v as {{W}}, n as u32);
    let s: {{W}} = b >> (n as {{W}});
    let m = p + n;
    assert forall|i: int| 0 <= i < m implies #[trigger] wpending(true, (s | r) as nat, m)[i] == (wpending(true, b as nat, p) + field(true, v, n))[i] by {
        let j = ({{BITS}} - m + i) as nat;
        lemma_or_bits(s, r, j);
        lemma_shr_bits(b, n, j);
        lemma_rotr_bits(v, n, j);
    }
}

pub proof fn lemma_le_fill(b: {{W}}, p: nat, v: u64)
    requires p < {{BITS}}, {{BITS}} - p <= 64, (v as nat) < pow2(({{BITS}} - p) as nat),
    ensures wfield(true, ((((b >> (({{BITS}} - p - 1) as {{W}})) >> 1) | spec_rotr(v as {{W}}, ({{BITS}} - p) as u32)) as {{W}}) as nat, {{BITS}}) =~= wpending(true, b as nat, p) + field(true, v, ({{BITS}} - p) as nat),
{
    let sn = ({{BITS}} - p) as nat;
    let r = spec_rotr(v as {{W}}, sn as u32);
    let s: {{W}} = (b >> ((sn - 1) as {{W}})) >> 1;
    assert forall|i: int| 0 <= i < {{BITS}} implies #[trigger] wfield(true, (s | r) as nat, {{BITS}})[i] == (wpending(true, b as nat, p) + field(true, v, sn))[i] by {
        let j = i as nat;
        lemma_or_bits(s, r, j);
        lemma_shr1_bits(b, (sn - 1) as nat, j);
        lemma_rotr_bits(v, sn, j);
    }
}

pub proof fn lemma_le_tail(v: u64, n: nat)
    requires n < {{BITS}}, n <= 64, (v as nat) < pow2(n),
    ensures wpending(true, spec_rotr(v as {{W}}, n as u32) as nat, n) =~= field(true, v, n),
{
    assert forall|i: int| 0 <= i < n implies #[trigger] wpending(true, spec_rotr(v as {{W}}, n as u32) as nat, n)[i] == field(true, v, n)[i] by {
        lemma_rotr_bits(v, n, ({{BITS}} - n + i) as nat);
    }
}

impl<WW: WordWrite> BufBitWriter<BE, WW> {
    /// Inv_W
    spec fn inv(&self) -> bool { 1 <= self.space_left_in_buffer <= {{BITS}} }
    /// α_W: delivered words ++ pending bits
    spec fn view(&self) -> Seq<bool> {
        words_bits(false, self.backend.words()) + wpending(false, self.buffer as nat, ({{BITS}} - self.space_left_in_buffer) as nat)
    }

    /// `BitWrite::write_bits` of this writer, by contract (Kani: c01.write_bits.BE.{{W}})
    #[verifier::external_body]
    fn write_bits(&mut self, value: u64, n_bits: usize) -> (r: Result<usize, WW::Error>)
        requires old(self).inv(), n_bits <= 64,
            CHECKS_PRE(value, n_bits)
        ensures r is Ok ==> final(self).inv() && final(self).view() == old(self).view() + field(false, value, n_bits as nat),
    { unimplemented!() }

//@FN file=src/impls/buf_bit_writer.rs item=/impl<WW: WordWrite, WP: WriteParams> BitWrite<BE> for BufBitWriter<BE, WW, WP>/ name=copy_from
//@ATTR #[verifier::loop_isolation(false)]
//@SIG fn copy_from_be<F: Endianness, R: BitRead<F>>(&mut self, bit_read: &mut R, mut n: u64) -> (r: Result<(), CopyError<R::Error, WW::Error>>)
//@SPEC     requires
//@SPEC         old(self).inv(), !F::little(),
//@SPEC         old(bit_read).pos() <= old(bit_read).stream().len(),
//@SPEC     ensures
//@SPEC         final(bit_read).stream() == old(bit_read).stream(),
//@SPEC         final(bit_read).pos() <= final(bit_read).stream().len(),
//@SPEC         r is Ok ==> {
//@SPEC             &&& final(self).inv()
//@SPEC             &&& old(bit_read).pos() + n <= old(bit_read).stream().len()
//@SPEC             &&& final(bit_read).pos() == old(bit_read).pos() + n
//@SPEC             &&& final(self).view() == old(self).view() + old(bit_read).stream().subrange(old(bit_read).pos() as int, old(bit_read).pos() + n)
//@SPEC         },
//@INST <<WW::Word::BITS>> => <<{{BITS}}usize>>
//@INST <<WW::Word::ZERO>> => <<(0 as {{W}})>>
//@INST <<WW::Word::ONE>> => <<(1 as {{W}})>>
//@REPLACE_RE <<core::cmp::min\(n, (\d+)\)>> => <<(if n <= \1 { n } else { \1 })>>
//@REPLACE <<for _ in 0..>> => <<for _i in it: 0..>>
//@PROLOGUE let ghost n0 = n; let ghost S = bit_read.stream(); let ghost q0 = bit_read.pos() as int; let ghost base = self.view(); let ghost sp = self.space_left_in_buffer as nat; let ghost p = ({{BITS}} - sp) as nat; let ghost b0 = self.buffer; let ghost ws0 = self.backend.words();
//@LOOP 1 invariant
//@LOOP 1     self.inv(), bit_read.stream() == S, n <= n0,
//@LOOP 1     bit_read.pos() == q0 + (n0 - n), bit_read.pos() <= S.len(),
//@LOOP 1     self.view() == base + S.subrange(q0, q0 + (n0 - n)),
//@LOOP 1 decreases n,
//@LOOPEND 1 proof { lemma_chunk(S, q0, q0 + (n0 - n) - to_read, q0 + (n0 - n)); }
//@PROOF after=<<self.space_left_in_buffer -= n as usize;>> proof { lemma_be_append_field(b0, p, va, n0 as nat); assert(self.view() =~= base + S.subrange(q0, q0 + n0)); }
//@REPLACE_RE <<self\.buffer = \(self\.buffer << n\)\s*\| (\(match bit_read\.read_bits\(n as usize\) \{.*?\} \}\))\s*\.cast\(\);>> => <<let va = \1; self.buffer = (self.buffer << n) | va.cast();>>
//@REPLACE_RE <<self\.buffer = \(self\.buffer << \(self\.space_left_in_buffer - 1\) << 1\)\s*\| (\(match bit_read\.read_bits\(self\.space_left_in_buffer\) \{.*?\} \}\))\s*\.cast\(\);>> => <<let vb = \1; self.buffer = (self.buffer << (self.space_left_in_buffer - 1) << 1) | vb.cast();>>
//@PROOF after=<<n -= self.space_left_in_buffer as u64;>> proof { lemma_be_fill(b0, p, vb); }
//@PROOF after=<<.write_word(self.buffer.to_be())>> proof { lemma_push(false, ws0, spec_to_be(self.buffer)); axiom_be(self.buffer); assert(words_bits(false, self.backend.words()) =~= base + S.subrange(q0, q0 + sp)); }
//@LOOP 2 invariant
//@LOOP 2     bit_read.stream() == S, bit_read.pos() == q0 + sp + {{BITS}} * _i, bit_read.pos() <= S.len(),
//@LOOP 2     self.space_left_in_buffer == sp, n == n0 - sp,
//@LOOP 2     words_bits(false, self.backend.words()) == base + S.subrange(q0, q0 + sp + {{BITS}} * _i),
//@REPLACE_RE <<\(match self\.backend\.write_word\( (\(match bit_read\.read_bits\({{BITS}}usize\) \{.*?\} \}\))\.cast\(\)\.to_be\(\), \)>> => <<let vc = \1; let ghost wsc = self.backend.words(); (match self.backend.write_word(vc.cast().to_be())>>
//@LOOPEND 2 proof { lemma_word_field(false, vc); lemma_push(false, wsc, spec_to_be(vc as {{W}})); axiom_be(vc as {{W}}); lemma_chunk(S, q0, q0 + sp + {{BITS}} * _i, q0 + sp + {{BITS}} * (_i + 1)); }
//@REPLACE <<n %= {{BITS}}usize as u64;>> => <<let ghost k = (n / {{BITS}}) as nat; n %= {{BITS}}usize as u64; assert(sp + {{BITS}} * k + n == n0);>>
//@REPLACE_RE <<self\.buffer = (\(match bit_read\.read_bits\(n as usize\) \{.*?\} \}\))\s*\.cast\(\);>> => <<let vd = \1; self.buffer = vd.cast();>>
//@EPILOGUE proof { lemma_be_tail(vd, n as nat); lemma_chunk(S, q0, q0 + sp + {{BITS}} * k, q0 + n0); assert(self.view() =~= base + S.subrange(q0, q0 + n0)); }
//@END
}

impl<WW: WordWrite> BufBitWriter<LE, WW> {
    spec fn inv(&self) -> bool { 1 <= self.space_left_in_buffer <= {{BITS}} }
    spec fn view(&self) -> Seq<bool> {
        words_bits(true, self.backend.words()) + wpending(true, self.buffer as nat, ({{BITS}} - self.space_left_in_buffer) as nat)
    }

    /// `BitWrite::write_bits` of this writer, by contract (Kani: c01.write_bits.LE.{{W}})
    #[verifier::external_body]
    fn write_bits(&mut self, value: u64, n_bits: usize) -> (r: Result<usize, WW::Error>)
        requires old(self).inv(), n_bits <= 64,
            CHECKS_PRE(value, n_bits)
        ensures r is Ok ==> final(self).inv() && final(self).view() == old(self).view() + field(true, value, n_bits as nat),
    { unimplemented!() }

//@FN file=src/impls/buf_bit_writer.rs item=/impl<WW: WordWrite, WP: WriteParams> BitWrite<LE> for BufBitWriter<LE, WW, WP>/ name=copy_from
//@ATTR #[verifier::loop_isolation(false)]
//@SIG fn copy_from_le<F: Endianness, R: BitRead<F>>(&mut self, bit_read: &mut R, mut n: u64) -> (r: Result<(), CopyError<R::Error, WW::Error>>)
//@SPEC     requires
//@SPEC         old(self).inv(), F::little(),
//@SPEC         old(bit_read).pos() <= old(bit_read).stream().len(),
//@SPEC     ensures
//@SPEC         final(bit_read).stream() == old(bit_read).stream(),
//@SPEC         final(bit_read).pos() <= final(bit_read).stream().len(),
//@SPEC         r is Ok ==> {
//@SPEC             &&& final(self).inv()
//@SPEC             &&& old(bit_read).pos() + n <= old(bit_read).stream().len()
//@SPEC             &&& final(bit_read).pos() == old(bit_read).pos() + n
//@SPEC             &&& final(self).view() == old(self).view() + old(bit_read).stream().subrange(old(bit_read).pos() as int, old(bit_read).pos() + n)
//@SPEC         },
//@INST <<WW::Word::BITS>> => <<{{BITS}}usize>>
//@INST <<WW::Word::ZERO>> => <<(0 as {{W}})>>
//@INST <<WW::Word::ONE>> => <<(1 as {{W}})>>
//@REPLACE_RE <<core::cmp::min\(n, (\d+)\)>> => <<(if n <= \1 { n } else { \1 })>>
//@REPLACE <<for _ in 0..>> => <<for _i in it: 0..>>
//@PROLOGUE let ghost n0 = n; let ghost S = bit_read.stream(); let ghost q0 = bit_read.pos() as int; let ghost base = self.view(); let ghost sp = self.space_left_in_buffer as nat; let ghost p = ({{BITS}} - sp) as nat; let ghost b0 = self.buffer; let ghost ws0 = self.backend.words();
//@LOOP 1 invariant
//@LOOP 1     self.inv(), bit_read.stream() == S, n <= n0,
//@LOOP 1     bit_read.pos() == q0 + (n0 - n), bit_read.pos() <= S.len(),
//@LOOP 1     self.view() == base + S.subrange(q0, q0 + (n0 - n)),
//@LOOP 1 decreases n,
//@LOOPEND 1 proof { lemma_chunk(S, q0, q0 + (n0 - n) - to_read, q0 + (n0 - n)); }
//@PROOF after=<<self.space_left_in_buffer -= n as usize;>> proof { lemma_le_append_field(b0, p, va, n0 as nat); assert(self.view() =~= base + S.subrange(q0, q0 + n0)); }
//@REPLACE_RE [[self\.buffer = \(self\.buffer >> n\)\s*\| \((\(match bit_read\.read_bits\(n as usize\) \{.*?\} \}\))\)\s*\.cast\(\)\s*\.rotate_right\(n as u32\);]] => [[let va = \1; self.buffer = (self.buffer >> n) | va.cast().rotate_right(n as u32);]]
//@REPLACE_RE [[self\.buffer = \(self\.buffer >> \(self\.space_left_in_buffer - 1\) >> 1\)\s*\| \((\(match bit_read\.read_bits\(self\.space_left_in_buffer\) \{.*?\} \}\))\s*\.cast\(\)\)\s*\.rotate_right\(self\.space_left_in_buffer as u32\);]] => [[let vb = \1; self.buffer = (self.buffer >> (self.space_left_in_buffer - 1) >> 1) | vb.cast().rotate_right(self.space_left_in_buffer as u32);]]
//@PROOF after=<<n -= self.space_left_in_buffer as u64;>> proof { lemma_le_fill(b0, p, vb); }
//@PROOF after=<<.write_word(self.buffer.to_le())>> proof { lemma_push(true, ws0, spec_to_le(self.buffer)); axiom_le(self.buffer); assert(words_bits(true, self.backend.words()) =~= base + S.subrange(q0, q0 + sp)); }
//@LOOP 2 invariant
//@LOOP 2     bit_read.stream() == S, bit_read.pos() == q0 + sp + {{BITS}} * _i, bit_read.pos() <= S.len(),
//@LOOP 2     self.space_left_in_buffer == sp, n == n0 - sp,
//@LOOP 2     words_bits(true, self.backend.words()) == base + S.subrange(q0, q0 + sp + {{BITS}} * _i),
//@REPLACE_RE [[\(match self\.backend\.write_word\( (\(match bit_read\.read_bits\({{BITS}}usize\) \{.*?\} \}\))\.cast\(\)\.to_le\(\), \)]] => [[let vc = \1; let ghost wsc = self.backend.words(); (match self.backend.write_word(vc.cast().to_le())]]
//@LOOPEND 2 proof { lemma_word_field(true, vc); lemma_push(true, wsc, spec_to_le(vc as {{W}})); axiom_le(vc as {{W}}); lemma_chunk(S, q0, q0 + sp + {{BITS}} * _i, q0 + sp + {{BITS}} * (_i + 1)); }
//@REPLACE <<n %= {{BITS}}usize as u64;>> => <<let ghost k = (n / {{BITS}}) as nat; n %= {{BITS}}usize as u64; assert(sp + {{BITS}} * k + n == n0);>>
//@REPLACE_RE [[self\.buffer = (\(match bit_read\.read_bits\(n as usize\) \{.*?\} \}\))\s*\.cast\(\)\s*\.rotate_right\(n as u32\);]] => [[let vd = \1; self.buffer = vd.cast().rotate_right(n as u32);]]
//@EPILOGUE proof { lemma_le_tail(vd, n as nat); lemma_chunk(S, q0, q0 + sp + {{BITS}} * k, q0 + n0); assert(self.view() =~= base + S.subrange(q0, q0 + n0)); }
//@END
}

} // verus!

fn main() {}
