// Unit C03-C04-C06/zeta: the real text of `len_zeta_param`, `default_write_zeta`
// and `default_read_zeta` (src/codes/zeta.rs) against the trait contracts, for
// EVERY parameter k in 1..=63 (the SAT engine covers round trips on a grid of k
// only) and every value below 2^64-1, on top of the minimal binary code under
// contract (mb.inc).
use vstd::prelude::*;
use vstd::arithmetic::power2::*;
use vstd::arithmetic::div_mod::*;
use vstd::arithmetic::mul::*;
use vstd::bits::*;

verus! {

//@INCLUDE prelude.inc

//@INCLUDE mb.inc

// ---------------------------------------------------------------------------
// zeta codes with an arbitrary parameter k (src/codes/zeta.rs)
// ---------------------------------------------------------------------------

/// h = floor(floor(log2(n+1)) / k)
pub open spec fn zeta_h(n: u64, k: nat) -> nat {
    log2f((n + 1) as u64) / k
}
/// left end of the interval: 2^(hk)
pub open spec fn zeta_l(n: u64, k: nat) -> nat {
    pow2(zeta_h(n, k) * k)
}
/// size of the interval [2^(hk), 2^((h+1)k)) capped at 2^64 (values are below 2^64)
pub open spec fn zeta_u(n: u64, k: nat) -> nat {
    let h = zeta_h(n, k);
    if (h + 1) * k >= 64 { (0x1_0000_0000_0000_0000 - pow2(h * k)) as nat } else { (pow2((h + 1) * k) - pow2(h * k)) as nat }
}
pub open spec fn zeta_bits(le: bool, n: u64, k: nat) -> Seq<bool> {
    unary(zeta_h(n, k)) + mb_bits(le, (n + 1 - zeta_l(n, k)) as u64, zeta_u(n, k) as u64)
}
pub open spec fn zeta_len(n: u64, k: nat) -> nat {
    zeta_h(n, k) + 1 + mb_len((n + 1 - zeta_l(n, k)) as u64, zeta_u(n, k) as u64)
}

/// everything the three functions compute before touching the stream
pub proof fn lemma_zeta_params(n: u64, k: usize, m: u64, lg: u32, h: usize, l: u64, u: u64)
    requires
        1 <= k <= 63, n < u64::MAX, m == n + 1,
        lg < 64, pow2(lg as nat) <= m, (m as nat) < pow2((lg + 1) as nat),
        h == lg as usize / k,
        h * k <= 63 ==> l == 1u64 << ((h * k) as u64),
        h * k <= 63 ==> u == (l << (k as u64)).wrapping_sub(l),
    ensures
        h == zeta_h(n, k as nat), h * k <= 63, l == zeta_l(n, k as nat), u == zeta_u(n, k as nat),
        l <= m, m - l < u, u > 0, h <= 63,
        zeta_len(n, k as nat) <= 200,
{
    lemma_log2f(m, lg as nat);
    let hk = (h * k) as nat;
    assert(h * k <= lg) by (nonlinear_arith) requires h == lg as usize / k, k >= 1;
    assert(h <= lg) by (nonlinear_arith) requires h == lg as usize / k, k >= 1;
    assert((lg as int) < (h + 1) * k) by (nonlinear_arith) requires h == lg as usize / k, k >= 1;
    lemma2_to64();
    lemma2_to64_rest();
    lemma_pow2_strictly_increases(hk, 64);
    lemma_pow2_pos(hk);
    lemma_u64_shl_is_mul(1, hk as u64);
    if hk < lg { lemma_pow2_strictly_increases(hk, lg as nat); }
    assert(l == pow2(hk));
    let e = ((h + 1) * k) as nat;
    assert(e == hk + k) by (nonlinear_arith) requires e == (h + 1) * k, hk == h * k;
    if ((lg + 1) as nat) < e { lemma_pow2_strictly_increases((lg + 1) as nat, e); }
    assert((m as nat) < pow2(e));
    let kk = k as u64;
    let aa = hk as u64;
    if e >= 64 {
        assert(((1u64 << aa) << kk) == 0) by (bit_vector) requires aa + kk >= 64, aa < 64, kk < 64;
        assert(u == 0x1_0000_0000_0000_0000 - l);
    } else {
        assert(((1u64 << aa) << kk) == 1u64 << ((aa + kk) as u64)) by (bit_vector) requires aa + kk < 64;
        lemma_pow2_strictly_increases(e, 64);
        lemma_u64_shl_is_mul(1, e as u64);
        lemma_pow2_strictly_increases(hk, e);
        assert(u == pow2(e) - l);
    }
    lemma_mb_len_bound((m - l) as u64, u);
}

pub fn len_zeta_plain(n: u64, k: usize) -> (r: usize)
    requires 1 <= k <= 63, n < u64::MAX,
    ensures r == zeta_len(n, k as nat),
{
    len_zeta_param(n, k)
}

//@FN file=src/codes/zeta.rs item=- name=len_zeta_param
//@SIG pub fn len_zeta_param(mut n: u64, k: usize) -> (r: usize)
//@SPEC     requires 1 <= k <= 63, n < u64::MAX,
//@SPEC     ensures r == zeta_len(n, k as nat),
//@REPLACE_RE <<(?s)if USE_TABLE \{.*?\n    \}\n>> => <<>>
//@PROLOGUE let ghost n0 = n;
//@REPLACE <<let h = n.ilog2() as usize / k;>> => <<let lg = n.ilog2(); let h = lg as usize / k;>>
//@PROOF after=<<let h = lg as usize / k;>> proof { lemma_zeta_h_bound(lg, k, h); }
//@PROOF after=<<let l = 1 << (h * k);>> proof { let l6: u64 = l; let uu: u64 = (l6 << (k as u64)).wrapping_sub(l6); lemma_zeta_params(n0, k, n, lg, h, l6, uu); }
//@END

/// h*k <= 63 before the shift is evaluated
pub proof fn lemma_zeta_h_bound(lg: u32, k: usize, h: usize)
    requires lg < 64, 1 <= k <= 63, h == lg as usize / k,
    ensures h * k <= 63, h <= 63,
{
    assert(h * k <= lg) by (nonlinear_arith) requires h == lg as usize / k, k >= 1;
    assert(h <= lg) by (nonlinear_arith) requires h == lg as usize / k, k >= 1;
}

//@FN file=src/codes/zeta.rs item=- name=default_write_zeta
//@SIG fn default_write_zeta<E: Endianness, B: BitWrite<E> + MinimalBinaryWrite<E>>(backend: &mut B, mut n: u64, k: usize) -> (r: Result<usize, B::Error>)
//@SPEC     requires 1 <= k <= 63, n < u64::MAX,
//@SPEC     ensures r is Ok ==> r->Ok_0 == zeta_len(n, k as nat) && final(backend).view() == old(backend).view() + zeta_bits(E::little(), n, k as nat),
//@PROLOGUE let ghost n0 = n;
//@REPLACE <<let h = n.ilog2() as usize / k;>> => <<let lg = n.ilog2(); let h = lg as usize / k;>>
//@PROOF after=<<let h = lg as usize / k;>> proof { lemma_zeta_h_bound(lg, k, h); }
//@PROOF after=<<let l = 1 << (h * k);>> proof { let l6: u64 = l; let uu: u64 = (l6 << (k as u64)).wrapping_sub(l6); lemma_zeta_params(n0, k, n, lg, h, l6, uu); }
//@END

/// what every value whose codeword starts at p has in common once the unary part is known
pub proof fn lemma_zeta_spec(x: u64, k: usize)
    requires 1 <= k <= 63, x < u64::MAX,
    ensures
        zeta_h(x, k as nat) * k <= 63, zeta_h(x, k as nat) <= 63,
        zeta_l(x, k as nat) == (1u64 << ((zeta_h(x, k as nat) * k) as u64)),
        zeta_u(x, k as nat) == ((1u64 << ((zeta_h(x, k as nat) * k) as u64)) << (k as u64)).wrapping_sub(1u64 << ((zeta_h(x, k as nat) * k) as u64)),
        zeta_l(x, k as nat) <= x + 1, x + 1 - zeta_l(x, k as nat) < zeta_u(x, k as nat), zeta_u(x, k as nat) > 0,
        zeta_u(x, k as nat) <= u64::MAX,
{
    let m = (x + 1) as u64;
    lemma_log2f_exists(m);
    let lg = log2f(m) as u32;
    let h = (lg as usize / k) as usize;
    lemma_zeta_h_bound(lg, k, h);
    let l: u64 = 1u64 << ((h * k) as u64);
    let u: u64 = (l << (k as u64)).wrapping_sub(l);
    lemma_zeta_params(x, k, m, lg, h, l, u);
}

/// the arithmetic part of lemma_zeta_spec only
pub proof fn lemma_zeta_range(x: u64, k: usize)
    requires 1 <= k <= 63, x < u64::MAX,
    ensures
        zeta_l(x, k as nat) <= x + 1, x + 1 - zeta_l(x, k as nat) < zeta_u(x, k as nat), zeta_u(x, k as nat) > 0,
        zeta_u(x, k as nat) <= u64::MAX, zeta_h(x, k as nat) <= 63,
{
    lemma_zeta_spec(x, k);
}

pub proof fn lemma_zeta_split(s: Seq<bool>, p: int, le: bool, x: u64, k: usize)
    requires 1 <= k <= 63, x < u64::MAX, starts(s, p, zeta_bits(le, x, k as nat)),
    ensures
        starts(s, p, unary(zeta_h(x, k as nat))),
        starts(s, p + zeta_h(x, k as nat) + 1, mb_bits(le, (x + 1 - zeta_l(x, k as nat)) as u64, zeta_u(x, k as nat) as u64)),
        zeta_bits(le, x, k as nat).len() == zeta_len(x, k as nat),
{
    lemma_zeta_range(x, k);
    let h = zeta_h(x, k as nat);
    let y = (x + 1 - zeta_l(x, k as nat)) as u64;
    let uu = zeta_u(x, k as nat) as u64;
    let u = unary(h);
    let m = mb_bits(le, y, uu);
    let w = zeta_bits(le, x, k as nat);
    lemma_mb_bits_len(le, y, uu);
    assert(w == u + m);
    assert(s.subrange(p, p + u.len()) =~= w.subrange(0, u.len() as int));
    assert(w.subrange(0, u.len() as int) =~= u);
    assert(s.subrange(p + u.len(), p + u.len() + m.len()) =~= w.subrange(u.len() as int, w.len() as int));
    assert(w.subrange(u.len() as int, w.len() as int) =~= m);
}

/// after the unary part: h is the h of every candidate value, so the shifts cannot overflow
pub proof fn lemma_zeta_q<E: Endianness>(s: Seq<bool>, p: int, q: u64, k: usize)
    requires
        1 <= k <= 63,
        exists|x: u64| x < u64::MAX && #[trigger] starts(s, p, zeta_bits(E::little(), x, k as nat)),
        starts(s, p, unary(q as nat)),
    ensures
        q * k <= 63, q <= 63,
        ((1u64 << ((q * k) as u64)) << (k as u64)).wrapping_sub(1u64 << ((q * k) as u64)) > 0,
        forall|x: u64| x < u64::MAX && #[trigger] starts(s, p, zeta_bits(E::little(), x, k as nat)) ==> zeta_h(x, k as nat) == q,
{
    let le = E::little();
    assert forall|x: u64| x < u64::MAX && #[trigger] starts(s, p, zeta_bits(le, x, k as nat)) implies zeta_h(x, k as nat) == q by {
        lemma_zeta_split(s, p, le, x, k);
        lemma_unary_unique(s, p, zeta_h(x, k as nat), q as nat);
    }
    let x0 = choose|x: u64| x < u64::MAX && #[trigger] starts(s, p, zeta_bits(le, x, k as nat));
    lemma_zeta_spec(x0, k);
}

/// after the minimal binary part
pub proof fn lemma_zeta_r<E: Endianness>(s: Seq<bool>, p: int, pos1: int, pos2: int, q: u64, l: u64, u: u64, res: u64, k: usize)
    requires
        1 <= k <= 63, pos1 == p + q + 1, q * k <= 63,
        l == 1u64 << ((q * k) as u64), u == (l << (k as u64)).wrapping_sub(l),
        forall|x: u64| x < u64::MAX && #[trigger] starts(s, p, zeta_bits(E::little(), x, k as nat)) ==> zeta_h(x, k as nat) == q,
        // contract of read_minimal_binary at pos1
        forall|y: u64| y < u && pos1 + mb_len(y, u) <= s.len() && s.subrange(pos1, (pos1 + mb_len(y, u)) as int) == mb_bits(E::little(), y, u)
            ==> res == y && pos2 == pos1 + mb_len(y, u),
    ensures
        forall|x: u64| x < u64::MAX && #[trigger] starts(s, p, zeta_bits(E::little(), x, k as nat))
            ==> l + res - 1 == x && l + res >= 1 && l + res <= u64::MAX && pos2 == p + zeta_len(x, k as nat),
{
    let le = E::little();
    assert forall|x: u64| x < u64::MAX && #[trigger] starts(s, p, zeta_bits(le, x, k as nat)) implies l + res - 1 == x && l + res >= 1 && l + res <= u64::MAX && pos2 == p + zeta_len(x, k as nat) by {
        lemma_zeta_split(s, p, le, x, k);
        lemma_zeta_spec(x, k);
        let y = (x + 1 - zeta_l(x, k as nat)) as u64;
        assert(zeta_l(x, k as nat) == l);
        assert(zeta_u(x, k as nat) == u);
        lemma_mb_bits_len(le, y, u);
        assert(res == y && pos2 == pos1 + mb_len(y, u));
    }
}

//@FN file=src/codes/zeta.rs item=- name=default_read_zeta
//@SIG fn default_read_zeta<BO: Endianness, B: BitRead<BO> + MinimalBinaryRead<BO>>(backend: &mut B, k: usize) -> (r: Result<u64, B::Error>)
//@SPEC     requires
//@SPEC         1 <= k <= 63,
//@SPEC         // the stream continues with the zeta_k codeword of some value of the domain
//@SPEC         exists|x: u64| x < u64::MAX && #[trigger] starts(old(backend).stream(), old(backend).pos() as int, zeta_bits(BO::little(), x, k as nat)),
//@SPEC     ensures
//@SPEC         final(backend).stream() == old(backend).stream(),
//@SPEC         r is Ok ==> forall|x: u64| x < u64::MAX && #[trigger] starts(old(backend).stream(), old(backend).pos() as int, zeta_bits(BO::little(), x, k as nat))
//@SPEC             ==> r->Ok_0 == x && final(backend).pos() == old(backend).pos() + zeta_len(x, k as nat),
//@REPLACE <<let h = backend.read_unary()? as usize;>> => <<let hq = backend.read_unary()?; let h = hq as usize;>>
//@PROOF after=<<let h = hq as usize;>> let ghost pos1 = backend.pos() as int; proof { lemma_zeta_q::<BO>(old(backend).stream(), old(backend).pos() as int, hq, k); }
//@PROOF after=[[let res = backend.read_minimal_binary((l << k).wrapping_sub(l))?;]] proof { lemma_zeta_r::<BO>(old(backend).stream(), old(backend).pos() as int, pos1, backend.pos() as int, hq, l, (l << (k as u64)).wrapping_sub(l), res, k); }
//@END

// ---------------------------------------------------------------------------
// zeta_1 = gamma (the identity the dispatchers rely on: `Codes::Zeta { k: 1 }` is
// written with write_gamma / measured with len_gamma)
// ---------------------------------------------------------------------------
pub open spec fn gamma_bits(le: bool, n: u64) -> Seq<bool> {
    unary(log2f((n + 1) as u64)) + field(le, (n + 1) as u64, log2f((n + 1) as u64))
}
pub open spec fn gamma_len(n: u64) -> nat {
    2 * log2f((n + 1) as u64) + 1
}

pub proof fn lemma_zeta1_is_gamma(le: bool, n: u64)
    requires n < u64::MAX,
    ensures zeta_bits(le, n, 1) =~= gamma_bits(le, n), zeta_len(n, 1) == gamma_len(n),
{
    let m = (n + 1) as u64;
    lemma_log2f_exists(m);
    let lg = log2f(m);
    let h = zeta_h(n, 1);
    assert(h == lg);
    lemma_zeta_spec(n, 1);
    let l = zeta_l(n, 1);
    let u = zeta_u(n, 1) as u64;
    let x = (m - l) as u64;
    lemma2_to64();
    lemma2_to64_rest();
    assert(l == pow2(lg));
    // the interval has 2^lg elements: every codeword is short (lg bits)
    if lg + 1 >= 64 {
        assert(lg == 63);
        assert(u == 0x1_0000_0000_0000_0000 - pow2(63));
        assert(u == pow2(63));
    } else {
        lemma_pow2_unfold(lg + 1);
        assert(u == pow2(lg));
    }
    lemma_pow2_unfold(lg + 1);
    lemma_log2f(u, lg);
    assert(mb_limit(u) == u);
    assert(mb_bits(le, x, u) == field(le, x, lg));
    // the lg low bits of m = 2^lg + x are those of x
    assert forall|i: int| 0 <= i < lg implies #[trigger] field(le, x, lg)[i] == field(le, m, lg)[i] by {
        let j: nat = if le { i as nat } else { (lg - 1 - i) as nat };
        lemma_pow2_pos(j);
        lemma_pow2_adds(j, (lg - j) as nat);
        let pj = pow2(j);
        let pd = pow2((lg - j) as nat);
        lemma_pow2_unfold((lg - j) as nat);
        let half = pow2((lg - j - 1) as nat);
        // m / 2^j = x / 2^j + 2^(lg-j), and 2^(lg-j) is even
        assert((pj * pd + x) as int / (pj as int) == pd as int + x as int / (pj as int)) by {
            lemma_fundamental_div_mod(x as int, pj as int);
            lemma_div_multiples_vanish_fancy(pd as int, x as int % (pj as int), pj as int);
            lemma_hoist_over_denominator(x as int, pd as int, pj);
        }
        assert(pd == 2 * half);
        lemma_mod_multiples_vanish(half as int, (x as nat / pj) as int, 2);
    }
    assert(field(le, x, lg) =~= field(le, m, lg));
}

} // verus!

fn main() {}
