// Unit C03-C04-C06/golomb (includes the minimal_binary unit's text): the real text of `len_minimal_binary`,
// `MinimalBinaryWrite::write_minimal_binary` and `MinimalBinaryRead::read_minimal_binary`
// (src/codes/minimal_binary.rs) against the trait contracts, for EVERY upper
// bound `max` in 1..2^64 and every value (the SAT engine only covers a grid of bounds).
use vstd::prelude::*;
use vstd::arithmetic::power2::*;
use vstd::arithmetic::div_mod::*;
use vstd::bits::*;

verus! {

//@INCLUDE prelude.inc

// discharged by the Kani obligation std_spec::ilog2 (loop-free, all 2^64 values)
pub assume_specification[ u64::ilog2 ](n: u64) -> (r: u32)
    requires n > 0,
    ensures r < 64, pow2(r as nat) <= n, (n as nat) < pow2((r + 1) as nat),
;

pub open spec fn log2f(max: u64) -> nat
    recommends max > 0
{
    choose|l: nat| l < 64 && #[trigger] pow2(l) <= max && (max as nat) < pow2(l + 1)
}
pub open spec fn mb_limit(max: u64) -> nat {
    (2 * pow2(log2f(max)) - max) as nat
}
pub open spec fn mb_len(n: u64, max: u64) -> nat {
    if max == 0 { 0 } else if n < mb_limit(max) { log2f(max) } else { log2f(max) + 1 }
}
/// the minimal binary codeword of n < max as stream bits
pub open spec fn mb_bits(le: bool, n: u64, max: u64) -> Seq<bool> {
    let l = log2f(max);
    let limit = mb_limit(max);
    if n < limit {
        field(le, n, l)
    } else {
        let t = (n + limit) as u64;
        field(le, t / 2, l) + field(le, t % 2, 1)
    }
}

proof fn lemma_log2_unique(max: u64, a: nat, b: nat)
    requires a < 64, b < 64, pow2(a) <= max, (max as nat) < pow2(a + 1), pow2(b) <= max, (max as nat) < pow2(b + 1),
    ensures a == b,
{
    if a < b {
        if a + 1 < b { lemma_pow2_strictly_increases(a + 1, b); }
    } else if b < a {
        if b + 1 < a { lemma_pow2_strictly_increases(b + 1, a); }
    }
}
proof fn lemma_log2f(max: u64, l: nat)
    requires max > 0, l < 64, pow2(l) <= max, (max as nat) < pow2(l + 1),
    ensures log2f(max) == l,
{
    lemma_log2_unique(max, log2f(max), l);
}

/// limit computation shared by the three functions
proof fn lemma_limit(max: u64, l: u32, limit: u64)
    requires max > 0, l < 64, pow2(l as nat) <= max, (max as nat) < pow2((l + 1) as nat),
        limit == ((1_u64 << l) << 1).wrapping_sub(max),
    ensures log2f(max) == l, limit == mb_limit(max), 1 <= limit <= pow2(l as nat), limit + max == 2 * pow2(l as nat),
        2 * pow2(l as nat) <= 0x1_0000_0000_0000_0000,
{
    lemma_log2f(max, l as nat);
    lemma_u64_shl_is_mul(1, l as u64);
    lemma_pow2_unfold((l + 1) as nat);
    lemma2_to64();
    if l < 63 {
        lemma_pow2_strictly_increases((l + 1) as nat, 64);
        lemma_u64_shl_is_mul((1u64 << l), 1);
    } else {
        assert(pow2(64) == 2 * pow2(63)) by { lemma_pow2_unfold(64); }
        assert(((1u64 << 63) << 1) == 0) by (bit_vector);
    }
}

/// the bits of a value below 2^n determine it
pub proof fn lemma_bits_determine(a: u64, b: u64, n: nat)
    requires
        (a as nat) < pow2(n), (b as nat) < pow2(n),
        forall|i: nat| i < n ==> bit_of(a, i) == bit_of(b, i),
    ensures a == b,
    decreases n,
{
    lemma2_to64();
    if n == 0 {
        assert(pow2(0) == 1);
    } else {
        lemma_pow2_unfold(n);
        let a2 = (a / 2) as u64;
        let b2 = (b / 2) as u64;
        assert((a2 as nat) < pow2((n - 1) as nat));
        assert((b2 as nat) < pow2((n - 1) as nat));
        assert forall|i: nat| i < (n - 1) as nat implies bit_of(a2, i) == bit_of(b2, i) by {
            lemma_pow2_unfold(i + 1);
            lemma_pow2_pos(i);
            lemma_div_denominator(a as int, 2, pow2(i) as int);
            lemma_div_denominator(b as int, 2, pow2(i) as int);
            assert(bit_of(a, i + 1) == bit_of(b, i + 1));
        }
        lemma_bits_determine(a2, b2, (n - 1) as nat);
        assert(bit_of(a, 0) == bit_of(b, 0));
        assert(pow2(0) == 1);
        assert(a % 2 == b % 2);
    }
}

pub proof fn lemma_field_injective(le: bool, a: u64, b: u64, n: nat)
    requires (a as nat) < pow2(n), (b as nat) < pow2(n), field(le, a, n) == field(le, b, n),
    ensures a == b,
{
    assert forall|i: nat| i < n implies bit_of(a, i) == bit_of(b, i) by {
        let j: int = if le { i as int } else { (n - 1 - i) as int };
        assert(0 <= j < n);
        assert(field(le, a, n)[j] == (if le { bit_of(a, j as nat) } else { bit_of(a, (n - 1 - j) as nat) }));
        assert(field(le, b, n)[j] == (if le { bit_of(b, j as nat) } else { bit_of(b, (n - 1 - j) as nat) }));
    }
    lemma_bits_determine(a, b, n);
}


//@FN file=src/codes/minimal_binary.rs item=- name=len_minimal_binary
//@SIG pub fn len_minimal_binary(n: u64, max: u64) -> (r: usize)
//@SPEC     ensures r == mb_len(n, max),
//@PROOF after=<<let limit = ((1_u64 << l) << 1).wrapping_sub(max);>> proof { lemma_limit(max, l, limit); }
//@END

pub trait MinimalBinaryWrite<E: Endianness>: BitWrite<E> {
//@FN file=src/codes/minimal_binary.rs item=/pub trait MinimalBinaryWrite<E: Endianness>: BitWrite<E>/ name=write_minimal_binary
//@SIG fn write_minimal_binary(&mut self, n: u64, max: u64) -> (r: Result<usize, Self::Error>)
//@SPEC     requires max > 0, n < max,
//@SPEC     ensures r is Ok ==> r->Ok_0 == mb_len(n, max) && final(self).view() == old(self).view() + mb_bits(E::little(), n, max),
//@PROOF after=<<let limit = ((1_u64 << l) << 1).wrapping_sub(max);>> proof { lemma_limit(max, l, limit); lemma_pow2_strictly_increases(l as nat, 64); lemma2_to64(); }
//@PROOF after=<<let to_write = n + limit;>> proof { assert(to_write >> 1 == to_write / 2) by (bit_vector); assert(to_write & 1 == to_write % 2) by (bit_vector); }
//@PROOF after=<<self.write_bits(to_write & 1, 1)?;>> proof { assert(final(self).view() =~= old(self).view() + (field(E::little(), to_write / 2, l as nat) + field(E::little(), to_write % 2, 1))); }
//@END
}

pub trait MinimalBinaryRead<E: Endianness>: BitRead<E> {
//@FN file=src/codes/minimal_binary.rs item=/pub trait MinimalBinaryRead<E: Endianness>: BitRead<E>/ name=read_minimal_binary
//@SIG fn read_minimal_binary(&mut self, max: u64) -> (r: Result<u64, Self::Error>)
//@SPEC     requires max > 0, old(self).pos() <= old(self).stream().len(),
//@SPEC     ensures
//@SPEC         final(self).stream() == old(self).stream(),
//@SPEC         final(self).pos() <= final(self).stream().len(),
//@SPEC         // on a stream that continues with the codeword of some x < max, x is returned
//@SPEC         // and the reader stops exactly at the end of the codeword
//@SPEC         r is Ok ==> forall|x: u64| x < max
//@SPEC             && old(self).pos() + mb_len(x, max) <= old(self).stream().len()
//@SPEC             && old(self).stream().subrange(old(self).pos() as int, (old(self).pos() + mb_len(x, max)) as int) == mb_bits(E::little(), x, max)
//@SPEC             ==> r->Ok_0 == x && final(self).pos() == old(self).pos() + mb_len(x, max),
//@REPLACE <<prefix |= self.read_bits(1)?;>> => <<let low = self.read_bits(1)?; prefix |= low;>>
//@PROOF after=<<let limit = ((1_u64 << l) << 1).wrapping_sub(max);>> proof { lemma_limit(max, l, limit); lemma_pow2_strictly_increases(l as nat, 64); lemma2_to64(); lemma_read_short::<E>(old(self).stream(), old(self).pos() as int, self.pos() as int, prefix, max, l, limit); }
//@PROOF after=<<let limit = ((1_u64 << l) << 1).wrapping_sub(max);>> let ghost prefix0 = prefix;
//@PROOF after=<<prefix |= low;>> proof { lemma_read_long::<E>(old(self).stream(), old(self).pos() as int, self.pos() as int, prefix0, low, prefix, max, l, limit); }
//@END
}

/// decoding of a short codeword (first branch of read_minimal_binary)
pub proof fn lemma_read_short<E: Endianness>(s: Seq<bool>, p: int, pos1: int, prefix: u64, max: u64, l: u32, limit: u64)
    requires
        max > 0, l < 64, log2f(max) == l, limit == mb_limit(max), 1 <= limit <= pow2(l as nat), limit + max == 2 * pow2(l as nat),
        2 * pow2(l as nat) <= 0x1_0000_0000_0000_0000,
        0 <= p, p + l <= s.len(), pos1 == p + l,
        (prefix as nat) < pow2(l as nat),
        field(E::little(), prefix, l as nat) == s.subrange(p, p + l),
    ensures
        prefix < limit ==> forall|x: u64| x < max && p + mb_len(x, max) <= s.len() && s.subrange(p, (p + mb_len(x, max)) as int) == mb_bits(E::little(), x, max)
            ==> prefix == x && pos1 == p + mb_len(x, max),
{
    let le = E::little();
    if prefix < limit {
        assert forall|x: u64| x < max && p + mb_len(x, max) <= s.len() && s.subrange(p, (p + mb_len(x, max)) as int) == mb_bits(le, x, max)
            implies prefix == x && pos1 == p + mb_len(x, max) by {
            if x < limit {
                lemma_field_injective(le, prefix, x, l as nat);
            } else {
                let t = (x + limit) as u64;
                assert(s.subrange(p, p + l) =~= mb_bits(le, x, max).subrange(0, l as int));
                assert(mb_bits(le, x, max).subrange(0, l as int) =~= field(le, t / 2, l as nat));
                lemma_field_injective(le, prefix, t / 2, l as nat);
                assert(false);
            }
        }
    }
}

/// decoding of a long codeword (second branch)
pub proof fn lemma_read_long<E: Endianness>(s: Seq<bool>, p: int, pos2: int, prefix0: u64, low: u64, prefix: u64, max: u64, l: u32, limit: u64)
    requires
        max > 0, l < 64, log2f(max) == l, limit == mb_limit(max), 1 <= limit <= pow2(l as nat), limit + max == 2 * pow2(l as nat),
        2 * pow2(l as nat) <= 0x1_0000_0000_0000_0000,
        0 <= p, p + l + 1 <= s.len(), pos2 == p + l + 1,
        (prefix0 as nat) < pow2(l as nat), prefix0 >= limit,
        field(E::little(), prefix0, l as nat) == s.subrange(p, p + l),
        low < 2,
        field(E::little(), low, 1) == s.subrange(p + l, p + l + 1),
        prefix == (prefix0 << 1) | low,
    ensures
        prefix >= limit,
        forall|x: u64| x < max && p + mb_len(x, max) <= s.len() && s.subrange(p, (p + mb_len(x, max)) as int) == mb_bits(E::little(), x, max)
            ==> prefix - limit == x && pos2 == p + mb_len(x, max),
{
    let le = E::little();
    lemma_pow2_strictly_increases(l as nat, 64);
    lemma2_to64();
    lemma2_to64_rest();
    assert(prefix0 < 0x8000_0000_0000_0000) by {
        if l < 63 { lemma_pow2_strictly_increases(l as nat, 63); }
    }
    assert(((prefix0 << 1) | low) == 2 * prefix0 + low) by (bit_vector)
        requires prefix0 < 0x8000_0000_0000_0000, low < 2;
    assert forall|x: u64| x < max && p + mb_len(x, max) <= s.len() && s.subrange(p, (p + mb_len(x, max)) as int) == mb_bits(le, x, max)
        implies prefix - limit == x && pos2 == p + mb_len(x, max) by {
        if x < limit {
            lemma_field_injective(le, prefix0, x, l as nat);
            assert(false);
        } else {
            let t = (x + limit) as u64;
            let w = mb_bits(le, x, max);
            assert(w == field(le, t / 2, l as nat) + field(le, t % 2, 1));
            assert(s.subrange(p, p + l) =~= w.subrange(0, l as int));
            assert(w.subrange(0, l as int) =~= field(le, t / 2, l as nat));
            lemma_field_injective(le, prefix0, t / 2, l as nat);
            assert(s.subrange(p + l, p + l + 1) =~= w.subrange(l as int, l + 1));
            assert(w.subrange(l as int, l + 1) =~= field(le, t % 2, 1));
            lemma_field_injective(le, low, t % 2, 1);
        }
    }
}


// ---------------------------------------------------------------------------
// Golomb codes with an arbitrary modulus b in 1..2^64 (src/codes/golomb.rs)
// ---------------------------------------------------------------------------

pub open spec fn golomb_bits(le: bool, n: u64, b: u64) -> Seq<bool> {
    unary((n / b) as nat) + mb_bits(le, (n % b) as u64, b)
}
pub open spec fn golomb_len(n: u64, b: u64) -> nat {
    (n / b) as nat + 1 + mb_len((n % b) as u64, b)
}

proof fn lemma_mb_len_bound(n: u64, max: u64)
    requires max > 0, n < max,
    ensures mb_len(n, max) <= 64, max == 1 ==> mb_len(n, max) == 0,
{
    lemma_log2f_exists(max);
    if max == 1 {
        lemma2_to64();
        lemma_log2f(max, 0);
        assert(mb_limit(max) == 1);
    }
}

/// there is a floor(log2) for every positive u64 (witness for `log2f`)
proof fn lemma_log2f_exists(max: u64)
    requires max > 0,
    ensures log2f(max) < 64, pow2(log2f(max)) <= max, (max as nat) < pow2(log2f(max) + 1),
{
    lemma2_to64();
    lemma_log2_search(max, 63);
}

proof fn lemma_log2_search(max: u64, k: nat)
    requires max > 0, k < 64, (max as nat) < pow2(k + 1),
    ensures exists|l: nat| l < 64 && #[trigger] pow2(l) <= max && (max as nat) < pow2(l + 1),
    decreases k,
{
    lemma2_to64();
    if pow2(k) <= max {
        assert(k < 64 && pow2(k) <= max && (max as nat) < pow2(k + 1));
    } else {
        assert(k > 0) by { assert(pow2(0) == 1); }
        lemma_log2_search(max, (k - 1) as nat);
    }
}

//@FN file=src/codes/golomb.rs item=- name=len_golomb
//@SIG pub fn len_golomb(n: u64, b: u64) -> (r: usize)
//@SPEC     requires b > 0, n < u64::MAX,
//@SPEC     ensures r == golomb_len(n, b),
//@PROLOGUE proof { lemma_golomb_no_overflow(n, b); }
//@END

proof fn lemma_golomb_no_overflow(n: u64, b: u64)
    requires b > 0, n < u64::MAX,
    ensures (n / b) as nat + 1 + mb_len((n % b) as u64, b) <= usize::MAX,
{
    assert(n % b < b);
    lemma_mb_len_bound((n % b) as u64, b);
    if b == 1 {
        assert(n / b == n);
        assert(n % b == 0);
    } else {
        assert(n / b <= n / 2) by (nonlinear_arith) requires b >= 2, n >= 0;
    }
}

pub trait GolombWrite<E: Endianness>: BitWrite<E> + MinimalBinaryWrite<E> {
//@FN file=src/codes/golomb.rs item=/pub trait GolombWrite<E: Endianness>: BitWrite<E> \+ MinimalBinaryWrite<E>/ name=write_golomb
//@SIG fn write_golomb(&mut self, n: u64, b: u64) -> (r: Result<usize, Self::Error>)
//@SPEC     requires b > 0, n < u64::MAX,
//@SPEC     ensures r is Ok ==> r->Ok_0 == golomb_len(n, b) && final(self).view() == old(self).view() + golomb_bits(E::little(), n, b),
//@PROLOGUE proof { lemma_golomb_no_overflow(n, b); assert(n % b < b); }
//@END
}


/// the stream continues, at position p, with the bit string w
pub open spec fn starts(s: Seq<bool>, p: int, w: Seq<bool>) -> bool {
    0 <= p && p + w.len() <= s.len() && s.subrange(p, p + w.len()) == w
}

/// a stream position is the start of at most one unary codeword
pub proof fn lemma_unary_unique(s: Seq<bool>, p: int, a: nat, c: nat)
    requires starts(s, p, unary(a)), starts(s, p, unary(c)),
    ensures a == c,
{
    if a < c {
        assert(s.subrange(p, p + a + 1)[a as int] == unary(a)[a as int]);
        assert(s.subrange(p, p + c + 1)[a as int] == unary(c)[a as int]);
    } else if c < a {
        assert(s.subrange(p, p + a + 1)[c as int] == unary(a)[c as int]);
        assert(s.subrange(p, p + c + 1)[c as int] == unary(c)[c as int]);
    }
}

/// splitting a Golomb codeword found in the stream into its two parts
pub proof fn lemma_golomb_split(s: Seq<bool>, p: int, le: bool, x: u64, b: u64)
    requires b > 0, starts(s, p, golomb_bits(le, x, b)),
    ensures
        starts(s, p, unary((x / b) as nat)),
        starts(s, p + (x / b) + 1, mb_bits(le, (x % b) as u64, b)),
        golomb_bits(le, x, b).len() == golomb_len(x, b),
        mb_bits(le, (x % b) as u64, b).len() == mb_len((x % b) as u64, b),
{
    let u = unary((x / b) as nat);
    let m = mb_bits(le, (x % b) as u64, b);
    let w = golomb_bits(le, x, b);
    assert(x % b < b);
    lemma_mb_bits_len(le, (x % b) as u64, b);
    assert(w == u + m);
    assert(s.subrange(p, p + u.len()) =~= w.subrange(0, u.len() as int));
    assert(w.subrange(0, u.len() as int) =~= u);
    assert(s.subrange(p + u.len(), p + u.len() + m.len()) =~= w.subrange(u.len() as int, w.len() as int));
    assert(w.subrange(u.len() as int, w.len() as int) =~= m);
}

pub proof fn lemma_mb_bits_len(le: bool, n: u64, max: u64)
    requires max > 0, n < max,
    ensures mb_bits(le, n, max).len() == mb_len(n, max),
{
}

pub trait GolombRead<E: Endianness>: BitRead<E> + MinimalBinaryRead<E> {
//@FN file=src/codes/golomb.rs item=/pub trait GolombRead<E: Endianness>: BitRead<E> \+ MinimalBinaryRead<E>/ name=read_golomb
//@SIG fn read_golomb(&mut self, b: u64) -> (r: Result<u64, Self::Error>)
//@SPEC     requires
//@SPEC         b > 0,
//@SPEC         // the stream continues with the Golomb codeword of some value of the domain
//@SPEC         exists|x: u64| x < u64::MAX && #[trigger] starts(old(self).stream(), old(self).pos() as int, golomb_bits(E::little(), x, b)),
//@SPEC     ensures
//@SPEC         final(self).stream() == old(self).stream(),
//@SPEC         r is Ok ==> forall|x: u64| x < u64::MAX && #[trigger] starts(old(self).stream(), old(self).pos() as int, golomb_bits(E::little(), x, b))
//@SPEC             ==> r->Ok_0 == x && final(self).pos() == old(self).pos() + golomb_len(x, b),
//@REPLACE_RE <<Ok\(self\.read_unary\(\)\?\s*\*\s*(.+?)\s*\+\s*self\.read_minimal_binary\((.+?)\)\?\)>> => <<let q = self.read_unary()?; let ghost pos1 = self.pos() as int; proof { lemma_golomb_q::<E>(old(self).stream(), old(self).pos() as int, q, b); } let qb = q * (\1); let r2 = self.read_minimal_binary(\2)?; proof { lemma_golomb_r::<E>(old(self).stream(), old(self).pos() as int, pos1, self.pos() as int, q, r2, b); } Ok(qb + r2)>>
//@END
}

/// after the unary part: the quotient of every candidate value is q (so q*b cannot overflow)
pub proof fn lemma_golomb_q<E: Endianness>(s: Seq<bool>, p: int, q: u64, b: u64)
    requires
        b > 0,
        exists|x: u64| x < u64::MAX && #[trigger] starts(s, p, golomb_bits(E::little(), x, b)),
        starts(s, p, unary(q as nat)),
    ensures
        q * b <= u64::MAX,
        forall|x: u64| x < u64::MAX && #[trigger] starts(s, p, golomb_bits(E::little(), x, b)) ==> x / b == q,
{
    let le = E::little();
    assert forall|x: u64| x < u64::MAX && #[trigger] starts(s, p, golomb_bits(le, x, b)) implies x / b == q by {
        lemma_golomb_split(s, p, le, x, b);
        lemma_unary_unique(s, p, (x / b) as nat, q as nat);
    }
    let x0 = choose|x: u64| x < u64::MAX && #[trigger] starts(s, p, golomb_bits(le, x, b));
    assert(x0 / b == q);
    assert((x0 / b) * b <= x0) by (nonlinear_arith) requires b > 0, x0 >= 0;
}

/// after the minimal binary part: the value is q*b + r2 and the reader is at the end of the codeword
pub proof fn lemma_golomb_r<E: Endianness>(s: Seq<bool>, p: int, pos1: int, pos2: int, q: u64, r2: u64, b: u64)
    requires
        b > 0, pos1 == p + q + 1,
        forall|x: u64| x < u64::MAX && #[trigger] starts(s, p, golomb_bits(E::little(), x, b)) ==> x / b == q,
        // contract of read_minimal_binary at pos1
        forall|y: u64| y < b && pos1 + mb_len(y, b) <= s.len() && s.subrange(pos1, (pos1 + mb_len(y, b)) as int) == mb_bits(E::little(), y, b)
            ==> r2 == y && pos2 == pos1 + mb_len(y, b),
    ensures
        forall|x: u64| x < u64::MAX && #[trigger] starts(s, p, golomb_bits(E::little(), x, b))
            ==> q * b + r2 == x && pos2 == p + golomb_len(x, b),
{
    let le = E::little();
    assert forall|x: u64| x < u64::MAX && #[trigger] starts(s, p, golomb_bits(le, x, b)) implies q * b + r2 == x && pos2 == p + golomb_len(x, b) by {
        lemma_golomb_split(s, p, le, x, b);
        let y = (x % b) as u64;
        assert(y < b);
        assert(r2 == y && pos2 == pos1 + mb_len(y, b));
        assert((x / b) * b + x % b == x) by (nonlinear_arith) requires b > 0, x >= 0;
    }
}

/// C20: the Golomb codeword length is non-decreasing in the value, for every modulus
pub proof fn lemma_golomb_len_monotone(a: u64, c: u64, b: u64)
    requires b > 0, a <= c, c < u64::MAX,
    ensures golomb_len(a, b) <= golomb_len(c, b),
{
    lemma_log2f_exists(b);
    let qa = a / b; let qc = c / b;
    let ra = (a % b) as u64; let rc = (c % b) as u64;
    assert(ra < b && rc < b);
    lemma_fundamental_div_mod(a as int, b as int);
    lemma_fundamental_div_mod(c as int, b as int);
    if qa == qc {
        assert(ra <= rc) by (nonlinear_arith) requires a <= c, a == b * qa + ra, c == b * qc + rc, qa == qc;
    } else {
        assert(qa <= qc) by (nonlinear_arith) requires a <= c, b > 0, qa == a / b, qc == c / b;
        assert(qa < qc);
    }
}

pub fn len_golomb_monotone(a: u64, c: u64, b: u64) -> (r: (usize, usize))
    requires b > 0, a <= c, c < u64::MAX,
    ensures r.0 <= r.1,
{
    proof { lemma_golomb_len_monotone(a, c, b); }
    (len_golomb(a, b), len_golomb(c, b))
}

} // verus!

fn main() {}
