// Unit C03-C04-C06/exp_golomb: the real text of `default_write_gamma`,
// `default_read_gamma`, `len_gamma_param::<false>` (src/codes/gamma.rs) and of
// `len_exp_golomb`, `ExpGolombWrite::write_exp_golomb`,
// `ExpGolombRead::read_exp_golomb` (src/codes/exp_golomb.rs) against the trait
// contracts, for EVERY parameter k in 0..=63 and every value below 2^64-1.
// `GammaWrite::write_gamma` / `GammaRead::read_gamma` / `len_gamma` (which select
// the table or default implementation) are contract-carrying declarations here;
// their default implementation is proved in this unit, the table variants are
// the Kani obligations c04/c05/c06 def_gamma*, tvb_gamma*, len_gamma*.
use vstd::prelude::*;
use vstd::arithmetic::power2::*;
use vstd::arithmetic::div_mod::*;
use vstd::bits::*;

verus! {

//@INCLUDE prelude.inc

//@INCLUDE mb_spec.inc

//@INCLUDE rice.inc

//@INCLUDE pi_value.inc

// ---------------------------------------------------------------------------
// gamma (src/codes/gamma.rs)
// ---------------------------------------------------------------------------

//@INCLUDE gamma_defs.inc

//@FN file=src/codes/gamma.rs item=- name=len_gamma_param
//@SIG pub fn len_gamma_param(mut n: u64) -> (r: usize)
//@SPEC     requires n < u64::MAX,
//@SPEC     ensures r == gamma_len(n),
//@REPLACE_RE <<(?s)if USE_TABLE \{.*?\n    \}\n>> => <<>>
//@PROLOGUE let ghost n0 = n;
//@PROOF after=<<let lambda = n.ilog2();>> proof { lemma_gamma_lambda(n0, n, lambda); }
//@END

//@FN file=src/codes/gamma.rs item=- name=default_write_gamma
//@SIG fn default_write_gamma<E: Endianness, B: BitWrite<E>>(backend: &mut B, mut n: u64) -> (r: Result<usize, B::Error>)
//@SPEC     requires n < u64::MAX,
//@SPEC     ensures r is Ok ==> r->Ok_0 == gamma_len(n) && final(backend).view() == old(backend).view() + gamma_bits(E::little(), n),
//@PROLOGUE let ghost n0 = n;
//@PROOF after=<<let lambda = n.ilog2();>> proof { lemma_gamma_lambda(n0, n, lambda); }
//@PROOF[checks] after=<<n ^= 1 << lambda;>> proof { lemma_xor_top(E::little(), (n0 + 1) as u64, lambda as nat, n); }
//@END

pub proof fn lemma_gamma_q<E: Endianness>(s: Seq<bool>, p: int, len: u64)
    requires
        exists|x: u64| x < u64::MAX && #[trigger] starts(s, p, gamma_bits(E::little(), x)),
        starts(s, p, unary(len as nat)),
    ensures
        len <= 63,
        forall|x: u64| x < u64::MAX && #[trigger] starts(s, p, gamma_bits(E::little(), x)) ==> gamma_lambda(x) == len,
{
    let le = E::little();
    assert forall|x: u64| x < u64::MAX && #[trigger] starts(s, p, gamma_bits(le, x)) implies gamma_lambda(x) == len by {
        lemma_gamma_split(s, p, le, x);
        lemma_unary_unique(s, p, gamma_lambda(x), len as nat);
    }
    let x0 = choose|x: u64| x < u64::MAX && #[trigger] starts(s, p, gamma_bits(le, x));
    lemma_gamma_split(s, p, le, x0);
}

pub proof fn lemma_gamma_r<E: Endianness>(s: Seq<bool>, p: int, pos1: int, pos2: int, len: u64, top: u64, low: u64)
    requires
        len <= 63, top == 1u64 << len, pos1 == p + len + 1, pos2 == pos1 + len, pos2 <= s.len(),
        forall|x: u64| x < u64::MAX && #[trigger] starts(s, p, gamma_bits(E::little(), x)) ==> gamma_lambda(x) == len,
        (low as nat) < pow2(len as nat),
        field(E::little(), low, len as nat) == s.subrange(pos1, pos1 + len),
    ensures
        low + top <= u64::MAX, low + top >= 1,
        forall|x: u64| x < u64::MAX && #[trigger] starts(s, p, gamma_bits(E::little(), x)) ==> low + top - 1 == x && pos2 == p + gamma_len(x),
{
    let le = E::little();
    lemma_pi_top(len, top, low);
    assert forall|x: u64| x < u64::MAX && #[trigger] starts(s, p, gamma_bits(le, x)) implies low + top - 1 == x && pos2 == p + gamma_len(x) by {
        lemma_gamma_split(s, p, le, x);
        let m = (x + 1) as u64;
        lemma_log2f_exists(m);
        lemma_pi_value(le, m, len as nat, low);
    }
}

//@FN file=src/codes/gamma.rs item=- name=default_read_gamma
//@SIG fn default_read_gamma<E: Endianness, B: BitRead<E>>(backend: &mut B) -> (r: Result<u64, B::Error>)
//@SPEC     requires
//@SPEC         old(backend).pos() <= old(backend).stream().len(),
//@SPEC         exists|x: u64| x < u64::MAX && #[trigger] starts(old(backend).stream(), old(backend).pos() as int, gamma_bits(E::little(), x)),
//@SPEC     ensures
//@SPEC         final(backend).stream() == old(backend).stream(),
//@SPEC         r is Ok ==> forall|x: u64| x < u64::MAX && #[trigger] starts(old(backend).stream(), old(backend).pos() as int, gamma_bits(E::little(), x))
//@SPEC             ==> r->Ok_0 == x && final(backend).pos() == old(backend).pos() + gamma_len(x),
//@PROOF after=<<let len = backend.read_unary()?;>> let ghost pos1 = backend.pos() as int; proof { lemma_gamma_q::<E>(old(backend).stream(), old(backend).pos() as int, len); }
//@REPLACE_RE <<Ok\(backend\.read_bits\(len as usize\)\? \+ \(1 << len\) - 1\)>> => <<let low = backend.read_bits(len as usize)?; let top: u64 = 1 << len; proof { lemma_gamma_r::<E>(old(backend).stream(), old(backend).pos() as int, pos1, backend.pos() as int, len, top, low); } Ok(low + top - 1)>>
//@END

// ---------------------------------------------------------------------------
// exp-Golomb (src/codes/exp_golomb.rs)
// ---------------------------------------------------------------------------

/// `len_gamma` (table or default implementation), by contract
#[verifier::external_body]
pub fn len_gamma(n: u64) -> (r: usize)
    requires n < u64::MAX,
    ensures r == gamma_len(n),
{ unimplemented!() }

/// `GammaWrite::write_gamma` / `GammaRead::read_gamma` (table or default implementation), by contract
pub trait GammaWrite<E: Endianness>: BitWrite<E> {
    fn write_gamma(&mut self, n: u64) -> (r: Result<usize, Self::Error>)
        requires n < u64::MAX,
        ensures r is Ok ==> r->Ok_0 == gamma_len(n) && final(self).view() == old(self).view() + gamma_bits(E::little(), n),
    ;
}
pub trait GammaRead<E: Endianness>: BitRead<E> {
    fn read_gamma(&mut self) -> (r: Result<u64, Self::Error>)
        requires
            old(self).pos() <= old(self).stream().len(),
            exists|x: u64| x < u64::MAX && #[trigger] starts(old(self).stream(), old(self).pos() as int, gamma_bits(E::little(), x)),
        ensures
            final(self).stream() == old(self).stream(),
            final(self).pos() <= final(self).stream().len(),
            r is Ok ==> forall|x: u64| x < u64::MAX && #[trigger] starts(old(self).stream(), old(self).pos() as int, gamma_bits(E::little(), x))
                ==> r->Ok_0 == x && final(self).pos() == old(self).pos() + gamma_len(x),
    ;
}

pub open spec fn eg_bits(le: bool, n: u64, k: nat) -> Seq<bool> {
    gamma_bits(le, quot(n, k) as u64) + field(le, n, k)
}
pub open spec fn eg_len(n: u64, k: nat) -> nat {
    gamma_len(quot(n, k) as u64) + k
}

pub proof fn lemma_eg_quot(n: u64, k: nat)
    requires k <= 63, n < u64::MAX,
    ensures (n >> (k as u64)) == quot(n, k), quot(n, k) < u64::MAX, gamma_len(quot(n, k) as u64) + k <= 200,
{
    lemma_u64_shr_is_div(n, k as u64);
    lemma_pow2_pos(k);
    assert(n as nat / pow2(k) <= n) by (nonlinear_arith) requires pow2(k) >= 1;
    lemma_log2f_exists((quot(n, k) + 1) as u64);
}

//@FN file=src/codes/exp_golomb.rs item=- name=len_exp_golomb
//@SIG pub fn len_exp_golomb(n: u64, k: usize) -> (r: usize)
//@SPEC     requires k <= 63, n < u64::MAX,
//@SPEC     ensures r == eg_len(n, k as nat),
//@PROLOGUE proof { lemma_eg_quot(n, k as nat); }
//@END

pub trait ExpGolombWrite<E: Endianness>: BitWrite<E> + GammaWrite<E> {
//@FN file=src/codes/exp_golomb.rs item=/pub trait ExpGolombWrite<E: Endianness>: BitWrite<E> \+ GammaWrite<E>/ name=write_exp_golomb
//@SIG fn write_exp_golomb(&mut self, n: u64, k: usize) -> (r: Result<usize, Self::Error>)
//@SPEC     requires k <= 63, n < u64::MAX,
//@SPEC     ensures r is Ok ==> r->Ok_0 == eg_len(n, k as nat) && final(self).view() == old(self).view() + eg_bits(E::little(), n, k as nat),
//@PROLOGUE let ghost n0 = n; proof { lemma_eg_quot(n, k as nat); }
//@PROOF[checks] after=[[let n = n & (1_u128 << k).wrapping_sub(1) as u64;]] proof { lemma_masked_field(E::little(), n0, k as nat, n); }
//@END
}

pub proof fn lemma_eg_split(s: Seq<bool>, p: int, le: bool, x: u64, k: nat)
    requires k <= 63, x < u64::MAX, starts(s, p, eg_bits(le, x, k)),
    ensures
        quot(x, k) < u64::MAX,
        starts(s, p, gamma_bits(le, quot(x, k) as u64)),
        starts(s, p + gamma_len(quot(x, k) as u64), field(le, x, k)),
        eg_bits(le, x, k).len() == eg_len(x, k),
{
    lemma_eg_quot(x, k);
    let g = quot(x, k) as u64;
    lemma_log2f_exists((g + 1) as u64);
    let u = gamma_bits(le, g);
    let m = field(le, x, k);
    let w = eg_bits(le, x, k);
    assert(u.len() == gamma_len(g));
    assert(w == u + m);
    assert(s.subrange(p, p + u.len()) =~= w.subrange(0, u.len() as int));
    assert(w.subrange(0, u.len() as int) =~= u);
    assert(s.subrange(p + u.len(), p + u.len() + m.len()) =~= w.subrange(u.len() as int, w.len() as int));
    assert(w.subrange(u.len() as int, w.len() as int) =~= m);
}

pub proof fn lemma_eg_pre<E: Endianness>(s: Seq<bool>, p: int, k: nat)
    requires
        k <= 63,
        exists|x: u64| x < u64::MAX && #[trigger] starts(s, p, eg_bits(E::little(), x, k)),
    ensures
        exists|y: u64| y < u64::MAX && #[trigger] starts(s, p, gamma_bits(E::little(), y)),
{
    let x0 = choose|x: u64| x < u64::MAX && #[trigger] starts(s, p, eg_bits(E::little(), x, k));
    lemma_eg_split(s, p, E::little(), x0, k);
    let y0 = quot(x0, k) as u64;
    assert(y0 < u64::MAX && starts(s, p, gamma_bits(E::little(), y0)));
}

/// after the gamma part: g is the quotient of every candidate value
pub proof fn lemma_eg_q<E: Endianness>(s: Seq<bool>, p: int, pos1: int, g: u64, k: nat)
    requires
        k <= 63,
        exists|x: u64| x < u64::MAX && #[trigger] starts(s, p, eg_bits(E::little(), x, k)),
        forall|y: u64| y < u64::MAX && #[trigger] starts(s, p, gamma_bits(E::little(), y)) ==> g == y && pos1 == p + gamma_len(y),
    ensures
        g * pow2(k) <= u64::MAX,
        (g << (k as u64)) == g * pow2(k),
        forall|x: u64| x < u64::MAX && #[trigger] starts(s, p, eg_bits(E::little(), x, k)) ==> quot(x, k) == g && pos1 == p + gamma_len(g),
{
    let le = E::little();
    assert forall|x: u64| x < u64::MAX && #[trigger] starts(s, p, eg_bits(le, x, k)) implies quot(x, k) == g && pos1 == p + gamma_len(g) by {
        lemma_eg_split(s, p, le, x, k);
        let y = quot(x, k) as u64;
        assert(starts(s, p, gamma_bits(le, y)));
    }
    let x0 = choose|x: u64| x < u64::MAX && #[trigger] starts(s, p, eg_bits(le, x, k));
    let pk = pow2(k);
    lemma_pow2_pos(k);
    assert(x0 as nat / pk == g);
    assert((x0 as nat / pk) * pk <= x0) by (nonlinear_arith) requires pk > 0;
    lemma_u64_shl_is_mul(g, k as u64);
}

pub proof fn lemma_eg_r<E: Endianness>(s: Seq<bool>, p: int, pos1: int, pos2: int, g: u64, gs: u64, low: u64, k: nat)
    requires
        k <= 63, pos2 == pos1 + k, pos2 <= s.len(),
        gs == g * pow2(k),
        forall|x: u64| x < u64::MAX && #[trigger] starts(s, p, eg_bits(E::little(), x, k)) ==> quot(x, k) == g && pos1 == p + gamma_len(g),
        (low as nat) < pow2(k),
        field(E::little(), low, k) == s.subrange(pos1, pos1 + k),
    ensures
        forall|x: u64| x < u64::MAX && #[trigger] starts(s, p, eg_bits(E::little(), x, k)) ==> gs + low == x && pos2 == p + eg_len(x, k),
{
    let le = E::little();
    lemma_pow2_pos(k);
    assert forall|x: u64| x < u64::MAX && #[trigger] starts(s, p, eg_bits(le, x, k)) implies gs + low == x && pos2 == p + eg_len(x, k) by {
        lemma_eg_split(s, p, le, x, k);
        let pk = pow2(k);
        let lowx = (x as nat % pk) as u64;
        lemma_field_low(le, x, k);
        lemma_mod_bound(x as int, pk as int);
        lemma_field_injective(le, low, lowx, k);
        lemma_fundamental_div_mod(x as int, pk as int);
        assert(pk * (x as nat / pk) == (x as nat / pk) * pk) by (nonlinear_arith);
    }
}

pub trait ExpGolombRead<E: Endianness>: BitRead<E> + GammaRead<E> {
//@FN file=src/codes/exp_golomb.rs item=/pub trait ExpGolombRead<E: Endianness>: BitRead<E> \+ GammaRead<E>/ name=read_exp_golomb
//@SIG fn read_exp_golomb(&mut self, k: usize) -> (r: Result<u64, Self::Error>)
//@SPEC     requires
//@SPEC         k <= 63, old(self).pos() <= old(self).stream().len(),
//@SPEC         exists|x: u64| x < u64::MAX && #[trigger] starts(old(self).stream(), old(self).pos() as int, eg_bits(E::little(), x, k as nat)),
//@SPEC     ensures
//@SPEC         final(self).stream() == old(self).stream(),
//@SPEC         r is Ok ==> forall|x: u64| x < u64::MAX && #[trigger] starts(old(self).stream(), old(self).pos() as int, eg_bits(E::little(), x, k as nat))
//@SPEC             ==> r->Ok_0 == x && final(self).pos() == old(self).pos() + eg_len(x, k as nat),
//@PROLOGUE proof { lemma_eg_pre::<E>(self.stream(), self.pos() as int, k as nat); }
//@REPLACE_RE <<Ok\(\(self\.read_gamma\(\)\? << k\) \+ self\.read_bits\(k\)\?\)>> => <<let g = self.read_gamma()?; let ghost pos1 = self.pos() as int; proof { lemma_eg_q::<E>(old(self).stream(), old(self).pos() as int, pos1, g, k as nat); } let gs = g << k; let low = self.read_bits(k)?; proof { lemma_eg_r::<E>(old(self).stream(), old(self).pos() as int, pos1, self.pos() as int, g, gs, low, k as nat); } Ok(gs + low)>>
//@END
}

} // verus!

fn main() {}
