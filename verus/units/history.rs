// Unit C01/history (pure specification, nothing extracted): the step contracts
// of DESIGN §2.1 compose over an arbitrary operation history — if every
// operation appends exactly its own bits to the view (what the per-operation
// obligations prove from an arbitrary invariant state), then after every prefix
// of every history the view is the concatenation of the operations' bits, a pure
// function of the sequence of operations; words already delivered are a prefix
// of every later view.
use vstd::prelude::*;
use vstd::arithmetic::power2::*;

verus! {

//@INCLUDE prelude.inc

pub enum Op {
    WriteBits { value: u64, n: nat },
    WriteUnary { x: nat },
    /// flush / drop / into_inner: zero padding up to the next word boundary
    Flush,
}

/// the bits an operation appends when `len` bits have been written so far
pub open spec fn op_bits(le: bool, word_bits: nat, len: nat, op: Op) -> Seq<bool> {
    match op {
        Op::WriteBits { value, n } => field(le, value, n),
        Op::WriteUnary { x } => unary(x),
        Op::Flush => Seq::new(((word_bits - (len % word_bits)) % (word_bits as int)) as nat, |i: int| false),
    }
}

/// the stream denoted by a history
pub open spec fn denote(le: bool, word_bits: nat, ops: Seq<Op>) -> Seq<bool>
    decreases ops.len(),
{
    if ops.len() == 0 {
        Seq::empty()
    } else {
        let before = denote(le, word_bits, ops.drop_last());
        before + op_bits(le, word_bits, before.len(), ops.last())
    }
}

/// `views[i]` is the writer's view after `i` operations
pub open spec fn run(le: bool, word_bits: nat, ops: Seq<Op>, views: Seq<Seq<bool>>) -> bool {
    &&& views.len() == ops.len() + 1
    &&& views[0] == Seq::<bool>::empty()
    &&& forall|i: int| 0 <= i < ops.len() ==> #[trigger] views[i + 1] == views[i] + op_bits(le, word_bits, views[i].len(), ops[i])
}

pub proof fn lemma_history(le: bool, word_bits: nat, ops: Seq<Op>, views: Seq<Seq<bool>>, k: int)
    requires
        word_bits > 0,
        run(le, word_bits, ops, views),
        0 <= k <= ops.len(),
    ensures
        views[k] == denote(le, word_bits, ops.subrange(0, k)),
    decreases k,
{
    if k == 0 {
        assert(ops.subrange(0, 0).len() == 0);
    } else {
        lemma_history(le, word_bits, ops, views, k - 1);
        let p = ops.subrange(0, k);
        assert(p.drop_last() =~= ops.subrange(0, k - 1));
        assert(p.last() == ops[k - 1]);
        assert(views[(k - 1) + 1] == views[k - 1] + op_bits(le, word_bits, views[k - 1].len(), ops[k - 1]));
    }
}

/// what was written is never altered: every earlier view is a prefix of every later one
pub proof fn lemma_prefix(le: bool, word_bits: nat, ops: Seq<Op>, views: Seq<Seq<bool>>, i: int, j: int)
    requires
        word_bits > 0,
        run(le, word_bits, ops, views),
        0 <= i <= j <= ops.len(),
    ensures
        views[i].len() <= views[j].len(),
        views[j].subrange(0, views[i].len() as int) == views[i],
    decreases j - i,
{
    if i == j {
        assert(views[j].subrange(0, views[i].len() as int) =~= views[i]);
    } else {
        lemma_prefix(le, word_bits, ops, views, i, j - 1);
        assert(views[(j - 1) + 1] == views[j - 1] + op_bits(le, word_bits, views[j - 1].len(), ops[j - 1]));
        assert(views[j].subrange(0, views[i].len() as int) =~= views[j - 1].subrange(0, views[i].len() as int));
    }
}

/// flushing is idempotent: a flush at a word boundary appends nothing
pub proof fn lemma_flush_idempotent(le: bool, word_bits: nat, len: nat)
    requires word_bits > 0,
    ensures
        op_bits(le, word_bits, (len + op_bits(le, word_bits, len, Op::Flush).len()) as nat, Op::Flush).len() == 0,
        (len + op_bits(le, word_bits, len, Op::Flush).len()) % word_bits == 0,
{
    let pad = ((word_bits - (len % word_bits)) % (word_bits as int)) as nat;
    assert(op_bits(le, word_bits, len, Op::Flush).len() == pad);
    assert((len + pad) % word_bits == 0) by (nonlinear_arith)
        requires word_bits > 0, pad == ((word_bits - (len % word_bits)) % (word_bits as int)) as nat;
    let len2 = (len + pad) as nat;
    assert(((word_bits - (len2 % word_bits)) % (word_bits as int)) == 0) by (nonlinear_arith)
        requires word_bits > 0, len2 % word_bits == 0;
    assert(op_bits(le, word_bits, len2, Op::Flush).len() == 0);
}

} // verus!

fn main() {}
