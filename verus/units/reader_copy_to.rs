// Unit C08/reader_copy_to: the real text of the optimised `BufBitReader::copy_to`
// (BE and LE impls, src/impls/buf_bit_reader.rs) under the reader contract of
// DESIGN 2.1, for EVERY n (unbounded word loop) and every Inv_R state (including
// more than one word buffered), generic in the destination `W: BitWrite<F>` of
// the same endianness (trait contract).
//
// Template parameters as in reader_unary.rs. `self.read_bits` (used when more than
// 64 bits are buffered) is taken by contract (external_body; discharged by the
// Kani obligations c02.read_bits.*).
use vstd::prelude::*;
use vstd::arithmetic::power2::*;
use vstd::arithmetic::div_mod::*;
use vstd::bits::*;
use vstd::std_specs::bits::*;

verus! {

//@INJECT top
pub enum CopyError<RE, WE> {
    ReadError(RE),
    WriteError(WE),
}
//@ENDINJECT

//@INCLUDE prelude.inc

//@INCLUDE reader_defs.inc

/// `CastableInto<u64> for BB<WR>` (truncating `as` cast) and `UpcastableInto<u64> for WR::Word`
pub trait CastU64: Sized {
    spec fn cast_spec(self) -> u64;
    fn cast(self) -> (r: u64)
        ensures r == self.cast_spec();
}
impl CastU64 for {{BB}} {
    open spec fn cast_spec(self) -> u64 { self as u64 }
    fn cast(self) -> (r: u64) { self as u64 }
}
pub trait UpcastU64: Sized {
    spec fn up_spec(self) -> u64;
    fn upcast(self) -> (r: u64)
        ensures r == self.up_spec();
}
impl UpcastU64 for {{W}} {
    open spec fn up_spec(self) -> u64 { self as u64 }
    fn upcast(self) -> (r: u64) { self as u64 }
}

// rotate_left in bit form (discharged by the Kani obligation std_spec.rotate_left_*)
pub uninterp spec fn spec_rotl(x: {{BB}}, n: u32) -> {{BB}};
pub assume_specification[ {{BB}}::rotate_left ](x: {{BB}}, n: u32) -> (r: {{BB}}) ensures r == spec_rotl(x, n);
#[verifier::external_body]
pub proof fn axiom_rotl(x: {{BB}}, n: u32, j: nat)
    requires j < {{M}}, n <= {{M}},
    ensures wbit(spec_rotl(x, n) as nat, j) == wbit(x as nat, ((j + {{M}} - n) % {{M}}) as nat),
{}

/// the n stream bits from position p
pub open spec fn sbits(le: bool, b: spec_fn(nat) -> {{W}}, p: int, n: int) -> Seq<bool> {
    Seq::new(n as nat, |i: int| sbit(le, b, p + i))
}

pub proof fn lemma_sbits_add(le: bool, b: spec_fn(nat) -> {{W}}, p: int, n: int, m: int)
    requires 0 <= n, 0 <= m,
    ensures sbits(le, b, p, n) + sbits(le, b, p + n, m) =~= sbits(le, b, p, n + m),
{}

/// bits of the low 64 bits of a buffer value
pub proof fn lemma_cast64_bits(x: {{BB}}, j: nat)
    requires j < 64,
    ensures bit_of(x as u64, j) == (j < {{M}} && wbit(x as nat, j)),
{
    if j < {{M}} {
        lemma_wbit_bb(x, j);
        lemma_u64_shr_is_div(x as u64, j as u64);
        let jj = j as {{BB}};
        let j6 = j as u64;
        let s = (x as u64) >> j6;
        assert(s & 1 == s % 2) by (bit_vector);
        assert((((x as u64) >> j6) & 1 == 1) == (((x >> jj) & 1) == 1)) by (bit_vector) requires jj == j6 as {{BB}}, j6 < 64, jj < {{M}};
    } else {
        // M < 64: the value is below 2^M
        lemma_pow2_pos(j);
        lemma2_to64();
        lemma2_to64_rest();
        lemma_pow2_strictly_increases({{M}}, j + 1);
        assert(pow2(j + 1) == 2 * pow2(j)) by { lemma_pow2_unfold(j + 1); }
        assert((x as nat) < pow2({{M}}));
        assert(((x as u64) as nat) / pow2(j) == 0) by (nonlinear_arith) requires ((x as u64) as nat) < pow2(j), pow2(j) > 0;
    }
}

/// bits of a word seen as a u64
pub proof fn lemma_up_bits(w: {{W}}, j: nat)
    requires j < 64,
    ensures bit_of(w as u64, j) == (j < {{N}} && wbit(w as nat, j)),
{
    if j < {{N}} {
        lemma_wbit_w(w, j);
        lemma_u64_shr_is_div(w as u64, j as u64);
        let jj = j as {{W}};
        let j6 = j as u64;
        let s = (w as u64) >> j6;
        assert(s & 1 == s % 2) by (bit_vector);
        assert((((w as u64) >> j6) & 1 == 1) == (((w >> jj) & 1) == 1)) by (bit_vector) requires jj == j6 as {{W}}, j6 < 64, jj < {{N}};
    } else {
        lemma_pow2_pos(j);
        lemma2_to64();
        lemma2_to64_rest();
        if {{N}} < j { lemma_pow2_strictly_increases({{N}}, j); }
        assert(((w as u64) as nat) / pow2(j) == 0) by (nonlinear_arith) requires ((w as u64) as nat) < pow2(j), pow2(j) > 0;
    }
}

/// bits of w >> z for a word
pub proof fn lemma_shr_bits_w(w: {{W}}, z: nat, j: nat)
    requires z < {{N}}, j < {{N}},
    ensures wbit(((w >> (z as {{W}})) as {{W}}) as nat, j) == (j + z < {{N}} && wbit(w as nat, j + z)),
{
    let b2: {{W}} = w >> (z as {{W}});
    lemma_wbit_w(b2, j);
    let zz = z as {{W}};
    let jj = j as {{W}};
    if j + z < {{N}} {
        let k = j + z;
        lemma_wbit_w(w, k);
        let kk = k as {{W}};
        assert(((w >> zz) >> jj) & 1 == (w >> kk) & 1) by (bit_vector) requires kk == jj + zz, kk < {{N}};
    } else {
        assert(((w >> zz) >> jj) & 1 == 0) by (bit_vector) requires jj + zz >= {{N}}, jj < {{N}}, zz < {{N}};
    }
}

/// bits of (b >> z) << z
pub proof fn lemma_clear_low(b: {{BB}}, z: nat, j: nat)
    requires z < {{M}}, j < {{M}},
    ensures wbit((((b >> (z as {{BB}})) << (z as {{BB}})) as {{BB}}) as nat, j) == (j >= z && wbit(b as nat, j)),
{
    let b2: {{BB}} = (b >> (z as {{BB}})) << (z as {{BB}});
    lemma_wbit_bb(b2, j);
    lemma_wbit_bb(b, j);
    let zz = z as {{BB}};
    let jj = j as {{BB}};
    assert(((((b >> zz) << zz) >> jj) & 1 == 1) == (jj >= zz && ((b >> jj) & 1 == 1))) by (bit_vector) requires jj < {{M}}, zz < {{M}};
}

/// BE: the first `fb` buffered bits, as written by `write_bits(rotl(b1, fb) as u64, fb)`, and the buffer left behind
pub proof fn lemma_ct_be_from_buffer(bk: spec_fn(nat) -> {{W}}, b1: {{BB}}, nb1: nat, pos1: int, fb: nat, r64: u64, b2: {{BB}})
    requires
        nb1 < {{M}}, fb <= nb1, fb <= 64,
        r64 == spec_rotl(b1, fb as u32) as u64,
        b2 == (spec_rotl(b1, fb as u32) >> (fb as {{BB}})) << (fb as {{BB}}),
        forall|j: nat| j < {{M}} ==> #[trigger] wbit(b1 as nat, j) == (j >= {{M}} - nb1 && sbit(false, bk, pos1 + {{M}} - 1 - j)),
    ensures
        field(false, r64, fb) =~= sbits(false, bk, pos1, fb as int),
        forall|j: nat| j < {{M}} ==> #[trigger] wbit(b2 as nat, j) == (j >= {{M}} - (nb1 - fb) && sbit(false, bk, pos1 + fb + {{M}} - 1 - j)),
{
    let r = spec_rotl(b1, fb as u32);
    assert forall|i: int| 0 <= i < fb implies #[trigger] field(false, r as u64, fb)[i] == sbits(false, bk, pos1, fb as int)[i] by {
        let jl = (fb - 1 - i) as nat;
        lemma_cast64_bits(r, jl);
        axiom_rotl(b1, fb as u32, jl);
        lemma_fundamental_div_mod_converse((jl + {{M}} - fb) as int, {{M}}, 0, ({{M}} - 1 - i) as int);
        assert(wbit(b1 as nat, ({{M}} - 1 - i) as nat) == sbit(false, bk, pos1 + i));
    }
    assert forall|j: nat| j < {{M}} implies #[trigger] wbit(b2 as nat, j) == (j >= {{M}} - (nb1 - fb) && sbit(false, bk, pos1 + fb + {{M}} - 1 - j)) by {
        lemma_clear_low(r, fb, j);
        axiom_rotl(b1, fb as u32, j);
        if j >= fb {
            lemma_fundamental_div_mod_converse((j + {{M}} - fb) as int, {{M}}, 1, (j - fb) as int);
            assert(wbit(b1 as nat, (j - fb) as nat) == ((j - fb) >= {{M}} - nb1 && sbit(false, bk, pos1 + {{M}} - 1 - (j - fb))));
        }
    }
}

/// a whole word written as an N-bit field
pub proof fn lemma_ct_word(le: bool, bk: spec_fn(nat) -> {{W}}, c: nat, wv: {{W}}, v64: u64)
    requires wv == (if le { spec_to_le(bk(c)) } else { spec_to_be(bk(c)) }), v64 == wv as u64,
    ensures field(le, v64, {{N}}) =~= sbits(le, bk, (c * {{N}}) as int, {{N}}),
{
    assert forall|i: int| 0 <= i < {{N}} implies #[trigger] field(le, wv as u64, {{N}})[i] == sbits(le, bk, (c * {{N}}) as int, {{N}})[i] by {
        lemma_up_bits(wv, (if le { i } else { {{N}} - 1 - i }) as nat);
        lemma_sbit_word(le, bk, c, i);
    }
}

/// BE: the last, partial word: the n bits written and the buffer left behind
pub proof fn lemma_ct_be_final(bk: spec_fn(nat) -> {{W}}, c: nat, n: nat, nw: {{W}}, v64: u64, b3: {{BB}})
    requires
        1 <= n <= {{N}},
        nw == spec_to_be(bk(c)),
        v64 == (nw >> (({{N}} - n) as {{W}})) as u64,
        b3 == ((nw as {{BB}}) << (({{M}} - 1 - ({{N}} - n)) as {{BB}})) << 1,
    ensures
        field(false, v64, n) =~= sbits(false, bk, (c * {{N}}) as int, n as int),
        forall|j: nat| j < {{M}} ==> #[trigger] wbit(b3 as nat, j) == (j >= {{M}} - ({{N}} - n) && sbit(false, bk, c * {{N}} + n + {{M}} - 1 - j)),
{
    let nbf = ({{N}} - n) as nat;
    let vv: {{W}} = nw >> (nbf as {{W}});
    assert forall|i: int| 0 <= i < n implies #[trigger] field(false, vv as u64, n)[i] == sbits(false, bk, (c * {{N}}) as int, n as int)[i] by {
        lemma_up_bits(vv, (n - 1 - i) as nat);
        lemma_shr_bits_w(nw, nbf, (n - 1 - i) as nat);
        lemma_sbit_word(false, bk, c, i);
    }
    assert forall|j: nat| j < {{M}} implies #[trigger] wbit(b3 as nat, j) == (j >= {{M}} - nbf && sbit(false, bk, c * {{N}} + n + {{M}} - 1 - j)) by {
        lemma_shl1_bits(nw as {{BB}}, ({{M}} - 1 - nbf) as nat, j);
        if j >= {{M}} - nbf {
            lemma_upcast_bits(nw, (j - ({{M}} - nbf)) as nat);
            lemma_sbit_word(false, bk, c, n + {{M}} - 1 - j);
        }
    }
}

/// LE: the first `fb` buffered bits, as written by `write_bits(b1 as u64, fb)`, and the buffer left behind
pub proof fn lemma_ct_le_from_buffer(bk: spec_fn(nat) -> {{W}}, b1: {{BB}}, nb1: nat, pos1: int, fb: nat, r64: u64, b2: {{BB}})
    requires
        nb1 < {{M}}, fb <= nb1, fb <= 64,
        r64 == b1 as u64,
        b2 == b1 >> (fb as {{BB}}),
        forall|j: nat| j < {{M}} ==> #[trigger] wbit(b1 as nat, j) == (j < nb1 && sbit(true, bk, pos1 + j)),
    ensures
        field(true, r64, fb) =~= sbits(true, bk, pos1, fb as int),
        forall|j: nat| j < {{M}} ==> #[trigger] wbit(b2 as nat, j) == (j < nb1 - fb && sbit(true, bk, pos1 + fb + j)),
{
    assert forall|i: int| 0 <= i < fb implies #[trigger] field(true, r64, fb)[i] == sbits(true, bk, pos1, fb as int)[i] by {
        lemma_cast64_bits(b1, i as nat);
        assert(wbit(b1 as nat, i as nat) == sbit(true, bk, pos1 + i));
    }
    assert forall|j: nat| j < {{M}} implies #[trigger] wbit(b2 as nat, j) == (j < nb1 - fb && sbit(true, bk, pos1 + fb + j)) by {
        lemma_shr_bits(b1, fb, j);
        if j + fb < {{M}} {
            assert(wbit(b1 as nat, j + fb) == (j + fb < nb1 && sbit(true, bk, pos1 + (j + fb) as int)));
        }
    }
}

/// LE: the last, partial word
pub proof fn lemma_ct_le_final(bk: spec_fn(nat) -> {{W}}, c: nat, n: nat, nw: {{W}}, v64: u64, b3: {{BB}})
    requires
        1 <= n <= {{N}},
        nw == spec_to_le(bk(c)),
        v64 == nw as u64,
        b3 == (nw as {{BB}}) >> (n as {{BB}}),
    ensures
        field(true, v64, n) =~= sbits(true, bk, (c * {{N}}) as int, n as int),
        forall|j: nat| j < {{M}} ==> #[trigger] wbit(b3 as nat, j) == (j < {{N}} - n && sbit(true, bk, (c * {{N}} + n + j) as int)),
{
    assert forall|i: int| 0 <= i < n implies #[trigger] field(true, v64, n)[i] == sbits(true, bk, (c * {{N}}) as int, n as int)[i] by {
        lemma_up_bits(nw, i as nat);
        lemma_sbit_word(true, bk, c, i);
    }
    assert forall|j: nat| j < {{M}} implies #[trigger] wbit(b3 as nat, j) == (j < {{N}} - n && sbit(true, bk, (c * {{N}} + n + j) as int)) by {
        lemma_shr_bits(nw as {{BB}}, n, j);
        if j + n < {{M}} {
            lemma_upcast_bits(nw, j + n);
            if j + n < {{N}} { lemma_sbit_word(true, bk, c, (j + n) as int); }
        }
    }
}

// ---------------------------------------------------------------- `checks` configuration
pub proof fn lemma_bit_of(v: u64, i: nat)
    requires i < 64,
    ensures bit_of(v, i) == ((v >> (i as u64)) & 1 == 1),
{
    lemma_u64_shr_is_div(v, i as u64);
    let s = v >> (i as u64);
    assert(s & 1 == s % 2) by (bit_vector);
}

/// a u64 all of whose bits at or above n are zero is below 2^n
pub proof fn lemma_small(v: u64, n: nat)
    requires n <= 64, forall|j: nat| n <= j < 64 ==> !#[trigger] bit_of(v, j),
    ensures (v as nat) < pow2(n),
    decreases 64 - n,
{
    lemma2_to64();
    lemma2_to64_rest();
    if n == 64 {
    } else {
        lemma_small(v, n + 1);
        lemma_pow2_unfold(n + 1);
        lemma_pow2_pos(n);
        let pn = pow2(n);
        assert(!bit_of(v, n));
        assert((v as nat) / pn < 2) by (nonlinear_arith) requires (v as nat) < 2 * pn, pn > 0;
        assert((v as nat) / pn == 0);
        assert((v as nat) < pn) by (nonlinear_arith) requires (v as nat) / pn == 0, pn > 0;
    }
}

/// (1 << n) - 1 does not underflow (n < 64)
pub proof fn lemma_one_shl64(n: u64)
    requires n < 64,
    ensures (1u64 << n) >= 1,
{
    assert((1u64 << n) >= 1) by (bit_vector) requires n < 64;
}

/// bits of v & ((1 << n) - 1)
pub proof fn lemma_mask64_bits(v: u64, n: nat, j: nat)
    requires n < 64, j < 64,
    ensures bit_of(v & (((1u64 << (n as u64)) - 1) as u64), j) == (j < n && bit_of(v, j)),
{
    let nn = n as u64;
    let jj = j as u64;
    lemma_one_shl64(nn);
    let m: u64 = ((1u64 << nn) - 1) as u64;
    lemma_bit_of(v & m, j);
    lemma_bit_of(v, j);
    assert((((v & (((1u64 << nn) - 1) as u64)) >> jj) & 1 == 1) == (jj < nn && ((v >> jj) & 1 == 1))) by (bit_vector) requires jj < 64, nn < 64;
}

/// the value handed to write_bits after the clean-up of the `checks` configuration
pub proof fn lemma_ct_clean(le: bool, fb: nat, n: u64, r64: u64, v: u64)
    requires
        fb <= 64, fb <= n,
        v == (if n < 64 { r64 & (((1u64 << n) - 1) as u64) } else { r64 }),
        // when fewer than n bits come from the buffer, nothing is set above them
        fb < n ==> forall|j: nat| fb <= j < 64 ==> !#[trigger] bit_of(r64, j),
    ensures (v as nat) < pow2(fb), field(le, v, fb) =~= field(le, r64, fb),
{
    assert forall|j: nat| j < 64 implies #[trigger] bit_of(v, j) == (bit_of(r64, j) && (n >= 64 || j < n)) by {
        if n < 64 { lemma_mask64_bits(r64, n as nat, j); }
    }
    assert forall|j: nat| fb <= j < 64 implies !#[trigger] bit_of(v, j) by {
        assert(bit_of(v, j) == (bit_of(r64, j) && (n >= 64 || j < n)));
    }
    lemma_small(v, fb);
    assert forall|i: int| 0 <= i < fb implies #[trigger] field(le, v, fb)[i] == field(le, r64, fb)[i] by {
        let j: nat = if le { i as nat } else { (fb - 1 - i) as nat };
        assert(bit_of(v, j) == (bit_of(r64, j) && (n >= 64 || j < n)));
    }
}

/// BE: above the nb1 buffered bits the rotated buffer has nothing set
pub proof fn lemma_ct_be_high_zero(b1: {{BB}}, nb1: nat, fb: nat, r64: u64, pos1: int, bk: spec_fn(nat) -> {{W}})
    requires
        nb1 < {{M}}, fb == nb1, fb <= 64, r64 == spec_rotl(b1, fb as u32) as u64,
        forall|j: nat| j < {{M}} ==> #[trigger] wbit(b1 as nat, j) == (j >= {{M}} - nb1 && sbit(false, bk, pos1 + {{M}} - 1 - j)),
    ensures forall|j: nat| fb <= j < 64 ==> !#[trigger] bit_of(r64, j),
{
    let r = spec_rotl(b1, fb as u32);
    assert forall|j: nat| fb <= j < 64 implies !#[trigger] bit_of(r64, j) by {
        lemma_cast64_bits(r, j);
        if j < {{M}} {
            axiom_rotl(b1, fb as u32, j);
            lemma_fundamental_div_mod_converse((j + {{M}} - fb) as int, {{M}}, 1, (j - fb) as int);
            assert(wbit(b1 as nat, (j - fb) as nat) == ((j - fb) >= {{M}} - nb1 && sbit(false, bk, pos1 + {{M}} - 1 - (j - fb))));
        }
    }
}

/// LE: above the nb1 buffered bits the buffer has nothing set
pub proof fn lemma_ct_le_high_zero(b1: {{BB}}, nb1: nat, r64: u64, pos1: int, bk: spec_fn(nat) -> {{W}})
    requires
        nb1 < {{M}}, r64 == b1 as u64,
        forall|j: nat| j < {{M}} ==> #[trigger] wbit(b1 as nat, j) == (j < nb1 && sbit(true, bk, pos1 + j)),
    ensures forall|j: nat| nb1 <= j < 64 ==> !#[trigger] bit_of(r64, j),
{
    assert forall|j: nat| nb1 <= j < 64 implies !#[trigger] bit_of(r64, j) by {
        lemma_cast64_bits(b1, j);
        if j < {{M}} { assert(wbit(b1 as nat, j) == (j < nb1 && sbit(true, bk, pos1 + j))); }
    }
}

/// a word, or its top n bits, as a clean write_bits argument
pub proof fn lemma_word_clean(w: {{W}}, z: nat)
    requires z < {{N}} || z == 0,
    ensures (((w >> (z as {{W}})) as u64) as nat) < pow2(({{N}} - z) as nat), z == 0 ==> ((w as u64) as nat) < pow2({{N}}),
{
    let x: {{W}} = w >> (z as {{W}});
    if z == 0 { let zero: {{W}} = 0; assert(w >> zero == w) by (bit_vector) requires zero == 0; }
    assert forall|j: nat| {{N}} - z <= j < 64 implies !#[trigger] bit_of(x as u64, j) by {
        lemma_up_bits(x, j);
        if j < {{N}} { lemma_shr_bits_w(w, z, j); }
    }
    lemma_small(x as u64, ({{N}} - z) as nat);
}

pub proof fn lemma_pow2_64()
    ensures pow2(64) == 0x1_0000_0000_0000_0000,
{
    lemma2_to64_rest();
}

// ---------------------------------------------------------------- BE
impl<WR: WordRead> BufBitReader<BE, WR> {
    spec fn pos(&self) -> int { self.backend.cursor() * {{N}} - self.bits_in_buffer }
    spec fn inv(&self) -> bool {
        &&& self.bits_in_buffer < {{M}}
        &&& self.pos() >= 0
        &&& self.backend.limit() * {{N}} + {{M}} <= u64::MAX
        &&& self.backend.cursor() <= self.backend.limit()
        &&& forall|j: nat| j < {{M}} ==> #[trigger] wbit(self.buffer as nat, j) == (j >= {{M}} - self.bits_in_buffer && sbit(false, self.backend.data(), self.pos() + {{M}} - 1 - j))
    }

    /// `BitRead::read_bits` of this reader, by contract (Kani: c02.read_bits.BE.{{W}})
    #[verifier::external_body]
    fn read_bits(&mut self, n_bits: usize) -> (r: Result<u64, WR::Error>)
        requires old(self).inv(), n_bits <= 64,
        ensures
            final(self).backend.data() == old(self).backend.data(),
            final(self).backend.limit() == old(self).backend.limit(), final(self).backend.len() == old(self).backend.len(),
            r is Ok ==> {
                &&& final(self).inv()
                &&& final(self).pos() == old(self).pos() + n_bits
                &&& (r->Ok_0 as nat) < pow2(n_bits as nat)
                &&& field(false, r->Ok_0, n_bits as nat) == sbits(false, old(self).backend.data(), old(self).pos(), n_bits as int)
                &&& old(self).bits_in_buffer >= n_bits ==> final(self).bits_in_buffer == old(self).bits_in_buffer - n_bits
            },
    { unimplemented!() }

//@FN file=src/impls/buf_bit_reader.rs item=/impl<WR: WordRead, RP: ReadParams> BitRead<BE> for BufBitReader<BE, WR, RP>/ name=copy_to
//@ATTR #[verifier::loop_isolation(false)]
//@SIG fn copy_to_be<F: Endianness, W: BitWrite<F>>(&mut self, bit_write: &mut W, mut n: u64) -> (r: Result<(), CopyError<WR::Error, W::Error>>)
//@SPEC     requires old(self).inv(), !F::little(),
//@SPEC     ensures
//@SPEC         final(self).backend.data() == old(self).backend.data(),
//@SPEC         r is Ok ==> {
//@SPEC             &&& final(self).inv()
//@SPEC             &&& final(self).pos() == old(self).pos() + n
//@SPEC             &&& final(bit_write).view() == old(bit_write).view() + sbits(false, old(self).backend.data(), old(self).pos(), n as int)
//@SPEC         },
//@INST <<UpcastableInto::<BB<WR>>::upcast(new_word)>> => <<(new_word as {{BB}})>>
//@INST <<BB::<WR>::BITS>> => <<{{M}}usize>>
//@INST <<WR::Word::BITS>> => <<{{N}}usize>>
//@INST <<WR::Word::ZERO>> => <<(0 as {{W}})>>
//@REPLACE_RE <<Ord::min\(n, self\.bits_in_buffer as _\)>> => <<(if n <= self.bits_in_buffer as u64 { n } else { self.bits_in_buffer as u64 })>>
//@PROLOGUE let ghost n0 = n; let ghost pos0 = self.pos(); let ghost V0 = bit_write.view(); let ghost bk = old(self).backend.data();
//@PROOF after=<<n -= 64;>> proof { lemma_sbits_add(false, bk, pos0, 0, 64); }
//@PROLOGUE[checks] proof { lemma_pow2_64(); }
//@PROOF after=<<let from_buffer = >> let ghost pos1 = self.pos(); let ghost nb1 = self.bits_in_buffer as nat; let ghost b1 = self.buffer; let ghost V1 = bit_write.view(); let ghost n1 = n; proof { assert(V1 =~= V0 + sbits(false, bk, pos0, pos1 - pos0)); assert(from_buffer <= 64); }
//@PROOF after=<<let mut self_buffer_u64: u64 = self.buffer.cast();>> let ghost r64 = self_buffer_u64; proof { if n < 64 { lemma_one_shl64(n); } }
//@PROOF after=<<n -= from_buffer;>> proof { lemma_ct_be_from_buffer(bk, b1, nb1, pos1, from_buffer as nat, r64, self.buffer); lemma_sbits_add(false, bk, pos0, pos1 - pos0, from_buffer as int); }
//@LOOP 1 invariant
//@LOOP 1     self.backend.data() == old(self).backend.data(),
//@LOOP 1     self.backend.limit() == old(self).backend.limit(), self.backend.len() == old(self).backend.len(),
//@LOOP 1     self.backend.cursor() <= self.backend.limit(),
//@LOOP 1     1 <= n <= n0,
//@LOOP 1     self.backend.cursor() * {{N}} == pos0 + (n0 - n),
//@LOOP 1     bit_write.view() == V0 + sbits(false, bk, pos0, n0 - n),
//@LOOP 1 decreases n,
//@LOOPEND 1 proof { let c = (self.backend.cursor() - 1) as nat; lemma_ct_word(false, bk, c, spec_to_be(bk(c)), spec_to_be(bk(c)) as u64); lemma_sbits_add(false, bk, pos0, (c * {{N}}) as int - pos0, {{N}}); }
//@EPILOGUE proof { let c = (self.backend.cursor() - 1) as nat; lemma_ct_be_final(bk, c, n as nat, new_word, (new_word >> self.bits_in_buffer) as u64, self.buffer); lemma_sbits_add(false, bk, pos0, (c * {{N}}) as int - pos0, n as int); }
//@REPLACE_RE[checks] [[\(match bit_write\.write_bits\(self_buffer_u64, from_buffer as usize\)]] => [[proof { if from_buffer < n { lemma_ct_be_high_zero(b1, nb1, from_buffer as nat, r64, pos1, bk); } lemma_ct_clean(false, from_buffer as nat, n, r64, self_buffer_u64); lemma_ct_be_from_buffer(bk, b1, nb1, pos1, from_buffer as nat, r64, (spec_rotl(b1, from_buffer as u32) >> (from_buffer as {{BB}})) << (from_buffer as {{BB}})); } (match bit_write.write_bits(self_buffer_u64, from_buffer as usize)]]
//@REPLACE_RE[checks] [[\(match bit_write\.write_bits\( \(match self\.backend\.read_word\(\)]] => [[proof { lemma_word_clean(spec_to_be(bk(self.backend.cursor())), 0); } (match bit_write.write_bits( (match self.backend.read_word()]]
//@REPLACE_RE[checks] [[\(match bit_write\.write_bits\(\(new_word >> self\.bits_in_buffer\)\.upcast\(\), n as usize\)]] => [[proof { lemma_word_clean(new_word, self.bits_in_buffer as nat); } (match bit_write.write_bits((new_word >> self.bits_in_buffer).upcast(), n as usize)]]
//@END
}

// ---------------------------------------------------------------- LE
impl<WR: WordRead> BufBitReader<LE, WR> {
    spec fn pos(&self) -> int { self.backend.cursor() * {{N}} - self.bits_in_buffer }
    spec fn inv(&self) -> bool {
        &&& self.bits_in_buffer < {{M}}
        &&& self.pos() >= 0
        &&& self.backend.limit() * {{N}} + {{M}} <= u64::MAX
        &&& self.backend.cursor() <= self.backend.limit()
        &&& forall|j: nat| j < {{M}} ==> #[trigger] wbit(self.buffer as nat, j) == (j < self.bits_in_buffer && sbit(true, self.backend.data(), self.pos() + j))
    }

    /// `BitRead::read_bits` of this reader, by contract (Kani: c02.read_bits.LE.{{W}})
    #[verifier::external_body]
    fn read_bits(&mut self, n_bits: usize) -> (r: Result<u64, WR::Error>)
        requires old(self).inv(), n_bits <= 64,
        ensures
            final(self).backend.data() == old(self).backend.data(),
            final(self).backend.limit() == old(self).backend.limit(), final(self).backend.len() == old(self).backend.len(),
            r is Ok ==> {
                &&& final(self).inv()
                &&& final(self).pos() == old(self).pos() + n_bits
                &&& (r->Ok_0 as nat) < pow2(n_bits as nat)
                &&& field(true, r->Ok_0, n_bits as nat) == sbits(true, old(self).backend.data(), old(self).pos(), n_bits as int)
                &&& old(self).bits_in_buffer >= n_bits ==> final(self).bits_in_buffer == old(self).bits_in_buffer - n_bits
            },
    { unimplemented!() }

//@FN file=src/impls/buf_bit_reader.rs item=/impl<WR: WordRead, RP: ReadParams> BitRead<LE> for BufBitReader<LE, WR, RP>/ name=copy_to
//@ATTR #[verifier::loop_isolation(false)]
//@SIG fn copy_to_le<F: Endianness, W: BitWrite<F>>(&mut self, bit_write: &mut W, mut n: u64) -> (r: Result<(), CopyError<WR::Error, W::Error>>)
//@SPEC     requires old(self).inv(), F::little(),
//@SPEC     ensures
//@SPEC         final(self).backend.data() == old(self).backend.data(),
//@SPEC         r is Ok ==> {
//@SPEC             &&& final(self).inv()
//@SPEC             &&& final(self).pos() == old(self).pos() + n
//@SPEC             &&& final(bit_write).view() == old(bit_write).view() + sbits(true, old(self).backend.data(), old(self).pos(), n as int)
//@SPEC         },
//@INST <<UpcastableInto::<BB<WR>>::upcast(new_word)>> => <<(new_word as {{BB}})>>
//@INST <<BB::<WR>::BITS>> => <<{{M}}usize>>
//@INST <<WR::Word::BITS>> => <<{{N}}usize>>
//@INST <<WR::Word::ZERO>> => <<(0 as {{W}})>>
//@REPLACE_RE <<Ord::min\(n, self\.bits_in_buffer as _\)>> => <<(if n <= self.bits_in_buffer as u64 { n } else { self.bits_in_buffer as u64 })>>
//@PROLOGUE let ghost n0 = n; let ghost pos0 = self.pos(); let ghost V0 = bit_write.view(); let ghost bk = old(self).backend.data();
//@PROOF after=<<n -= 64;>> proof { lemma_sbits_add(true, bk, pos0, 0, 64); }
//@PROLOGUE[checks] proof { lemma_pow2_64(); }
//@PROOF after=<<let from_buffer = >> let ghost pos1 = self.pos(); let ghost nb1 = self.bits_in_buffer as nat; let ghost b1 = self.buffer; let ghost V1 = bit_write.view(); let ghost n1 = n; proof { assert(V1 =~= V0 + sbits(true, bk, pos0, pos1 - pos0)); assert(from_buffer <= 64); }
//@PROOF after=<<let mut self_buffer_u64: u64 = self.buffer.cast();>> let ghost r64 = self_buffer_u64; proof { if n < 64 { lemma_one_shl64(n); } lemma_ct_le_from_buffer(bk, b1, nb1, pos1, from_buffer as nat, r64, b1 >> (from_buffer as {{BB}})); }
//@PROOF after=<<n -= from_buffer;>> proof { lemma_sbits_add(true, bk, pos0, pos1 - pos0, from_buffer as int); }
//@LOOP 1 invariant
//@LOOP 1     self.backend.data() == old(self).backend.data(),
//@LOOP 1     self.backend.limit() == old(self).backend.limit(), self.backend.len() == old(self).backend.len(),
//@LOOP 1     self.backend.cursor() <= self.backend.limit(),
//@LOOP 1     1 <= n <= n0,
//@LOOP 1     self.backend.cursor() * {{N}} == pos0 + (n0 - n),
//@LOOP 1     bit_write.view() == V0 + sbits(true, bk, pos0, n0 - n),
//@LOOP 1 decreases n,
//@LOOPEND 1 proof { let c = (self.backend.cursor() - 1) as nat; lemma_ct_word(true, bk, c, spec_to_le(bk(c)), spec_to_le(bk(c)) as u64); lemma_sbits_add(true, bk, pos0, (c * {{N}}) as int - pos0, {{N}}); }
//@EPILOGUE proof { let c = (self.backend.cursor() - 1) as nat; lemma_ct_le_final(bk, c, n as nat, new_word, new_word as u64, self.buffer); lemma_sbits_add(true, bk, pos0, (c * {{N}}) as int - pos0, n as int); }
//@REPLACE_RE[checks] [[\(match bit_write\.write_bits\(self_buffer_u64, from_buffer as usize\)]] => [[proof { lemma_ct_le_high_zero(b1, nb1, r64, pos1, bk); lemma_ct_clean(true, from_buffer as nat, n, r64, self_buffer_u64); } (match bit_write.write_bits(self_buffer_u64, from_buffer as usize)]]
//@REPLACE_RE[checks] [[\(match bit_write\.write_bits\( \(match self\.backend\.read_word\(\)]] => [[proof { lemma_word_clean(spec_to_le(bk(self.backend.cursor())), 0); } (match bit_write.write_bits( (match self.backend.read_word()]]
//@PROOF[checks] after=<<let mut new_word_u64: u64 = new_word.upcast();>> let ghost nw64 = new_word_u64; proof { if n < 64 { lemma_one_shl64(n); } }
//@REPLACE_RE[checks] [[\(match bit_write\.write_bits\(new_word_u64, n as usize\)]] => [[proof { lemma_word_clean(new_word, 0); assert forall|j: nat| {{N}} <= j < 64 implies !#[trigger] bit_of(nw64, j) by { lemma_up_bits(new_word, j); } lemma_ct_clean(true, n as nat, n, nw64, new_word_u64); } (match bit_write.write_bits(new_word_u64, n as usize)]]
//@END
}

} // verus!

fn main() {}
