// Unit C02/bitreader_unary: the real text of the unbuffered `BitReader::read_unary`
// (BE and LE impls, src/impls/bit_reader.rs), with an UNBOUNDED word loop (the
// Kani obligation c02.bitreader.read_unary.* is bounded by the ghost window).
// The backend word is u64 in the real code (no instantiation needed).
use vstd::prelude::*;
use vstd::arithmetic::power2::*;
use vstd::arithmetic::div_mod::*;
use vstd::bits::*;
use vstd::std_specs::bits::*;

verus! {

global size_of usize == 8;

/// bit `i` of `v`
pub open spec fn wbit(v: nat, i: nat) -> bool {
    (v / pow2(i)) % 2 == 1
}

pub struct BE;
pub struct LE;

pub uninterp spec fn spec_to_be(x: u64) -> u64;
pub uninterp spec fn spec_to_le(x: u64) -> u64;
pub assume_specification[ u64::to_be ](x: u64) -> (r: u64) ensures r == spec_to_be(x);
pub assume_specification[ u64::to_le ](x: u64) -> (r: u64) ensures r == spec_to_le(x);

/// WordRead + WordSeek of the real code, as one contract-carrying trait
pub trait WordReadSeek {
    type Error;
    spec fn word_at(&self, i: nat) -> u64;
    spec fn cursor(&self) -> nat;
    /// no backend delivers more than `limit` words (streams are shorter than 2^64 bits)
    spec fn limit(&self) -> nat;
    /// number of words of actual data: a strict backend fails only at or beyond it, a
    /// zero-extended one never fails
    spec fn len(&self) -> nat;
    fn read_word(&mut self) -> (r: Result<u64, Self::Error>)
        ensures
            forall|i: nat| final(self).word_at(i) == old(self).word_at(i),
            final(self).limit() == old(self).limit(),
            final(self).len() == old(self).len(),
            r is Ok ==> old(self).cursor() < old(self).limit() && r->Ok_0 == old(self).word_at(old(self).cursor()) && final(self).cursor() == old(self).cursor() + 1,
            r is Err ==> final(self).cursor() == old(self).cursor() && old(self).cursor() >= old(self).len(),
    ;
    fn set_word_pos(&mut self, word_index: u64) -> (r: Result<(), Self::Error>)
        ensures
            forall|i: nat| final(self).word_at(i) == old(self).word_at(i),
            final(self).limit() == old(self).limit(),
            final(self).len() == old(self).len(),
            r is Ok ==> final(self).cursor() == word_index,
            // a strict backend rejects only positions beyond the end of the data
            r is Err ==> word_index > old(self).len(),
    ;
}

//@FIELDS file=src/impls/bit_reader.rs item=/pub struct BitReader</ <<data: WR>> <<bit_index: u64>>
pub struct BitReader<E, WR: WordReadSeek> {
    data: WR,
    bit_index: u64,
    _marker: core::marker::PhantomData<E>,
}

/// stream bit i: BE = bit 63 - i%64 of to_be(word i/64); LE = bit i%64 of to_le(word i/64)
pub open spec fn sbit<WR: WordReadSeek>(le: bool, b: &WR, i: int) -> bool {
    if le { wbit(spec_to_le(b.word_at((i / 64) as nat)) as nat, (i % 64) as nat) }
    else { wbit(spec_to_be(b.word_at((i / 64) as nat)) as nat, (63 - i % 64) as nat) }
}

/// bit i of a word, with an int index (trigger-friendly form for the LE proofs)
pub open spec fn lowbit(w: u64, i: int) -> bool {
    wbit(w as nat, i as nat)
}

pub open spec fn rbit<WR: WordReadSeek>(le: bool, b: &WR, p: int, t: int) -> bool {
    sbit(le, b, p + t)
}

pub proof fn lemma_sbit_word<WR: WordReadSeek>(le: bool, b: &WR, c: nat, t: int)
    requires 0 <= t < 64,
    ensures sbit(le, b, c * 64 + t) == (if le { wbit(spec_to_le(b.word_at(c)) as nat, t as nat) } else { wbit(spec_to_be(b.word_at(c)) as nat, (63 - t) as nat) }),
{
    lemma_fundamental_div_mod_converse(c * 64 + t, 64, c as int, t);
}

pub proof fn lemma_wbit_bb(v: u64, i: nat)
    requires i < 64,
    ensures wbit(v as nat, i) == ((v >> (i as u64)) & 1 == 1),
{
    lemma_u64_shr_is_div(v, i as u64);
    let s = v >> (i as u64);
    assert(s & 1 == s % 2) by (bit_vector);
}

pub proof fn lemma_lz_bb(x: u64)
    ensures
        0 <= u64_leading_zeros(x) <= 64,
        x == 0 <==> u64_leading_zeros(x) == 64,
        x != 0 ==> wbit(x as nat, (63 - u64_leading_zeros(x)) as nat),
        forall|j: nat| 64 - u64_leading_zeros(x) <= j < 64 ==> !#[trigger] wbit(x as nat, j),
{
    axiom_u64_leading_zeros(x);
    let lz = u64_leading_zeros(x);
    if x != 0 {
        lemma_wbit_bb(x, (63 - lz) as nat);
        let s = x >> ((63 - lz) as u64);
        assert(s & 1 != 0 ==> s & 1 == 1) by (bit_vector);
    }
    assert forall|j: nat| 64 - lz <= j < 64 implies !#[trigger] wbit(x as nat, j) by {
        lemma_wbit_bb(x, j);
        assert((x >> (j as u64)) & 1 == 0);
    }
}

pub proof fn lemma_tz_bb(x: u64)
    ensures
        0 <= u64_trailing_zeros(x) <= 64,
        x == 0 <==> u64_trailing_zeros(x) == 64,
        x != 0 ==> wbit(x as nat, u64_trailing_zeros(x) as nat),
        forall|j: nat| j < u64_trailing_zeros(x) ==> !#[trigger] wbit(x as nat, j),
{
    axiom_u64_trailing_zeros(x);
    let tz = u64_trailing_zeros(x);
    if x != 0 {
        lemma_wbit_bb(x, tz as nat);
        let s = x >> (tz as u64);
        assert(s & 1 != 0 ==> s & 1 == 1) by (bit_vector);
    }
    assert forall|j: nat| j < tz implies !#[trigger] wbit(x as nat, j) by {
        lemma_wbit_bb(x, j);
        assert((x >> (j as u64)) & 1 == 0);
    }
}

pub proof fn lemma_shl_bits(b: u64, z: nat, j: nat)
    requires z < 64, j < 64,
    ensures wbit(((b << (z as u64)) as u64) as nat, j) == (j >= z && wbit(b as nat, (j - z) as nat)),
{
    let b2: u64 = b << (z as u64);
    lemma_wbit_bb(b2, j);
    let zz = z as u64;
    let jj = j as u64;
    if j >= z {
        let k = (j - z) as nat;
        lemma_wbit_bb(b, k);
        let kk = k as u64;
        assert(((b << zz) >> jj) & 1 == (b >> kk) & 1) by (bit_vector) requires jj == kk + zz, jj < 64;
    } else {
        assert(((b << zz) >> jj) & 1 == 0) by (bit_vector) requires jj < zz, zz < 64;
    }
}

pub proof fn lemma_shr_bits(b: u64, z: nat, j: nat)
    requires z < 64, j < 64,
    ensures wbit(((b >> (z as u64)) as u64) as nat, j) == (j + z < 64 && wbit(b as nat, j + z)),
{
    let b2: u64 = b >> (z as u64);
    lemma_wbit_bb(b2, j);
    let zz = z as u64;
    let jj = j as u64;
    if j + z < 64 {
        let k = j + z;
        lemma_wbit_bb(b, k);
        let kk = k as u64;
        assert(((b >> zz) >> jj) & 1 == (b >> kk) & 1) by (bit_vector) requires kk == jj + zz, kk < 64;
    } else {
        assert(((b >> zz) >> jj) & 1 == 0) by (bit_vector) requires jj + zz >= 64, jj < 64, zz < 64;
    }
}

impl<WR: WordReadSeek> BitReader<BE, WR> {
    spec fn inv(&self) -> bool {
        &&& self.data.limit() * 64 + 128 <= u64::MAX
        &&& self.bit_index <= self.data.limit() * 64
    }

//@FN file=src/impls/bit_reader.rs item=/> BitRead<BE> for BitReader<BE, WR, RP>/ name=read_unary
//@SIG fn read_unary_be(&mut self) -> (r: Result<u64, WR::Error>)
//@SPEC     requires old(self).inv(),
//@SPEC     ensures
//@SPEC         forall|i: nat| final(self).data.word_at(i) == old(self).data.word_at(i),
//@SPEC         r is Ok ==> {
//@SPEC             &&& final(self).inv()
//@SPEC             &&& final(self).bit_index == old(self).bit_index + r->Ok_0 + 1
//@SPEC             &&& forall|t: int| 0 <= t < r->Ok_0 ==> !#[trigger] rbit(false, &old(self).data, old(self).bit_index as int, t)
//@SPEC             &&& rbit(false, &old(self).data, old(self).bit_index as int, r->Ok_0 as int)
//@SPEC         },
//@SPEC         // C09: an error only if no one-bit remains before the end of the data
//@SPEC         r is Err ==> forall|t: int| 0 <= t && old(self).bit_index + t < old(self).data.len() * 64 ==> !#[trigger] rbit(false, &old(self).data, old(self).bit_index as int, t),
//@PROLOGUE let ghost pos0 = self.bit_index as int;
//@PROOF after=<<let mut word = self.data.read_word()?.to_be();>> let ghost w0 = word;
//@PROOF after=[[word <<= in_word_offset;]] proof { assert forall|i: int| 0 <= i < bits_in_word implies #[trigger] wbit(word as nat, (63 - i) as nat) == rbit(false, &old(self).data, pos0, total + i) by { lemma_shl_bits(w0, in_word_offset as nat, (63 - i) as nat); lemma_sbit_word(false, &old(self).data, (self.data.cursor() - 1) as nat, in_word_offset + i); lemma_fundamental_div_mod(pos0, 64); } }
//@LOOP 1 invariant
//@LOOP 1     forall|i: nat| self.data.word_at(i) == old(self).data.word_at(i),
//@LOOP 1     self.data.limit() == old(self).data.limit(), self.data.len() == old(self).data.len(),
//@LOOP 1     self.data.limit() * 64 + 128 <= u64::MAX,
//@LOOP 1     self.data.cursor() <= self.data.limit(),
//@LOOP 1     self.bit_index == pos0, pos0 == old(self).bit_index,
//@LOOP 1     1 <= bits_in_word <= 64,
//@LOOP 1     pos0 + total + bits_in_word == self.data.cursor() * 64,
//@LOOP 1     forall|t: int| 0 <= t < total ==> !#[trigger] rbit(false, &old(self).data, pos0, t),
//@LOOP 1     forall|i: int| 0 <= i < bits_in_word ==> #[trigger] wbit(word as nat, (63 - i) as nat) == rbit(false, &old(self).data, pos0, total + i),
//@LOOP 1 decreases self.data.limit() - self.data.cursor(),
//@PROOF after=<<let zeros = word.leading_zeros() as u64;>> proof { lemma_lz_bb(word); if zeros < bits_in_word { assert forall|t: int| 0 <= t < total + zeros implies !#[trigger] rbit(false, &old(self).data, pos0, t) by { if t >= total { assert(!wbit(word as nat, (63 - (t - total)) as nat)); } } assert(wbit(word as nat, (63 - zeros) as nat)); assert(rbit(false, &old(self).data, pos0, total + zeros)); } else { assert forall|t: int| 0 <= t < total + bits_in_word implies !#[trigger] rbit(false, &old(self).data, pos0, t) by { if t >= total { assert(!wbit(word as nat, (63 - (t - total)) as nat)); } } } }
//@PROOF after=<<word = self.data.read_word()?.to_be();>>#2 proof { assert forall|i: int| 0 <= i < 64 implies #[trigger] wbit(word as nat, (63 - i) as nat) == rbit(false, &old(self).data, pos0, total + i) by { lemma_sbit_word(false, &old(self).data, (self.data.cursor() - 1) as nat, i); } }
//@END
}

impl<WR: WordReadSeek> BitReader<LE, WR> {
    spec fn inv(&self) -> bool {
        &&& self.data.limit() * 64 + 128 <= u64::MAX
        &&& self.bit_index <= self.data.limit() * 64
    }

//@FN file=src/impls/bit_reader.rs item=/> BitRead<LE> for BitReader<LE, WR, RP>/ name=read_unary
//@SIG fn read_unary_le(&mut self) -> (r: Result<u64, WR::Error>)
//@SPEC     requires old(self).inv(),
//@SPEC     ensures
//@SPEC         forall|i: nat| final(self).data.word_at(i) == old(self).data.word_at(i),
//@SPEC         r is Ok ==> {
//@SPEC             &&& final(self).inv()
//@SPEC             &&& final(self).bit_index == old(self).bit_index + r->Ok_0 + 1
//@SPEC             &&& forall|t: int| 0 <= t < r->Ok_0 ==> !#[trigger] rbit(true, &old(self).data, old(self).bit_index as int, t)
//@SPEC             &&& rbit(true, &old(self).data, old(self).bit_index as int, r->Ok_0 as int)
//@SPEC         },
//@SPEC         // C09: an error only if no one-bit remains before the end of the data
//@SPEC         r is Err ==> forall|t: int| 0 <= t && old(self).bit_index + t < old(self).data.len() * 64 ==> !#[trigger] rbit(true, &old(self).data, old(self).bit_index as int, t),
//@PROLOGUE let ghost pos0 = self.bit_index as int;
//@PROOF after=<<let mut word = self.data.read_word()?.to_le();>> let ghost w0 = word;
//@PROOF after=[[word >>= in_word_offset;]] proof { assert forall|i: int| 0 <= i < bits_in_word implies #[trigger] lowbit(word, i) == rbit(true, &old(self).data, pos0, total + i) by { lemma_shr_bits(w0, in_word_offset as nat, i as nat); lemma_sbit_word(true, &old(self).data, (self.data.cursor() - 1) as nat, in_word_offset + i); lemma_fundamental_div_mod(pos0, 64); } }
//@LOOP 1 invariant
//@LOOP 1     forall|i: nat| self.data.word_at(i) == old(self).data.word_at(i),
//@LOOP 1     self.data.limit() == old(self).data.limit(), self.data.len() == old(self).data.len(),
//@LOOP 1     self.data.limit() * 64 + 128 <= u64::MAX,
//@LOOP 1     self.data.cursor() <= self.data.limit(),
//@LOOP 1     self.bit_index == pos0, pos0 == old(self).bit_index,
//@LOOP 1     1 <= bits_in_word <= 64,
//@LOOP 1     pos0 + total + bits_in_word == self.data.cursor() * 64,
//@LOOP 1     forall|t: int| 0 <= t < total ==> !#[trigger] rbit(true, &old(self).data, pos0, t),
//@LOOP 1     forall|i: int| 0 <= i < bits_in_word ==> #[trigger] lowbit(word, i) == rbit(true, &old(self).data, pos0, total + i),
//@LOOP 1 decreases self.data.limit() - self.data.cursor(),
//@PROOF after=<<let zeros = word.trailing_zeros() as u64;>> proof { lemma_tz_bb(word); if zeros < bits_in_word { assert forall|t: int| 0 <= t < total + zeros implies !#[trigger] rbit(true, &old(self).data, pos0, t) by { if t >= total { assert(!lowbit(word, t - total)); } } assert(lowbit(word, zeros as int)); assert(rbit(true, &old(self).data, pos0, total + zeros)); } else { assert forall|t: int| 0 <= t < total + bits_in_word implies !#[trigger] rbit(true, &old(self).data, pos0, t) by { if t >= total { assert(!lowbit(word, t - total)); } } } }
//@PROOF after=<<word = self.data.read_word()?.to_le();>>#2 proof { assert forall|i: int| 0 <= i < 64 implies #[trigger] lowbit(word, i) == rbit(true, &old(self).data, pos0, total + i) by { lemma_sbit_word(true, &old(self).data, (self.data.cursor() - 1) as nat, i); } }
//@END
}

} // verus!

fn main() {}
