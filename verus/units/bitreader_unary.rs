// Unit C02/bitreader_unary: the real text of the unbuffered `BitReader::read_unary`
// (BE and LE impls, src/impls/bit_reader.rs), with an UNBOUNDED word loop (the
// Kani obligation c02.bitreader.read_unary.* is bounded by the ghost window).
// The backend word is u64 in the real code (no instantiation needed).
use vstd::prelude::*;
use vstd::arithmetic::power2::*;
use vstd::arithmetic::div_mod::*;
use vstd::bits::*;
use vstd::std_specs::bits::*;

verus! {


global size_of usize == 8;

/// bit `i` of `v`
pub open spec fn wbit(v: nat, i: nat) -> bool {
    (v / pow2(i)) % 2 == 1
}

pub struct BE;
pub struct LE;

pub uninterp spec fn spec_to_be(x: u64) -> u64;
pub uninterp spec fn spec_to_le(x: u64) -> u64;
pub assume_specification[ u64::to_be ](x: u64) -> (r: u64) ensures r == spec_to_be(x);
pub assume_specification[ u64::to_le ](x: u64) -> (r: u64) ensures r == spec_to_le(x);

/// WordRead + WordSeek of the real code, as one contract-carrying trait
pub trait WordReadSeek {
    type Error;
    spec fn word_at(&self, i: nat) -> u64;
    spec fn cursor(&self) -> nat;
    /// no backend delivers more than `limit` words (streams are shorter than 2^64 bits)
    spec fn limit(&self) -> nat;
    /// number of words of actual data: a strict backend fails only at or beyond it, a
    /// zero-extended one never fails
    spec fn len(&self) -> nat;
    fn read_word(&mut self) -> (r: Result<u64, Self::Error>)
        ensures
            forall|i: nat| final(self).word_at(i) == old(self).word_at(i),
            final(self).limit() == old(self).limit(),
            final(self).len() == old(self).len(),
            r is Ok ==> old(self).cursor() < old(self).limit() && r->Ok_0 == old(self).word_at(old(self).cursor()) && final(self).cursor() == old(self).cursor() + 1,
            r is Err ==> final(self).cursor() == old(self).cursor() && old(self).cursor() >= old(self).len(),
    ;
    fn set_word_pos(&mut self, word_index: u64) -> (r: Result<(), Self::Error>)
        ensures
            forall|i: nat| final(self).word_at(i) == old(self).word_at(i),
            final(self).limit() == old(self).limit(),
            final(self).len() == old(self).len(),
            r is Ok ==> final(self).cursor() == word_index,
            // a strict backend rejects only positions beyond the end of the data
            r is Err ==> word_index > old(self).len(),
    ;
}

//@FIELDS file=src/impls/bit_reader.rs item=/pub struct BitReader</ <<data: WR>> <<bit_index: u64>>
pub struct BitReader<E, WR: WordReadSeek> {
    data: WR,
    bit_index: u64,
    _marker: core::marker::PhantomData<E>,
}

/// stream bit i: BE = bit 63 - i%64 of to_be(word i/64); LE = bit i%64 of to_le(word i/64)
pub open spec fn sbit<WR: WordReadSeek>(le: bool, b: &WR, i: int) -> bool {
    if le { wbit(spec_to_le(b.word_at((i / 64) as nat)) as nat, (i % 64) as nat) }
    else { wbit(spec_to_be(b.word_at((i / 64) as nat)) as nat, (63 - i % 64) as nat) }
}

/// bit i of a word, with an int index (trigger-friendly form for the LE proofs)
pub open spec fn lowbit(w: u64, i: int) -> bool {
    wbit(w as nat, i as nat)
}

pub open spec fn rbit<WR: WordReadSeek>(le: bool, b: &WR, p: int, t: int) -> bool {
    sbit(le, b, p + t)
}

pub proof fn lemma_sbit_word<WR: WordReadSeek>(le: bool, b: &WR, c: nat, t: int)
    requires 0 <= t < 64,
    ensures sbit(le, b, c * 64 + t) == (if le { wbit(spec_to_le(b.word_at(c)) as nat, t as nat) } else { wbit(spec_to_be(b.word_at(c)) as nat, (63 - t) as nat) }),
{
    lemma_fundamental_div_mod_converse(c * 64 + t, 64, c as int, t);
}

pub proof fn lemma_wbit_bb(v: u64, i: nat)
    requires i < 64,
    ensures wbit(v as nat, i) == ((v >> (i as u64)) & 1 == 1),
{
    lemma_u64_shr_is_div(v, i as u64);
    let s = v >> (i as u64);
    assert(s & 1 == s % 2) by (bit_vector);
}

pub proof fn lemma_lz_bb(x: u64)
    ensures
        0 <= u64_leading_zeros(x) <= 64,
        x == 0 <==> u64_leading_zeros(x) == 64,
        x != 0 ==> wbit(x as nat, (63 - u64_leading_zeros(x)) as nat),
        forall|j: nat| 64 - u64_leading_zeros(x) <= j < 64 ==> !#[trigger] wbit(x as nat, j),
{
    axiom_u64_leading_zeros(x);
    let lz = u64_leading_zeros(x);
    if x != 0 {
        lemma_wbit_bb(x, (63 - lz) as nat);
        let s = x >> ((63 - lz) as u64);
        assert(s & 1 != 0 ==> s & 1 == 1) by (bit_vector);
    }
    assert forall|j: nat| 64 - lz <= j < 64 implies !#[trigger] wbit(x as nat, j) by {
        lemma_wbit_bb(x, j);
        assert((x >> (j as u64)) & 1 == 0);
    }
}

pub proof fn lemma_tz_bb(x: u64)
    ensures
        0 <= u64_trailing_zeros(x) <= 64,
        x == 0 <==> u64_trailing_zeros(x) == 64,
        x != 0 ==> wbit(x as nat, u64_trailing_zeros(x) as nat),
        forall|j: nat| j < u64_trailing_zeros(x) ==> !#[trigger] wbit(x as nat, j),
{
    axiom_u64_trailing_zeros(x);
    let tz = u64_trailing_zeros(x);
    if x != 0 {
        lemma_wbit_bb(x, tz as nat);
        let s = x >> (tz as u64);
        assert(s & 1 != 0 ==> s & 1 == 1) by (bit_vector);
    }
    assert forall|j: nat| j < tz implies !#[trigger] wbit(x as nat, j) by {
        lemma_wbit_bb(x, j);
        assert((x >> (j as u64)) & 1 == 0);
    }
}

pub proof fn lemma_shl_bits(b: u64, z: nat, j: nat)
    requires z < 64, j < 64,
    ensures wbit(((b << (z as u64)) as u64) as nat, j) == (j >= z && wbit(b as nat, (j - z) as nat)),
{
    let b2: u64 = b << (z as u64);
    lemma_wbit_bb(b2, j);
    let zz = z as u64;
    let jj = j as u64;
    if j >= z {
        let k = (j - z) as nat;
        lemma_wbit_bb(b, k);
        let kk = k as u64;
        assert(((b << zz) >> jj) & 1 == (b >> kk) & 1) by (bit_vector) requires jj == kk + zz, jj < 64;
    } else {
        assert(((b << zz) >> jj) & 1 == 0) by (bit_vector) requires jj < zz, zz < 64;
    }
}

pub proof fn lemma_shr_bits(b: u64, z: nat, j: nat)
    requires z < 64, j < 64,
    ensures wbit(((b >> (z as u64)) as u64) as nat, j) == (j + z < 64 && wbit(b as nat, j + z)),
{
    let b2: u64 = b >> (z as u64);
    lemma_wbit_bb(b2, j);
    let zz = z as u64;
    let jj = j as u64;
    if j + z < 64 {
        let k = j + z;
        lemma_wbit_bb(b, k);
        let kk = k as u64;
        assert(((b >> zz) >> jj) & 1 == (b >> kk) & 1) by (bit_vector) requires kk == jj + zz, kk < 64;
    } else {
        assert(((b >> zz) >> jj) & 1 == 0) by (bit_vector) requires jj + zz >= 64, jj < 64, zz < 64;
    }
}

// ---------------------------------------------------------------------------
// read_bits (loop-free; at most two words)
// ---------------------------------------------------------------------------
pub open spec fn bit_of(v: u64, i: nat) -> bool { wbit(v as nat, i) }

pub open spec fn field(le: bool, v: u64, n: nat) -> Seq<bool> {
    Seq::new(n, |i: int| if le { bit_of(v, i as nat) } else { bit_of(v, (n - 1 - i) as nat) })
}

pub open spec fn sbits<WR: WordReadSeek>(le: bool, b: &WR, p: int, n: int) -> Seq<bool> {
    Seq::new(n as nat, |i: int| sbit(le, b, p + i))
}

/// a u64 all of whose bits at or above n are zero is below 2^n
pub proof fn lemma_small(v: u64, n: nat)
    requires n <= 64, forall|j: nat| n <= j < 64 ==> !#[trigger] bit_of(v, j),
    ensures (v as nat) < pow2(n),
    decreases 64 - n,
{
    lemma2_to64();
    lemma2_to64_rest();
    if n == 64 {
    } else {
        lemma_small(v, n + 1);
        lemma_pow2_unfold(n + 1);
        lemma_pow2_pos(n);
        let pn = pow2(n);
        assert(!bit_of(v, n));
        assert((v as nat) / pn < 2) by (nonlinear_arith) requires (v as nat) < 2 * pn, pn > 0;
        assert((v as nat) / pn == 0);
        assert((v as nat) < pn) by (nonlinear_arith) requires (v as nat) / pn == 0, pn > 0;
    }
}

/// bits of (w << t) >> s
pub proof fn lemma_shl_shr(w: u64, t: nat, s: nat, j: nat)
    requires t < 64, s < 64, j < 64,
    ensures bit_of((w << (t as u64)) >> (s as u64), j) == (j + s < 64 && j + s >= t && bit_of(w, (j + s - t) as nat)),
{
    let x: u64 = (w << (t as u64)) >> (s as u64);
    lemma_wbit_bb(x, j);
    let tt = t as u64;
    let ss = s as u64;
    let jj = j as u64;
    if j + s < 64 && j + s >= t {
        let k = (j + s - t) as nat;
        lemma_wbit_bb(w, k);
        let kk = k as u64;
        assert((((w << tt) >> ss) >> jj) & 1 == (w >> kk) & 1) by (bit_vector) requires kk + tt == jj + ss, jj + ss < 64;
    } else if j + s >= 64 {
        assert((((w << tt) >> ss) >> jj) & 1 == 0) by (bit_vector) requires jj + ss >= 64, jj < 64, ss < 64;
    } else {
        assert((((w << tt) >> ss) >> jj) & 1 == 0) by (bit_vector) requires jj + ss < tt, tt < 64;
    }
}

pub proof fn lemma_or64(x: u64, y: u64, j: nat)
    requires j < 64,
    ensures bit_of(x | y, j) == (bit_of(x, j) || bit_of(y, j)),
{
    lemma_wbit_bb(x | y, j);
    lemma_wbit_bb(x, j);
    lemma_wbit_bb(y, j);
    let jj = j as u64;
    assert((((x | y) >> jj) & 1 == 1) == (((x >> jj) & 1 == 1) || ((y >> jj) & 1 == 1))) by (bit_vector);
}

/// from the bit characterisation of the result to the contract's form
pub proof fn lemma_result<WR: WordReadSeek>(le: bool, b: &WR, pos: int, n: nat, r: u64)
    requires
        n <= 64,
        forall|j: nat| j < 64 ==> #[trigger] bit_of(r, j) == (j < n && sbit(le, b, if le { pos + j } else { pos + n - 1 - j })),
    ensures (r as nat) < pow2(n), field(le, r, n) =~= sbits(le, b, pos, n as int),
{
    lemma_small(r, n);
    assert forall|i: int| 0 <= i < n implies #[trigger] field(le, r, n)[i] == sbits(le, b, pos, n as int)[i] by {
        let j: nat = if le { i as nat } else { (n - 1 - i) as nat };
        assert(bit_of(r, j) == (j < n && sbit(le, b, if le { pos + j } else { pos + n - 1 - j })));
    }
}

/// BE, one word
pub proof fn lemma_rb_be_single<WR: WordReadSeek>(b: &WR, c: nat, off: nat, n: nat, w: u64, r: u64)
    requires 1 <= n, off + n <= 64, w == spec_to_be(b.word_at(c)), r == (w << (off as u64)) >> ((64 - n) as u64),
    ensures forall|j: nat| j < 64 ==> #[trigger] bit_of(r, j) == (j < n && sbit(false, b, c * 64 + off + n - 1 - j)),
{
    assert forall|j: nat| j < 64 implies #[trigger] bit_of(r, j) == (j < n && sbit(false, b, c * 64 + off + n - 1 - j)) by {
        lemma_shl_shr(w, off, (64 - n) as nat, j);
        if j < n { lemma_sbit_word(false, b, c, off + n - 1 - j); }
    }
}

/// BE, two words
pub proof fn lemma_rb_be_double<WR: WordReadSeek>(b: &WR, c: nat, off: nat, n: nat, hw: u64, lw: u64, r: u64)
    requires
        n <= 64, off < 64, off + n > 64, hw == spec_to_be(b.word_at(c)), lw == spec_to_be(b.word_at(c + 1)),
        r == ((hw << (off as u64)) >> ((64 - n) as u64)) | (lw >> ((128 - off - n) as u64)),
    ensures forall|j: nat| j < 64 ==> #[trigger] bit_of(r, j) == (j < n && sbit(false, b, c * 64 + off + n - 1 - j)),
{
    let hi: u64 = (hw << (off as u64)) >> ((64 - n) as u64);
    let lo: u64 = lw >> ((128 - off - n) as u64);
    assert forall|j: nat| j < 64 implies #[trigger] bit_of(r, j) == (j < n && sbit(false, b, c * 64 + off + n - 1 - j)) by {
        lemma_or64(hi, lo, j);
        lemma_shl_shr(hw, off, (64 - n) as nat, j);
        lemma_shl_shr(lw, 0, (128 - off - n) as nat, j);
        assert(lw << 0u64 == lw) by (bit_vector);
        if j < n {
            let i = (off + n - 1 - j) as int;   // index from the start of word c
            if i < 64 { lemma_sbit_word(false, b, c, i); } else { lemma_sbit_word(false, b, c + 1, i - 64); assert((c + 1) * 64 + (i - 64) == c * 64 + i); }
        }
    }
}

/// LE, one word
pub proof fn lemma_rb_le_single<WR: WordReadSeek>(b: &WR, c: nat, off: nat, n: nat, w: u64, r: u64)
    requires 1 <= n, off + n <= 64, w == spec_to_le(b.word_at(c)), r == (w << ((64 - n - off) as u64)) >> ((64 - n) as u64),
    ensures forall|j: nat| j < 64 ==> #[trigger] bit_of(r, j) == (j < n && sbit(true, b, (c * 64 + off + j) as int)),
{
    assert forall|j: nat| j < 64 implies #[trigger] bit_of(r, j) == (j < n && sbit(true, b, (c * 64 + off + j) as int)) by {
        lemma_shl_shr(w, (64 - n - off) as nat, (64 - n) as nat, j);
        if j < n { lemma_sbit_word(true, b, c, (off + j) as int); }
    }
}

/// LE, two words
pub proof fn lemma_rb_le_double<WR: WordReadSeek>(b: &WR, c: nat, off: nat, n: nat, lw: u64, hw: u64, r: u64)
    requires
        n <= 64, off < 64, off + n > 64, lw == spec_to_le(b.word_at(c)), hw == spec_to_le(b.word_at(c + 1)),
        r == ((hw << ((128 - off - n) as u64)) >> ((64 - n) as u64)) | (lw >> (off as u64)),
    ensures forall|j: nat| j < 64 ==> #[trigger] bit_of(r, j) == (j < n && sbit(true, b, (c * 64 + off + j) as int)),
{
    let hi: u64 = (hw << ((128 - off - n) as u64)) >> ((64 - n) as u64);
    let lo: u64 = lw >> (off as u64);
    assert forall|j: nat| j < 64 implies #[trigger] bit_of(r, j) == (j < n && sbit(true, b, (c * 64 + off + j) as int)) by {
        lemma_or64(hi, lo, j);
        lemma_shl_shr(hw, (128 - off - n) as nat, (64 - n) as nat, j);
        lemma_shl_shr(lw, 0, off, j);
        assert(lw << 0u64 == lw) by (bit_vector);
        if j < n {
            let i = (off + j) as int;
            if i < 64 { lemma_sbit_word(true, b, c, i); } else { lemma_sbit_word(true, b, c + 1, i - 64); assert((c + 1) * 64 + (i - 64) == c * 64 + i); }
        }
    }
}

impl<WR: WordReadSeek> BitReader<BE, WR> {
    spec fn inv(&self) -> bool {
        &&& self.data.limit() * 64 + 128 <= u64::MAX
        &&& self.bit_index <= self.data.limit() * 64
    }

//@FN file=src/impls/bit_reader.rs item=/> BitRead<BE> for BitReader<BE, WR, RP>/ name=read_unary
//@SIG fn read_unary_be(&mut self) -> (r: Result<u64, WR::Error>)
//@SPEC     requires old(self).inv(),
//@SPEC     ensures
//@SPEC         forall|i: nat| final(self).data.word_at(i) == old(self).data.word_at(i),
//@SPEC         r is Ok ==> {
//@SPEC             &&& final(self).inv()
//@SPEC             &&& final(self).bit_index == old(self).bit_index + r->Ok_0 + 1
//@SPEC             &&& forall|t: int| 0 <= t < r->Ok_0 ==> !#[trigger] rbit(false, &old(self).data, old(self).bit_index as int, t)
//@SPEC             &&& rbit(false, &old(self).data, old(self).bit_index as int, r->Ok_0 as int)
//@SPEC         },
//@SPEC         // C09: an error only if no one-bit remains before the end of the data
//@SPEC         r is Err ==> forall|t: int| 0 <= t && old(self).bit_index + t < old(self).data.len() * 64 ==> !#[trigger] rbit(false, &old(self).data, old(self).bit_index as int, t),
//@PROLOGUE let ghost pos0 = self.bit_index as int;
//@PROOF after=<<let mut word = self.data.read_word()?.to_be();>> let ghost w0 = word;
//@PROOF after=[[word <<= in_word_offset;]] proof { assert forall|i: int| 0 <= i < bits_in_word implies #[trigger] wbit(word as nat, (63 - i) as nat) == rbit(false, &old(self).data, pos0, total + i) by { lemma_shl_bits(w0, in_word_offset as nat, (63 - i) as nat); lemma_sbit_word(false, &old(self).data, (self.data.cursor() - 1) as nat, in_word_offset + i); lemma_fundamental_div_mod(pos0, 64); } }
//@LOOP 1 invariant
//@LOOP 1     forall|i: nat| self.data.word_at(i) == old(self).data.word_at(i),
//@LOOP 1     self.data.limit() == old(self).data.limit(), self.data.len() == old(self).data.len(),
//@LOOP 1     self.data.limit() * 64 + 128 <= u64::MAX,
//@LOOP 1     self.data.cursor() <= self.data.limit(),
//@LOOP 1     self.bit_index == pos0, pos0 == old(self).bit_index,
//@LOOP 1     1 <= bits_in_word <= 64,
//@LOOP 1     pos0 + total + bits_in_word == self.data.cursor() * 64,
//@LOOP 1     forall|t: int| 0 <= t < total ==> !#[trigger] rbit(false, &old(self).data, pos0, t),
//@LOOP 1     forall|i: int| 0 <= i < bits_in_word ==> #[trigger] wbit(word as nat, (63 - i) as nat) == rbit(false, &old(self).data, pos0, total + i),
//@LOOP 1 decreases self.data.limit() - self.data.cursor(),
//@PROOF after=<<let zeros = word.leading_zeros() as u64;>> proof { lemma_lz_bb(word); if zeros < bits_in_word { assert forall|t: int| 0 <= t < total + zeros implies !#[trigger] rbit(false, &old(self).data, pos0, t) by { if t >= total { assert(!wbit(word as nat, (63 - (t - total)) as nat)); } } assert(wbit(word as nat, (63 - zeros) as nat)); assert(rbit(false, &old(self).data, pos0, total + zeros)); } else { assert forall|t: int| 0 <= t < total + bits_in_word implies !#[trigger] rbit(false, &old(self).data, pos0, t) by { if t >= total { assert(!wbit(word as nat, (63 - (t - total)) as nat)); } } } }
//@PROOF after=<<word = self.data.read_word()?.to_be();>>#2 proof { assert forall|i: int| 0 <= i < 64 implies #[trigger] wbit(word as nat, (63 - i) as nat) == rbit(false, &old(self).data, pos0, total + i) by { lemma_sbit_word(false, &old(self).data, (self.data.cursor() - 1) as nat, i); } }
//@END
//@FN file=src/impls/bit_reader.rs item=/> BitRead<BE> for BitReader<BE, WR, RP>/ name=read_bits
//@SIG fn read_bits_be(&mut self, n_bits: usize) -> (r: Result<u64, WR::Error>)
//@SPEC     requires old(self).inv(), n_bits <= 64,
//@SPEC     ensures
//@SPEC         forall|i: nat| final(self).data.word_at(i) == old(self).data.word_at(i),
//@SPEC         r is Ok ==> {
//@SPEC             &&& final(self).bit_index == old(self).bit_index + n_bits
//@SPEC             &&& (r->Ok_0 as nat) < pow2(n_bits as nat)
//@SPEC             &&& field(false, r->Ok_0, n_bits as nat) == sbits(false, &old(self).data, old(self).bit_index as int, n_bits as int)
//@SPEC         },
//@PROLOGUE let ghost pos0 = self.bit_index as int; let ghost c = (self.bit_index / 64) as nat; proof { lemma_fundamental_div_mod(pos0, 64); lemma2_to64(); }
//@REPLACE [[(word << in_word_offset) >> (64 - n_bits)]] => [[let rr = (word << in_word_offset) >> (64 - n_bits); proof { lemma_rb_be_single(&old(self).data, c, in_word_offset as nat, n_bits as nat, word, rr); } rr]]
//@REPLACE [[((high_word << in_word_offset) >> shamt1) | (low_word >> shamt2)]] => [[let rr = ((high_word << in_word_offset) >> shamt1) | (low_word >> shamt2); proof { lemma_rb_be_double(&old(self).data, c, in_word_offset as nat, n_bits as nat, high_word, low_word, rr); } rr]]
//@EPILOGUE proof { lemma_result(false, &old(self).data, pos0, n_bits as nat, res); }
//@END
}

impl<WR: WordReadSeek> BitReader<LE, WR> {
    spec fn inv(&self) -> bool {
        &&& self.data.limit() * 64 + 128 <= u64::MAX
        &&& self.bit_index <= self.data.limit() * 64
    }

//@FN file=src/impls/bit_reader.rs item=/> BitRead<LE> for BitReader<LE, WR, RP>/ name=read_unary
//@SIG fn read_unary_le(&mut self) -> (r: Result<u64, WR::Error>)
//@SPEC     requires old(self).inv(),
//@SPEC     ensures
//@SPEC         forall|i: nat| final(self).data.word_at(i) == old(self).data.word_at(i),
//@SPEC         r is Ok ==> {
//@SPEC             &&& final(self).inv()
//@SPEC             &&& final(self).bit_index == old(self).bit_index + r->Ok_0 + 1
//@SPEC             &&& forall|t: int| 0 <= t < r->Ok_0 ==> !#[trigger] rbit(true, &old(self).data, old(self).bit_index as int, t)
//@SPEC             &&& rbit(true, &old(self).data, old(self).bit_index as int, r->Ok_0 as int)
//@SPEC         },
//@SPEC         // C09: an error only if no one-bit remains before the end of the data
//@SPEC         r is Err ==> forall|t: int| 0 <= t && old(self).bit_index + t < old(self).data.len() * 64 ==> !#[trigger] rbit(true, &old(self).data, old(self).bit_index as int, t),
//@PROLOGUE let ghost pos0 = self.bit_index as int;
//@PROOF after=<<let mut word = self.data.read_word()?.to_le();>> let ghost w0 = word;
//@PROOF after=[[word >>= in_word_offset;]] proof { assert forall|i: int| 0 <= i < bits_in_word implies #[trigger] lowbit(word, i) == rbit(true, &old(self).data, pos0, total + i) by { lemma_shr_bits(w0, in_word_offset as nat, i as nat); lemma_sbit_word(true, &old(self).data, (self.data.cursor() - 1) as nat, in_word_offset + i); lemma_fundamental_div_mod(pos0, 64); } }
//@LOOP 1 invariant
//@LOOP 1     forall|i: nat| self.data.word_at(i) == old(self).data.word_at(i),
//@LOOP 1     self.data.limit() == old(self).data.limit(), self.data.len() == old(self).data.len(),
//@LOOP 1     self.data.limit() * 64 + 128 <= u64::MAX,
//@LOOP 1     self.data.cursor() <= self.data.limit(),
//@LOOP 1     self.bit_index == pos0, pos0 == old(self).bit_index,
//@LOOP 1     1 <= bits_in_word <= 64,
//@LOOP 1     pos0 + total + bits_in_word == self.data.cursor() * 64,
//@LOOP 1     forall|t: int| 0 <= t < total ==> !#[trigger] rbit(true, &old(self).data, pos0, t),
//@LOOP 1     forall|i: int| 0 <= i < bits_in_word ==> #[trigger] lowbit(word, i) == rbit(true, &old(self).data, pos0, total + i),
//@LOOP 1 decreases self.data.limit() - self.data.cursor(),
//@PROOF after=<<let zeros = word.trailing_zeros() as u64;>> proof { lemma_tz_bb(word); if zeros < bits_in_word { assert forall|t: int| 0 <= t < total + zeros implies !#[trigger] rbit(true, &old(self).data, pos0, t) by { if t >= total { assert(!lowbit(word, t - total)); } } assert(lowbit(word, zeros as int)); assert(rbit(true, &old(self).data, pos0, total + zeros)); } else { assert forall|t: int| 0 <= t < total + bits_in_word implies !#[trigger] rbit(true, &old(self).data, pos0, t) by { if t >= total { assert(!lowbit(word, t - total)); } } } }
//@PROOF after=<<word = self.data.read_word()?.to_le();>>#2 proof { assert forall|i: int| 0 <= i < 64 implies #[trigger] lowbit(word, i) == rbit(true, &old(self).data, pos0, total + i) by { lemma_sbit_word(true, &old(self).data, (self.data.cursor() - 1) as nat, i); } }
//@END
//@FN file=src/impls/bit_reader.rs item=/> BitRead<LE> for BitReader<LE, WR, RP>/ name=read_bits
//@SIG fn read_bits_le(&mut self, n_bits: usize) -> (r: Result<u64, WR::Error>)
//@SPEC     requires old(self).inv(), n_bits <= 64,
//@SPEC     ensures
//@SPEC         forall|i: nat| final(self).data.word_at(i) == old(self).data.word_at(i),
//@SPEC         r is Ok ==> {
//@SPEC             &&& final(self).bit_index == old(self).bit_index + n_bits
//@SPEC             &&& (r->Ok_0 as nat) < pow2(n_bits as nat)
//@SPEC             &&& field(true, r->Ok_0, n_bits as nat) == sbits(true, &old(self).data, old(self).bit_index as int, n_bits as int)
//@SPEC         },
//@PROLOGUE let ghost pos0 = self.bit_index as int; let ghost c = (self.bit_index / 64) as nat; proof { lemma_fundamental_div_mod(pos0, 64); lemma2_to64(); }
//@REPLACE [[(word << (shamt - in_word_offset)) >> shamt]] => [[let rr = (word << (shamt - in_word_offset)) >> shamt; proof { lemma_rb_le_single(&old(self).data, c, in_word_offset as nat, n_bits as nat, word, rr); } rr]]
//@REPLACE [[((high_word << shamt1) >> shamt2) | (low_word >> in_word_offset)]] => [[let rr = ((high_word << shamt1) >> shamt2) | (low_word >> in_word_offset); proof { lemma_rb_le_double(&old(self).data, c, in_word_offset as nat, n_bits as nat, low_word, high_word, rr); } rr]]
//@EPILOGUE proof { lemma_result(true, &old(self).data, pos0, n_bits as nat, res); }
//@END
}

} // verus!

fn main() {}
