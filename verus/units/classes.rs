// Unit C16/classes: the real text of `<Codes as PartialEq>::eq`
// (src/dispatch/codes.rs): two codes that compare equal have identical codewords
// for EVERY value (unbounded unary / Rice / Golomb quotients; the Kani class
// obligations are bounded by the 256-bit model). Codes that are only compared
// with themselves (delta, omega, vbyte, pi, zeta_k) are uninterpreted here;
// zeta_1 = gamma is the lemma lemma_zeta1_is_gamma of the zeta unit.
use vstd::prelude::*;
use vstd::arithmetic::power2::*;
use vstd::arithmetic::div_mod::*;
use vstd::bits::*;

verus! {

//@INCLUDE prelude.inc

//@INCLUDE mb_spec.inc

//@INCLUDE rice.inc

//@ITEM file=src/dispatch/codes.rs item=/pub enum Codes/

pub open spec fn golomb_bits(le: bool, n: u64, b: u64) -> Seq<bool> {
    unary((n / b) as nat) + mb_bits(le, (n % b) as u64, b)
}
pub open spec fn gamma_bits(le: bool, n: u64) -> Seq<bool> {
    unary(log2f((n + 1) as u64)) + field(le, (n + 1) as u64, log2f((n + 1) as u64))
}
pub open spec fn eg_bits(le: bool, n: u64, k: nat) -> Seq<bool> {
    gamma_bits(le, quot(n, k) as u64) + field(le, n, k)
}
pub uninterp spec fn delta_bits(le: bool, n: u64) -> Seq<bool>;
pub uninterp spec fn omega_bits(le: bool, n: u64) -> Seq<bool>;
pub uninterp spec fn vbyte_bits(le: bool, big: bool, n: u64) -> Seq<bool>;
pub uninterp spec fn zeta_bits(le: bool, n: u64, k: nat) -> Seq<bool>;
pub uninterp spec fn pi_bits(le: bool, n: u64, k: nat) -> Seq<bool>;

/// zeta_1 = gamma (proved in the zeta unit: lemma_zeta1_is_gamma)
#[verifier::external_body]
pub proof fn axiom_zeta1_gamma(le: bool, n: u64)
    requires n < u64::MAX,
    ensures zeta_bits(le, n, 1) == gamma_bits(le, n),
{}

pub open spec fn code_bits(c: Codes, le: bool, n: u64) -> Seq<bool> {
    match c {
        Codes::Unary => unary(n as nat),
        Codes::Gamma => gamma_bits(le, n),
        Codes::Delta => delta_bits(le, n),
        Codes::Omega => omega_bits(le, n),
        Codes::VByteLe => vbyte_bits(le, false, n),
        Codes::VByteBe => vbyte_bits(le, true, n),
        Codes::Zeta { k } => zeta_bits(le, n, k as nat),
        Codes::Pi { k } => pi_bits(le, n, k as nat),
        Codes::Golomb { b } => golomb_bits(le, n, b as u64),
        Codes::ExpGolomb { k } => eg_bits(le, n, k as nat),
        Codes::Rice { log2_b } => rice_bits(le, n, log2_b as nat),
    }
}

pub proof fn lemma_rice0_unary(le: bool, n: u64)
    ensures rice_bits(le, n, 0) =~= unary(n as nat),
{
    lemma2_to64();
}

pub proof fn lemma_golomb1_unary(le: bool, n: u64)
    ensures golomb_bits(le, n, 1) =~= unary(n as nat),
{
    lemma2_to64();
    lemma_log2f(1, 0);
    assert(mb_limit(1) == 1);
    assert(mb_bits(le, 0, 1) =~= Seq::<bool>::empty());
}

/// Golomb with modulus 2^k is Rice with parameter k
pub proof fn lemma_golomb_pow2_rice(le: bool, n: u64, k: nat, b: u64)
    requires 1 <= k <= 62, b == pow2(k),
    ensures golomb_bits(le, n, b) =~= rice_bits(le, n, k),
{
    lemma2_to64();
    lemma2_to64_rest();
    lemma_pow2_strictly_increases(k, 63);
    lemma_pow2_unfold(k + 1);
    lemma_pow2_pos(k);
    lemma_log2f(b, k);
    assert(mb_limit(b) == b);
    let r = (n % b) as u64;
    lemma_mod_bound(n as int, b as int);
    assert(mb_bits(le, r, b) == field(le, r, k));
    lemma_field_low(le, n, k);
    assert((n / b) as nat == quot(n, k));
}

pub proof fn lemma_eg0_gamma(le: bool, n: u64)
    ensures eg_bits(le, n, 0) =~= gamma_bits(le, n),
{
    lemma2_to64();
    assert(quot(n, 0) == n);
}

impl Codes {
//@FN file=src/dispatch/codes.rs item=/impl PartialEq for Codes/ name=eq
//@SIG fn codes_eq(&self, other: &Self) -> (r: bool)
//@SPEC     ensures
//@SPEC         // codes that compare equal have identical codewords, for every value and both bit orders
//@SPEC         r ==> forall|le: bool, n: u64| n < u64::MAX ==> #[trigger] code_bits(*self, le, n) == code_bits(*other, le, n),
//@REPLACE_RE [[(?s)match \(self, other\) \{(.*)\}\s*$]] => [[let res = match (self, other) {\1}; proof { if res { assert forall|le: bool, n: u64| n < u64::MAX implies #[trigger] code_bits(*self, le, n) == code_bits(*other, le, n) by { lemma2_to64(); lemma_rice0_unary(le, n); lemma_golomb1_unary(le, n); lemma_golomb_pow2_rice(le, n, 1, 2); lemma_golomb_pow2_rice(le, n, 2, 4); lemma_golomb_pow2_rice(le, n, 3, 8); lemma_eg0_gamma(le, n); axiom_zeta1_gamma(le, n); } } } res]]
//@END
}

} // verus!

fn main() {}
