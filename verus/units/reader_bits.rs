// Unit C02/reader_bits: the real text of `BufBitReader::{read_bits, peek_bits,
// skip_bits_after_peek, refill}` and of `BitSeek::{bit_pos, set_bit_pos}`
// (BE and LE impls, src/impls/buf_bit_reader.rs) under the reader contract of
// DESIGN 2.1, for every Inv_R state (including more than one word buffered),
// every width and every stream shorter than 2^64 bits.
//
// Template parameters as in reader_unary.rs.
use vstd::prelude::*;
use vstd::arithmetic::power2::*;
use vstd::arithmetic::div_mod::*;
use vstd::bits::*;
use vstd::std_specs::bits::*;

verus! {

//@INCLUDE prelude.inc

//@INCLUDE reader_defs.inc

/// `CastableInto<u64> for BB<WR>` (truncating `as` cast), `UpcastableInto<u64> for WR::Word`,
/// `DowncastableInto<u64> for u64` of the real code (`common_traits`)
pub trait CastU64: Sized {
    spec fn cast_spec(self) -> u64;
    fn cast(self) -> (r: u64)
        ensures r == self.cast_spec();
}
impl CastU64 for {{BB}} {
    open spec fn cast_spec(self) -> u64 { self as u64 }
    fn cast(self) -> (r: u64) { self as u64 }
}
pub trait UpcastU64: Sized {
    spec fn up_spec(self) -> u64;
    fn upcast(self) -> (r: u64)
        ensures r == self.up_spec();
}
impl UpcastU64 for {{W}} {
    open spec fn up_spec(self) -> u64 { self as u64 }
    fn upcast(self) -> (r: u64) { self as u64 }
}
pub trait DowncastU64: Sized {
    spec fn down_spec(self) -> u64;
    fn downcast(self) -> (r: u64)
        ensures r == self.down_spec();
}
impl DowncastU64 for u64 {
    open spec fn down_spec(self) -> u64 { self }
    fn downcast(self) -> (r: u64) { self }
}

/// the n stream bits from position p
pub open spec fn sbits(le: bool, d: spec_fn(nat) -> {{W}}, p: int, n: int) -> Seq<bool> {
    Seq::new(n as nat, |i: int| sbit(le, d, p + i))
}

pub proof fn lemma_bit_of(v: u64, i: nat)
    requires i < 64,
    ensures bit_of(v, i) == ((v >> (i as u64)) & 1 == 1),
{
    lemma_u64_shr_is_div(v, i as u64);
    let s = v >> (i as u64);
    assert(s & 1 == s % 2) by (bit_vector);
}

/// a u64 all of whose bits at or above n are zero is below 2^n
pub proof fn lemma_small(v: u64, n: nat)
    requires n <= 64, forall|j: nat| n <= j < 64 ==> !#[trigger] bit_of(v, j),
    ensures (v as nat) < pow2(n),
    decreases 64 - n,
{
    lemma2_to64();
    lemma2_to64_rest();
    if n == 64 {
    } else {
        // clear bit n: v < 2^(n+1) by induction, and bit n is zero
        lemma_small(v, n + 1);
        lemma_pow2_unfold(n + 1);
        lemma_pow2_pos(n);
        let pn = pow2(n);
        assert(!bit_of(v, n));
        // v / 2^n is 0 or 1 (v < 2^(n+1)); it is even, hence 0
        assert((v as nat) / pn < 2) by (nonlinear_arith) requires (v as nat) < 2 * pn, pn > 0;
        assert((v as nat) / pn == 0);
        assert((v as nat) < pn) by (nonlinear_arith) requires (v as nat) / pn == 0, pn > 0;
    }
}

/// bits of the low 64 bits of a buffer value
pub proof fn lemma_cast64_bits(x: {{BB}}, j: nat)
    requires j < 64,
    ensures bit_of(x as u64, j) == (j < {{M}} && wbit(x as nat, j)),
{
    if j < {{M}} {
        lemma_wbit_bb(x, j);
        lemma_bit_of(x as u64, j);
        let jj = j as {{BB}};
        let j6 = j as u64;
        assert((((x as u64) >> j6) & 1 == 1) == (((x >> jj) & 1) == 1)) by (bit_vector) requires jj == j6 as {{BB}}, j6 < 64, jj < {{M}};
    } else {
        lemma_pow2_pos(j);
        lemma2_to64();
        lemma2_to64_rest();
        lemma_pow2_strictly_increases({{M}}, j + 1);
        assert(pow2(j + 1) == 2 * pow2(j)) by { lemma_pow2_unfold(j + 1); }
        assert((x as nat) < pow2({{M}}));
        assert(((x as u64) as nat) / pow2(j) == 0) by (nonlinear_arith) requires ((x as u64) as nat) < pow2(j), pow2(j) > 0;
    }
}

/// bits of a word seen as a u64
pub proof fn lemma_up_bits(w: {{W}}, j: nat)
    requires j < 64,
    ensures bit_of(w as u64, j) == (j < {{N}} && wbit(w as nat, j)),
{
    if j < {{N}} {
        lemma_wbit_w(w, j);
        lemma_bit_of(w as u64, j);
        let jj = j as {{W}};
        let j6 = j as u64;
        assert((((w as u64) >> j6) & 1 == 1) == (((w >> jj) & 1) == 1)) by (bit_vector) requires jj == j6 as {{W}}, j6 < 64, jj < {{N}};
    } else {
        lemma_pow2_pos(j);
        lemma2_to64();
        lemma2_to64_rest();
        if {{N}} < j { lemma_pow2_strictly_increases({{N}}, j); }
        assert(((w as u64) as nat) / pow2(j) == 0) by (nonlinear_arith) requires ((w as u64) as nat) < pow2(j), pow2(j) > 0;
    }
}

pub proof fn lemma_shr64_bits(v: u64, z: nat, j: nat)
    requires z < 64, j < 64,
    ensures bit_of(v >> (z as u64), j) == (j + z < 64 && bit_of(v, j + z)),
{
    lemma_bit_of(v >> (z as u64), j);
    let zz = z as u64;
    let jj = j as u64;
    if j + z < 64 {
        lemma_bit_of(v, j + z);
        let kk = (j + z) as u64;
        assert(((v >> zz) >> jj) & 1 == (v >> kk) & 1) by (bit_vector) requires kk == jj + zz, kk < 64;
    } else {
        assert(((v >> zz) >> jj) & 1 == 0) by (bit_vector) requires jj + zz >= 64, jj < 64, zz < 64;
    }
}

/// bits of (r << k) | w (u64, k < 64)
pub proof fn lemma_concat64(r: u64, k: nat, w: u64, j: nat)
    requires k < 64, j < 64,
    ensures bit_of((r << (k as u64)) | w, j) == (bit_of(w, j) || (j >= k && bit_of(r, (j - k) as nat))),
{
    let x: u64 = (r << (k as u64)) | w;
    lemma_bit_of(x, j);
    lemma_bit_of(w, j);
    let kk = k as u64;
    let jj = j as u64;
    if j >= k {
        lemma_bit_of(r, (j - k) as nat);
        let dd = (j - k) as u64;
        assert(((((r << kk) | w) >> jj) & 1 == 1) == (((w >> jj) & 1 == 1) || ((r >> dd) & 1 == 1))) by (bit_vector) requires jj == dd + kk, jj < 64;
    } else {
        assert(((((r << kk) | w) >> jj) & 1 == 1) == ((w >> jj) & 1 == 1)) by (bit_vector) requires jj < kk, kk < 64;
    }
}

/// bits of ((r << (k-1)) << 1) | w (u64, 1 <= k <= 64)
pub proof fn lemma_concat64_1(r: u64, k: nat, w: u64, j: nat)
    requires 1 <= k <= 64, j < 64,
    ensures bit_of(((r << ((k - 1) as u64)) << 1) | w, j) == (bit_of(w, j) || (j >= k && bit_of(r, (j - k) as nat))),
{
    let x: u64 = ((r << ((k - 1) as u64)) << 1) | w;
    lemma_bit_of(x, j);
    lemma_bit_of(w, j);
    let kk = (k - 1) as u64;
    let jj = j as u64;
    if j >= k {
        lemma_bit_of(r, (j - k) as nat);
        let dd = (j - k) as u64;
        assert((((((r << kk) << 1) | w) >> jj) & 1 == 1) == (((w >> jj) & 1 == 1) || ((r >> dd) & 1 == 1))) by (bit_vector) requires jj == dd + kk + 1, jj < 64;
    } else {
        assert((((((r << kk) << 1) | w) >> jj) & 1 == 1) == ((w >> jj) & 1 == 1)) by (bit_vector) requires jj <= kk, kk < 64;
    }
}

// ---------------------------------------------------------------- BE lemmas
/// the n most significant buffered bits as a number: (buffer >> (M - n - 1) >> 1) as u64
pub proof fn lemma_be_top(d: spec_fn(nat) -> {{W}}, b: {{BB}}, nb: nat, pos: int, n: nat, r: u64)
    requires
        nb < {{M}}, n <= nb, n <= 64,
        r == ((b >> (({{M}} - n - 1) as {{BB}})) >> 1) as u64,
        forall|j: nat| j < {{M}} ==> #[trigger] wbit(b as nat, j) == (j >= {{M}} - nb && sbit(false, d, pos + {{M}} - 1 - j)),
    ensures
        (r as nat) < pow2(n),
        field(false, r, n) =~= sbits(false, d, pos, n as int),
        forall|j: nat| j < 64 ==> #[trigger] bit_of(r, j) == (j < n && sbit(false, d, pos + n - 1 - j)),
{
    let x: {{BB}} = (b >> (({{M}} - n - 1) as {{BB}})) >> 1;
    assert forall|j: nat| j < 64 implies #[trigger] bit_of(r, j) == (j < n && sbit(false, d, pos + n - 1 - j)) by {
        lemma_cast64_bits(x, j);
        if j < {{M}} {
            lemma_shr1_bits(b, ({{M}} - n - 1) as nat, j);
            if j + {{M}} - n < {{M}} {
                assert(wbit(b as nat, (j + {{M}} - n) as nat) == ((j + {{M}} - n) >= {{M}} - nb && sbit(false, d, pos + {{M}} - 1 - (j + {{M}} - n))));
            }
        }
    }
    lemma_small(r, n);
}

/// the buffer after consuming n <= nb bits: buffer << n
pub proof fn lemma_be_consume(d: spec_fn(nat) -> {{W}}, b: {{BB}}, nb: nat, pos: int, n: nat, b2: {{BB}})
    requires
        nb < {{M}}, n <= nb,
        b2 == b << (n as {{BB}}),
        forall|j: nat| j < {{M}} ==> #[trigger] wbit(b as nat, j) == (j >= {{M}} - nb && sbit(false, d, pos + {{M}} - 1 - j)),
    ensures
        forall|j: nat| j < {{M}} ==> #[trigger] wbit(b2 as nat, j) == (j >= {{M}} - (nb - n) && sbit(false, d, pos + n + {{M}} - 1 - j)),
{
    assert forall|j: nat| j < {{M}} implies #[trigger] wbit(b2 as nat, j) == (j >= {{M}} - (nb - n) && sbit(false, d, pos + n + {{M}} - 1 - j)) by {
        lemma_shl_bits(b, n, j);
        if j >= n {
            assert(wbit(b as nat, (j - n) as nat) == ((j - n) >= {{M}} - nb && sbit(false, d, pos + {{M}} - 1 - (j - n))));
        }
    }
}

/// appending a whole word to the accumulated result
pub proof fn lemma_be_acc_word(d: spec_fn(nat) -> {{W}}, pos0: int, done: nat, r: u64, c: nat, wv: {{W}}, r2: u64)
    requires
        done + {{N}} <= 64, {{N}} < 64, pos0 + done == c * {{N}},
        wv == spec_to_be(d(c)), r2 == (r << ({{N}} as u64)) | (wv as u64),
        forall|j: nat| j < 64 ==> #[trigger] bit_of(r, j) == (j < done && sbit(false, d, pos0 + done - 1 - j)),
    ensures
        forall|j: nat| j < 64 ==> #[trigger] bit_of(r2, j) == (j < done + {{N}} && sbit(false, d, pos0 + done + {{N}} - 1 - j)),
{
    assert forall|j: nat| j < 64 implies #[trigger] bit_of(r2, j) == (j < done + {{N}} && sbit(false, d, pos0 + done + {{N}} - 1 - j)) by {
        lemma_concat64(r, {{N}}, wv as u64, j);
        lemma_up_bits(wv, j);
        if j < {{N}} {
            lemma_sbit_word(false, d, c, {{N}} - 1 - j);
        } else {
            assert(bit_of(r, (j - {{N}}) as nat) == ((j - {{N}}) < done && sbit(false, d, pos0 + done - 1 - (j - {{N}}))));
        }
    }
}

/// the last, partial word: n1 bits appended to the result, the rest kept in the buffer
pub proof fn lemma_be_acc_final(d: spec_fn(nat) -> {{W}}, pos0: int, done: nat, r: u64, c: nat, nw: {{W}}, n1: nat, fb: u64, r2: u64, b3: {{BB}})
    requires
        1 <= n1 <= {{N}}, done + n1 <= 64, pos0 + done == c * {{N}},
        nw == spec_to_be(d(c)),
        fb == (nw as u64) >> (({{N}} - n1) as u64),
        r2 == ((r << ((n1 - 1) as u64)) << 1) | fb,
        b3 == ((nw as {{BB}}) << (({{M}} - ({{N}} - n1) - 1) as {{BB}})) << 1,
        forall|j: nat| j < 64 ==> #[trigger] bit_of(r, j) == (j < done && sbit(false, d, pos0 + done - 1 - j)),
    ensures
        forall|j: nat| j < 64 ==> #[trigger] bit_of(r2, j) == (j < done + n1 && sbit(false, d, pos0 + done + n1 - 1 - j)),
        forall|j: nat| j < {{M}} ==> #[trigger] wbit(b3 as nat, j) == (j >= {{M}} - ({{N}} - n1) && sbit(false, d, pos0 + done + n1 + {{M}} - 1 - j)),
{
    let nbf = ({{N}} - n1) as nat;
    assert forall|j: nat| j < 64 implies #[trigger] bit_of(r2, j) == (j < done + n1 && sbit(false, d, pos0 + done + n1 - 1 - j)) by {
        lemma_concat64_1(r, n1, fb, j);
        lemma_shr64_bits(nw as u64, nbf, j);
        if j + nbf < 64 { lemma_up_bits(nw, j + nbf); }
        if j < n1 {
            lemma_sbit_word(false, d, c, n1 - 1 - j);
        } else {
            assert(bit_of(r, (j - n1) as nat) == ((j - n1) < done && sbit(false, d, pos0 + done - 1 - (j - n1))));
        }
    }
    assert forall|j: nat| j < {{M}} implies #[trigger] wbit(b3 as nat, j) == (j >= {{M}} - nbf && sbit(false, d, pos0 + done + n1 + {{M}} - 1 - j)) by {
        lemma_shl1_bits(nw as {{BB}}, ({{M}} - nbf - 1) as nat, j);
        if j >= {{M}} - nbf {
            lemma_upcast_bits(nw, (j - ({{M}} - nbf)) as nat);
            lemma_sbit_word(false, d, c, n1 + {{M}} - 1 - j);
        }
    }
}

/// from the bit characterisation of the result to the contract's form
pub proof fn lemma_be_result(d: spec_fn(nat) -> {{W}}, pos0: int, n: nat, r: u64)
    requires
        n <= 64,
        forall|j: nat| j < 64 ==> #[trigger] bit_of(r, j) == (j < n && sbit(false, d, pos0 + n - 1 - j)),
    ensures (r as nat) < pow2(n), field(false, r, n) =~= sbits(false, d, pos0, n as int),
{
    lemma_small(r, n);
    assert forall|i: int| 0 <= i < n implies #[trigger] field(false, r, n)[i] == sbits(false, d, pos0, n as int)[i] by {
        assert(bit_of(r, (n - 1 - i) as nat) == ((n - 1 - i) < n && sbit(false, d, pos0 + n - 1 - (n - 1 - i))));
    }
}

/// BE refill: a whole word ORed in below the buffered bits
pub proof fn lemma_be_refill(d: spec_fn(nat) -> {{W}}, b: {{BB}}, nb: nat, pos: int, c: nat, nw: {{W}}, b2: {{BB}})
    requires
        nb <= {{N}}, pos + nb == c * {{N}}, nw == spec_to_be(d(c)),
        b2 == b | ((nw as {{BB}}) << (({{M}} - (nb + {{N}})) as {{BB}})),
        forall|j: nat| j < {{M}} ==> #[trigger] wbit(b as nat, j) == (j >= {{M}} - nb && sbit(false, d, pos + {{M}} - 1 - j)),
    ensures
        forall|j: nat| j < {{M}} ==> #[trigger] wbit(b2 as nat, j) == (j >= {{M}} - (nb + {{N}}) && sbit(false, d, pos + {{M}} - 1 - j)),
{
    let sh = ({{M}} - (nb + {{N}})) as nat;
    let y: {{BB}} = (nw as {{BB}}) << (sh as {{BB}});
    assert forall|j: nat| j < {{M}} implies #[trigger] wbit(b2 as nat, j) == (j >= {{M}} - (nb + {{N}}) && sbit(false, d, pos + {{M}} - 1 - j)) by {
        lemma_or_bits_bb(b, y, j);
        lemma_shl_bits(nw as {{BB}}, sh, j);
        if j >= sh {
            lemma_upcast_bits(nw, (j - sh) as nat);
            if j - sh < {{N}} { lemma_sbit_word(false, d, c, {{N}} - 1 - (j - sh)); }
        }
    }
}

/// BE peek: buffer >> (M - n)
pub proof fn lemma_be_peek(d: spec_fn(nat) -> {{W}}, b: {{BB}}, nb: nat, pos: int, n: nat, v: {{BB}})
    requires
        nb < {{M}}, 1 <= n <= nb, v == b >> (({{M}} - n) as {{BB}}),
        forall|j: nat| j < {{M}} ==> #[trigger] wbit(b as nat, j) == (j >= {{M}} - nb && sbit(false, d, pos + {{M}} - 1 - j)),
    ensures
        forall|j: nat| j < {{M}} ==> #[trigger] wbit(v as nat, j) == (j < n && sbit(false, d, pos + n - 1 - j)),
{
    assert forall|j: nat| j < {{M}} implies #[trigger] wbit(v as nat, j) == (j < n && sbit(false, d, pos + n - 1 - j)) by {
        lemma_shr_bits(b, ({{M}} - n) as nat, j);
        if j + {{M}} - n < {{M}} {
            assert(wbit(b as nat, (j + {{M}} - n) as nat) == ((j + {{M}} - n) >= {{M}} - nb && sbit(false, d, pos + {{M}} - 1 - (j + {{M}} - n))));
        }
    }
}

pub proof fn lemma_or_bits_bb(x: {{BB}}, y: {{BB}}, j: nat)
    requires j < {{M}},
    ensures wbit((x | y) as nat, j) == (wbit(x as nat, j) || wbit(y as nat, j)),
{
    lemma_wbit_bb(x | y, j);
    lemma_wbit_bb(x, j);
    lemma_wbit_bb(y, j);
    let jj = j as {{BB}};
    assert((((x | y) >> jj) & 1 == 1) == (((x >> jj) & 1 == 1) || ((y >> jj) & 1 == 1))) by (bit_vector);
}

/// set_bit_pos, BE: the bits of the word after the offset
pub proof fn lemma_be_seek(d: spec_fn(nat) -> {{W}}, c: nat, off: nat, nw: {{W}}, b2: {{BB}})
    requires 1 <= off < {{N}}, nw == spec_to_be(d(c)), b2 == (nw as {{BB}}) << (({{M}} - ({{N}} - off)) as {{BB}}),
    ensures forall|j: nat| j < {{M}} ==> #[trigger] wbit(b2 as nat, j) == (j >= {{M}} - ({{N}} - off) && sbit(false, d, c * {{N}} + off + {{M}} - 1 - j)),
{
    let nb = ({{N}} - off) as nat;
    assert forall|j: nat| j < {{M}} implies #[trigger] wbit(b2 as nat, j) == (j >= {{M}} - nb && sbit(false, d, c * {{N}} + off + {{M}} - 1 - j)) by {
        lemma_shl_bits(nw as {{BB}}, ({{M}} - nb) as nat, j);
        if j >= {{M}} - nb {
            lemma_upcast_bits(nw, (j - ({{M}} - nb)) as nat);
            lemma_sbit_word(false, d, c, off + {{M}} - 1 - j);
        }
    }
}

pub proof fn lemma_zero_buffer(j: nat) ensures !wbit(0, j) { lemma_zero_bits(j); }

// ---------------------------------------------------------------- BE
impl<WR: WordRead> BufBitReader<BE, WR> {
    spec fn pos(&self) -> int { self.backend.cursor() * {{N}} - self.bits_in_buffer }
    spec fn inv(&self) -> bool {
        &&& self.bits_in_buffer < {{M}}
        &&& self.pos() >= 0
        &&& self.backend.limit() * {{N}} + {{M}} <= u64::MAX
        &&& self.backend.cursor() <= self.backend.limit()
        &&& forall|j: nat| j < {{M}} ==> #[trigger] wbit(self.buffer as nat, j) == (j >= {{M}} - self.bits_in_buffer && sbit(false, self.backend.data(), self.pos() + {{M}} - 1 - j))
    }

//@FN file=src/impls/buf_bit_reader.rs item=/impl<WR: WordRead, RP: ReadParams> BitRead<BE> for BufBitReader<BE, WR, RP>/ name=read_bits
//@ATTR #[verifier::loop_isolation(false)]
//@SIG fn read_bits_be(&mut self, mut n_bits: usize) -> (r: Result<u64, WR::Error>)
//@SPEC     requires old(self).inv(), n_bits <= 64,
//@SPEC     ensures
//@SPEC         final(self).backend.data() == old(self).backend.data(),
//@SPEC         final(self).backend.limit() == old(self).backend.limit(), final(self).backend.len() == old(self).backend.len(),
//@SPEC         r is Ok ==> {
//@SPEC             &&& final(self).inv()
//@SPEC             &&& final(self).pos() == old(self).pos() + n_bits
//@SPEC             &&& (r->Ok_0 as nat) < pow2(n_bits as nat)
//@SPEC             &&& field(false, r->Ok_0, n_bits as nat) == sbits(false, old(self).backend.data(), old(self).pos(), n_bits as int)
//@SPEC             &&& old(self).bits_in_buffer >= n_bits ==> final(self).bits_in_buffer == old(self).bits_in_buffer - n_bits
//@SPEC         },
//@SPEC         // C09: an error only if a bit beyond the end of the data is needed
//@SPEC         r is Err ==> old(self).pos() + n_bits > old(self).backend.len() * {{N}},
//@INST <<UpcastableInto::<BB<WR>>::upcast(new_word)>> => <<(new_word as {{BB}})>>
//@INST <<BB::<WR>::BITS>> => <<{{M}}usize>>
//@INST <<WR::Word::BITS>> => <<{{N}}usize>>
//@PROLOGUE let ghost n = n_bits as nat; let ghost pos0 = self.pos(); let ghost nb0 = self.bits_in_buffer as nat; let ghost b0 = self.buffer; let ghost d = self.backend.data();
//@PROOF after=[[let result: u64 = (self.buffer >> ({{M}}usize - n_bits - 1) >> 1_u32).cast();]] proof { lemma_be_top(d, b0, nb0, pos0, n, result); }
//@PROOF after=<<self.buffer <<= n_bits;>> proof { lemma_be_consume(d, b0, nb0, pos0, n, self.buffer); }
//@PROOF after=[[(self.buffer >> ({{M}}usize - 1 - self.bits_in_buffer) >> 1_u8).cast();]] proof { lemma_be_top(d, b0, nb0, pos0, nb0, result); }
//@LOOP 1 invariant
//@LOOP 1     self.backend.data() == d, self.backend.limit() == old(self).backend.limit(), self.backend.len() == old(self).backend.len(),
//@LOOP 1     self.backend.cursor() <= self.backend.limit(),
//@LOOP 1     1 <= n_bits, n_bits <= n, self.backend.cursor() * {{N}} == pos0 + (n - n_bits),
//@LOOP 1     forall|j: nat| j < 64 ==> #[trigger] bit_of(result, j) == (j < n - n_bits && sbit(false, d, pos0 + (n - n_bits) - 1 - j)),
//@LOOP 1 decreases n_bits,
//@REPLACE [[result = (result << {{N}}usize) | new_word;]] => [[let ghost r_old = result; result = (result << {{N}}usize) | new_word; proof { let c = (self.backend.cursor() - 1) as nat; lemma_be_acc_word(d, pos0, (n - n_bits) as nat, r_old, c, spec_to_be(d(c)), result); }]]
//@REPLACE [[result = (result << (n_bits - 1) << 1) | final_bits;]] => [[let ghost r_old = result; result = (result << (n_bits - 1) << 1) | final_bits;]]
//@EPILOGUE proof { let c = (self.backend.cursor() - 1) as nat; lemma_be_acc_final(d, pos0, (n - n_bits) as nat, r_old, c, new_word, n_bits as nat, final_bits, result, self.buffer); lemma_be_result(d, pos0, n, result); }
//@END
//@FN file=src/impls/buf_bit_reader.rs item=/impl<WR: WordRead, RP: ReadParams> BufBitReader<BE, WR, RP>/ name=refill
//@SIG fn refill_be(&mut self) -> (r: Result<(), WR::Error>)
//@SPEC     requires old(self).inv(), old(self).bits_in_buffer < {{N}},
//@SPEC     ensures
//@SPEC         final(self).backend.data() == old(self).backend.data(),
//@SPEC         final(self).backend.limit() == old(self).backend.limit(), final(self).backend.len() == old(self).backend.len(),
//@SPEC         r is Ok ==> final(self).inv() && final(self).pos() == old(self).pos() && final(self).bits_in_buffer == old(self).bits_in_buffer + {{N}},
//@SPEC         // C09: a failed refill leaves the reader unchanged and happens only at the end of the data
//@SPEC         r is Err ==> final(self).buffer == old(self).buffer && final(self).bits_in_buffer == old(self).bits_in_buffer
//@SPEC             && final(self).backend.cursor() == old(self).backend.cursor() && old(self).backend.cursor() >= old(self).backend.len(),
//@INST <<self.backend.read_word()?.to_be().upcast()>> => <<(self.backend.read_word()?.to_be() as {{BB}})>>
//@INST <<BB<WR>>> => <<{{BB}}>>
//@INST <<BB::<WR>::BITS>> => <<{{M}}usize>>
//@INST <<WR::Word::BITS>> => <<{{N}}usize>>
//@PROLOGUE let ghost pos0 = self.pos(); let ghost nb0 = self.bits_in_buffer as nat; let ghost b0 = self.buffer; let ghost d = self.backend.data(); let ghost c = self.backend.cursor();
//@EPILOGUE proof { lemma_be_refill(d, b0, nb0, pos0, c, spec_to_be(d(c)), self.buffer); }
//@END

//@FN file=src/impls/buf_bit_reader.rs item=/impl<WR: WordRead, RP: ReadParams> BitRead<BE> for BufBitReader<BE, WR, RP>/ name=peek_bits
//@SIG fn peek_bits_be(&mut self, n_bits: usize) -> (r: Result<{{BB}}, WR::Error>)
//@SPEC     requires old(self).inv(), 1 <= n_bits <= {{N}},
//@SPEC     ensures
//@SPEC         final(self).backend.data() == old(self).backend.data(),
//@SPEC         final(self).backend.limit() == old(self).backend.limit(), final(self).backend.len() == old(self).backend.len(),
//@SPEC         r is Ok ==> {
//@SPEC             &&& final(self).inv() && final(self).pos() == old(self).pos() && final(self).bits_in_buffer >= n_bits
//@SPEC             &&& forall|j: nat| j < {{M}} ==> #[trigger] wbit(r->Ok_0 as nat, j) == (j < n_bits && sbit(false, old(self).backend.data(), old(self).pos() + n_bits - 1 - j))
//@SPEC         },
//@SPEC         r is Err ==> final(self).buffer == old(self).buffer && final(self).bits_in_buffer == old(self).bits_in_buffer
//@SPEC             && final(self).backend.cursor() == old(self).backend.cursor() && old(self).pos() + n_bits > old(self).backend.len() * {{N}},
//@INST <<Self::PeekWord::BITS>> => <<{{M}}usize>>
//@INST <<BB::<WR>::BITS>> => <<{{M}}usize>>
//@REPLACE <<self.refill()?;>> => <<self.refill_be()?;>>
//@REPLACE_RE [[Ok\(self\.buffer >> \(64usize - n_bits\)\)|Ok\(self\.buffer >> \({{M}}usize - n_bits\)\)]] => [[let pv = self.buffer >> ({{M}}usize - n_bits); proof { lemma_be_peek(self.backend.data(), self.buffer, self.bits_in_buffer as nat, self.pos(), n_bits as nat, pv); } Ok(pv)]]
//@END

//@FN file=src/impls/buf_bit_reader.rs item=/impl<WR: WordRead, RP: ReadParams> BitRead<BE> for BufBitReader<BE, WR, RP>/ name=skip_bits_after_peek
//@SIG fn skip_bits_after_peek_be(&mut self, n_bits: usize)
//@SPEC     requires old(self).inv(), n_bits <= old(self).bits_in_buffer,
//@SPEC     ensures
//@SPEC         final(self).backend == old(self).backend,
//@SPEC         final(self).inv() && final(self).pos() == old(self).pos() + n_bits,
//@PROLOGUE let ghost pos0 = self.pos(); let ghost nb0 = self.bits_in_buffer as nat; let ghost b0 = self.buffer; let ghost d = self.backend.data();
//@PROOF after=<<self.buffer <<= n_bits;>> proof { lemma_be_consume(d, b0, nb0, pos0, n_bits as nat, self.buffer); }
//@END

//@FN file=src/impls/buf_bit_reader.rs item=/> BitSeek for BufBitReader<BE, WR, RP>/ name=bit_pos
//@SIG fn bit_pos_be(&mut self) -> (r: Result<u64, WR::Error>)
//@SPEC     requires old(self).inv(),
//@SPEC     ensures
//@SPEC         final(self).backend.data() == old(self).backend.data(), final(self).inv(), final(self).pos() == old(self).pos(),
//@SPEC         r is Ok ==> r->Ok_0 == old(self).pos(),
//@INST <<WR::Word::BITS>> => <<{{N}}usize>>
//@PROLOGUE proof { assert(self.backend.cursor() * {{N}} <= self.backend.limit() * {{N}}) by (nonlinear_arith) requires self.backend.cursor() <= self.backend.limit(); }
//@END

//@FN file=src/impls/buf_bit_reader.rs item=/> BitSeek for BufBitReader<BE, WR, RP>/ name=set_bit_pos
//@SIG fn set_bit_pos_be(&mut self, bit_index: u64) -> (r: Result<(), WR::Error>)
//@SPEC     requires old(self).inv(), bit_index / {{N}} < old(self).backend.limit(),
//@SPEC     ensures
//@SPEC         final(self).backend.data() == old(self).backend.data(),
//@SPEC         final(self).backend.limit() == old(self).backend.limit(), final(self).backend.len() == old(self).backend.len(),
//@SPEC         r is Ok ==> final(self).inv() && final(self).pos() == bit_index,
//@INST <<self.backend.read_word()?.to_be().upcast()>> => <<(self.backend.read_word()?.to_be() as {{BB}})>>
//@INST <<BB<WR>>> => <<{{BB}}>>
//@INST <<BB::<WR>::BITS>> => <<{{M}}usize>>
//@INST <<BB::<WR>::ZERO>> => <<(0 as {{BB}})>>
//@INST <<WR::Word::BITS>> => <<{{N}}usize>>
//@PROLOGUE let ghost d = self.backend.data(); let ghost cw = (bit_index / {{N}}) as nat; proof { lemma_fundamental_div_mod(bit_index as int, {{N}}); }
//@PROOF after=<<self.bits_in_buffer = 0;>> proof { assert forall|j: nat| j < {{M}} implies !#[trigger] wbit(self.buffer as nat, j) by { lemma_zero_buffer(j); } }
//@PROOF after=[[self.buffer = new_word << ({{M}}usize - self.bits_in_buffer);]] proof { lemma_be_seek(d, cw, bit_offset as nat, spec_to_be(d(cw)), self.buffer); }
//@END
}


// ---------------------------------------------------------------- LE lemmas
/// x & ((1 << n) - 1): the n low bits of a buffer value
pub proof fn lemma_mask_bb(x: {{BB}}, n: nat, j: nat)
    requires n < {{M}}, j < {{M}},
    ensures wbit((x & ((((1 as {{BB}}) << (n as {{BB}})) - (1 as {{BB}})) as {{BB}})) as nat, j) == (j < n && wbit(x as nat, j)),
{
    let nn = n as {{BB}};
    let jj = j as {{BB}};
    let one: {{BB}} = 1;
    assert((one << nn) >= 1) by (bit_vector) requires nn < {{M}}, one == 1;
    let y: {{BB}} = x & ((((1 as {{BB}}) << nn) - (1 as {{BB}})) as {{BB}});
    lemma_wbit_bb(y, j);
    lemma_wbit_bb(x, j);
    assert((((x & (((one << nn) - one) as {{BB}})) >> jj) & 1 == 1) == (jj < nn && ((x >> jj) & 1 == 1))) by (bit_vector) requires jj < {{M}}, nn < {{M}}, one == 1;
}

/// (1 << n) - 1 does not underflow
pub proof fn lemma_one_shl_pos(n: nat)
    requires n < {{M}},
    ensures ((1 as {{BB}}) << (n as {{BB}})) >= 1,
{
    let nn = n as {{BB}};
    let one: {{BB}} = 1;
    assert((one << nn) >= 1) by (bit_vector) requires nn < {{M}}, one == 1;
}

/// bits of r | (w << k) (u64, k < 64)
pub proof fn lemma_or_shl64(r: u64, w: u64, k: nat, j: nat)
    requires k < 64, j < 64,
    ensures bit_of(r | (w << (k as u64)), j) == (bit_of(r, j) || (j >= k && bit_of(w, (j - k) as nat))),
{
    let x: u64 = r | (w << (k as u64));
    lemma_bit_of(x, j);
    lemma_bit_of(r, j);
    let kk = k as u64;
    let jj = j as u64;
    if j >= k {
        lemma_bit_of(w, (j - k) as nat);
        let dd = (j - k) as u64;
        assert((((r | (w << kk)) >> jj) & 1 == 1) == (((r >> jj) & 1 == 1) || ((w >> dd) & 1 == 1))) by (bit_vector) requires jj == dd + kk, jj < 64;
    } else {
        assert((((r | (w << kk)) >> jj) & 1 == 1) == ((r >> jj) & 1 == 1)) by (bit_vector) requires jj < kk, kk < 64;
    }
}

/// (v << (64 - n)) >> (64 - n): the n low bits of v (1 <= n <= 64)
pub proof fn lemma_lowbits64(v: u64, n: nat, j: nat)
    requires 1 <= n <= 64, j < 64,
    ensures bit_of((v << ((64 - n) as u64)) >> ((64 - n) as u64), j) == (j < n && bit_of(v, j)),
{
    let a = (64 - n) as u64;
    let x: u64 = (v << a) >> a;
    lemma_bit_of(x, j);
    lemma_bit_of(v, j);
    let jj = j as u64;
    assert(((((v << a) >> a) >> jj) & 1 == 1) == (jj + a < 64 && ((v >> jj) & 1 == 1))) by (bit_vector) requires jj < 64, a < 64;
}

pub proof fn lemma_le_low(d: spec_fn(nat) -> {{W}}, b: {{BB}}, nb: nat, pos: int, n: nat, r: u64)
    requires
        nb < {{M}}, n <= nb, n <= 64,
        r == (b & ((((1 as {{BB}}) << (n as {{BB}})) - (1 as {{BB}})) as {{BB}})) as u64,
        forall|j: nat| j < {{M}} ==> #[trigger] wbit(b as nat, j) == (j < nb && sbit(true, d, pos + j)),
    ensures
        forall|j: nat| j < 64 ==> #[trigger] bit_of(r, j) == (j < n && sbit(true, d, pos + j)),
{
    let x: {{BB}} = b & ((((1 as {{BB}}) << (n as {{BB}})) - (1 as {{BB}})) as {{BB}});
    assert forall|j: nat| j < 64 implies #[trigger] bit_of(r, j) == (j < n && sbit(true, d, pos + j)) by {
        lemma_cast64_bits(x, j);
        if j < {{M}} {
            lemma_mask_bb(b, n, j);
            assert(wbit(b as nat, j) == (j < nb && sbit(true, d, pos + j)));
        }
    }
}

pub proof fn lemma_le_cast(d: spec_fn(nat) -> {{W}}, b: {{BB}}, nb: nat, pos: int, r: u64)
    requires
        nb < {{M}}, nb <= 64, r == b as u64,
        forall|j: nat| j < {{M}} ==> #[trigger] wbit(b as nat, j) == (j < nb && sbit(true, d, pos + j)),
    ensures
        forall|j: nat| j < 64 ==> #[trigger] bit_of(r, j) == (j < nb && sbit(true, d, pos + j)),
{
    assert forall|j: nat| j < 64 implies #[trigger] bit_of(r, j) == (j < nb && sbit(true, d, pos + j)) by {
        lemma_cast64_bits(b, j);
        if j < {{M}} { assert(wbit(b as nat, j) == (j < nb && sbit(true, d, pos + j))); }
    }
}

pub proof fn lemma_le_consume(d: spec_fn(nat) -> {{W}}, b: {{BB}}, nb: nat, pos: int, n: nat, b2: {{BB}})
    requires
        nb < {{M}}, n <= nb,
        b2 == b >> (n as {{BB}}),
        forall|j: nat| j < {{M}} ==> #[trigger] wbit(b as nat, j) == (j < nb && sbit(true, d, pos + j)),
    ensures
        forall|j: nat| j < {{M}} ==> #[trigger] wbit(b2 as nat, j) == (j < nb - n && sbit(true, d, pos + n + j)),
{
    assert forall|j: nat| j < {{M}} implies #[trigger] wbit(b2 as nat, j) == (j < nb - n && sbit(true, d, pos + n + j)) by {
        lemma_shr_bits(b, n, j);
        if j + n < {{M}} {
            assert(wbit(b as nat, j + n) == (j + n < nb && sbit(true, d, pos + (j + n) as int)));
        }
    }
}

pub proof fn lemma_le_acc_word(d: spec_fn(nat) -> {{W}}, pos0: int, done: nat, r: u64, c: nat, wv: {{W}}, r2: u64)
    requires
        done + {{N}} <= 64, done < 64, pos0 + done == c * {{N}},
        wv == spec_to_le(d(c)), r2 == r | ((wv as u64) << (done as u64)),
        forall|j: nat| j < 64 ==> #[trigger] bit_of(r, j) == (j < done && sbit(true, d, pos0 + j)),
    ensures
        forall|j: nat| j < 64 ==> #[trigger] bit_of(r2, j) == (j < done + {{N}} && sbit(true, d, pos0 + j)),
{
    assert forall|j: nat| j < 64 implies #[trigger] bit_of(r2, j) == (j < done + {{N}} && sbit(true, d, pos0 + j)) by {
        lemma_or_shl64(r, wv as u64, done, j);
        if j >= done {
            lemma_up_bits(wv, (j - done) as nat);
            if j - done < {{N}} { lemma_sbit_word(true, d, c, j - done); }
        }
    }
}

pub proof fn lemma_le_acc_final(d: spec_fn(nat) -> {{W}}, pos0: int, done: nat, r: u64, c: nat, nw: {{W}}, n1: nat, fb: u64, r2: u64, b3: {{BB}})
    requires
        1 <= n1 <= {{N}}, done + n1 <= 64, pos0 + done == c * {{N}},
        nw == spec_to_le(d(c)),
        fb == ((nw as u64) << ((64 - n1) as u64)) >> ((64 - n1) as u64),
        r2 == r | (fb << (done as u64)),
        b3 == (nw as {{BB}}) >> (n1 as {{BB}}),
        forall|j: nat| j < 64 ==> #[trigger] bit_of(r, j) == (j < done && sbit(true, d, pos0 + j)),
    ensures
        forall|j: nat| j < 64 ==> #[trigger] bit_of(r2, j) == (j < done + n1 && sbit(true, d, pos0 + j)),
        forall|j: nat| j < {{M}} ==> #[trigger] wbit(b3 as nat, j) == (j < {{N}} - n1 && sbit(true, d, pos0 + done + n1 + j)),
{
    assert forall|j: nat| j < 64 implies #[trigger] bit_of(r2, j) == (j < done + n1 && sbit(true, d, pos0 + j)) by {
        lemma_or_shl64(r, fb, done, j);
        if j >= done {
            lemma_lowbits64(nw as u64, n1, (j - done) as nat);
            lemma_up_bits(nw, (j - done) as nat);
            if j - done < {{N}} { lemma_sbit_word(true, d, c, j - done); }
        }
    }
    assert forall|j: nat| j < {{M}} implies #[trigger] wbit(b3 as nat, j) == (j < {{N}} - n1 && sbit(true, d, pos0 + done + n1 + j)) by {
        lemma_shr_bits(nw as {{BB}}, n1, j);
        if j + n1 < {{M}} {
            lemma_upcast_bits(nw, j + n1);
            if j + n1 < {{N}} { lemma_sbit_word(true, d, c, (j + n1) as int); }
        }
    }
}

pub proof fn lemma_le_result(d: spec_fn(nat) -> {{W}}, pos0: int, n: nat, r: u64)
    requires
        n <= 64,
        forall|j: nat| j < 64 ==> #[trigger] bit_of(r, j) == (j < n && sbit(true, d, pos0 + j)),
    ensures (r as nat) < pow2(n), field(true, r, n) =~= sbits(true, d, pos0, n as int),
{
    lemma_small(r, n);
    assert forall|i: int| 0 <= i < n implies #[trigger] field(true, r, n)[i] == sbits(true, d, pos0, n as int)[i] by {
        assert(bit_of(r, i as nat) == (i < n && sbit(true, d, pos0 + i)));
    }
}

/// LE refill: a whole word ORed in above the buffered bits
pub proof fn lemma_le_refill(d: spec_fn(nat) -> {{W}}, b: {{BB}}, nb: nat, pos: int, c: nat, nw: {{W}}, b2: {{BB}})
    requires
        nb < {{N}}, pos + nb == c * {{N}}, nw == spec_to_le(d(c)),
        b2 == b | ((nw as {{BB}}) << (nb as {{BB}})),
        forall|j: nat| j < {{M}} ==> #[trigger] wbit(b as nat, j) == (j < nb && sbit(true, d, pos + j)),
    ensures
        forall|j: nat| j < {{M}} ==> #[trigger] wbit(b2 as nat, j) == (j < nb + {{N}} && sbit(true, d, pos + j)),
{
    let y: {{BB}} = (nw as {{BB}}) << (nb as {{BB}});
    assert forall|j: nat| j < {{M}} implies #[trigger] wbit(b2 as nat, j) == (j < nb + {{N}} && sbit(true, d, pos + j)) by {
        lemma_or_bits_bb(b, y, j);
        lemma_shl_bits(nw as {{BB}}, nb, j);
        if j >= nb {
            lemma_upcast_bits(nw, (j - nb) as nat);
            if j - nb < {{N}} { lemma_sbit_word(true, d, c, j - nb); }
        }
    }
}

/// LE peek: (buffer << (M - n)) >> (M - n)
pub proof fn lemma_le_peek(d: spec_fn(nat) -> {{W}}, b: {{BB}}, nb: nat, pos: int, n: nat, v: {{BB}})
    requires
        nb < {{M}}, 1 <= n <= nb, v == (b << (({{M}} - n) as {{BB}})) >> (({{M}} - n) as {{BB}}),
        forall|j: nat| j < {{M}} ==> #[trigger] wbit(b as nat, j) == (j < nb && sbit(true, d, pos + j)),
    ensures
        forall|j: nat| j < {{M}} ==> #[trigger] wbit(v as nat, j) == (j < n && sbit(true, d, pos + j)),
{
    let a = ({{M}} - n) as {{BB}};
    assert forall|j: nat| j < {{M}} implies #[trigger] wbit(v as nat, j) == (j < n && sbit(true, d, pos + j)) by {
        lemma_wbit_bb(v, j);
        lemma_wbit_bb(b, j);
        let jj = j as {{BB}};
        assert(((((b << a) >> a) >> jj) & 1 == 1) == (jj + a < {{M}} && ((b >> jj) & 1 == 1))) by (bit_vector) requires jj < {{M}}, a < {{M}};
        assert(wbit(b as nat, j) == (j < nb && sbit(true, d, pos + j)));
    }
}

/// set_bit_pos, LE
pub proof fn lemma_le_seek(d: spec_fn(nat) -> {{W}}, c: nat, off: nat, nw: {{W}}, b2: {{BB}})
    requires 1 <= off < {{N}}, nw == spec_to_le(d(c)), b2 == (nw as {{BB}}) >> (off as {{BB}}),
    ensures forall|j: nat| j < {{M}} ==> #[trigger] wbit(b2 as nat, j) == (j < {{N}} - off && sbit(true, d, (c * {{N}} + off + j) as int)),
{
    assert forall|j: nat| j < {{M}} implies #[trigger] wbit(b2 as nat, j) == (j < {{N}} - off && sbit(true, d, (c * {{N}} + off + j) as int)) by {
        lemma_shr_bits(nw as {{BB}}, off, j);
        if j + off < {{M}} {
            lemma_upcast_bits(nw, j + off);
            if j + off < {{N}} { lemma_sbit_word(true, d, c, (off + j) as int); }
        }
    }
}

// ---------------------------------------------------------------- LE
impl<WR: WordRead> BufBitReader<LE, WR> {
    spec fn pos(&self) -> int { self.backend.cursor() * {{N}} - self.bits_in_buffer }
    spec fn inv(&self) -> bool {
        &&& self.bits_in_buffer < {{M}}
        &&& self.pos() >= 0
        &&& self.backend.limit() * {{N}} + {{M}} <= u64::MAX
        &&& self.backend.cursor() <= self.backend.limit()
        &&& forall|j: nat| j < {{M}} ==> #[trigger] wbit(self.buffer as nat, j) == (j < self.bits_in_buffer && sbit(true, self.backend.data(), self.pos() + j))
    }

//@FN file=src/impls/buf_bit_reader.rs item=/impl<WR: WordRead, RP: ReadParams> BitRead<LE> for BufBitReader<LE, WR, RP>/ name=read_bits
//@ATTR #[verifier::loop_isolation(false)]
//@SIG fn read_bits_le(&mut self, mut n_bits: usize) -> (r: Result<u64, WR::Error>)
//@SPEC     requires old(self).inv(), n_bits <= 64,
//@SPEC     ensures
//@SPEC         final(self).backend.data() == old(self).backend.data(),
//@SPEC         final(self).backend.limit() == old(self).backend.limit(), final(self).backend.len() == old(self).backend.len(),
//@SPEC         r is Ok ==> {
//@SPEC             &&& final(self).inv()
//@SPEC             &&& final(self).pos() == old(self).pos() + n_bits
//@SPEC             &&& (r->Ok_0 as nat) < pow2(n_bits as nat)
//@SPEC             &&& field(true, r->Ok_0, n_bits as nat) == sbits(true, old(self).backend.data(), old(self).pos(), n_bits as int)
//@SPEC             &&& old(self).bits_in_buffer >= n_bits ==> final(self).bits_in_buffer == old(self).bits_in_buffer - n_bits
//@SPEC         },
//@SPEC         r is Err ==> old(self).pos() + n_bits > old(self).backend.len() * {{N}},
//@INST <<UpcastableInto::<BB<WR>>::upcast(new_word)>> => <<(new_word as {{BB}})>>
//@INST <<BB::<WR>::BITS>> => <<{{M}}usize>>
//@INST <<BB::<WR>::ONE>> => <<(1 as {{BB}})>>
//@INST <<WR::Word::BITS>> => <<{{N}}usize>>
//@PROLOGUE let ghost n = n_bits as nat; let ghost pos0 = self.pos(); let ghost nb0 = self.bits_in_buffer as nat; let ghost b0 = self.buffer; let ghost d = self.backend.data(); proof { if n <= nb0 { lemma_one_shl_pos(n); } }
//@PROOF after=[[let result: u64 = (self.buffer & (((1 as {{BB}}) << n_bits) - (1 as {{BB}}))).cast();]] proof { lemma_le_low(d, b0, nb0, pos0, n, result); lemma_le_result(d, pos0, n, result); }
//@PROOF after=[[self.buffer >>= n_bits;]] proof { lemma_le_consume(d, b0, nb0, pos0, n, self.buffer); }
//@PROOF after=<<let mut result: u64 = self.buffer.cast();>> proof { lemma_le_cast(d, b0, nb0, pos0, result); }
//@LOOP 1 invariant
//@LOOP 1     self.backend.data() == d, self.backend.limit() == old(self).backend.limit(), self.backend.len() == old(self).backend.len(),
//@LOOP 1     self.backend.cursor() <= self.backend.limit(),
//@LOOP 1     n_bits == n, bits_in_res < n, self.backend.cursor() * {{N}} == pos0 + bits_in_res,
//@LOOP 1     forall|j: nat| j < 64 ==> #[trigger] bit_of(result, j) == (j < bits_in_res && sbit(true, d, pos0 + j)),
//@LOOP 1 decreases n - bits_in_res,
//@REPLACE [[result |= new_word << bits_in_res;]] => [[let ghost r_old = result; result |= new_word << bits_in_res; proof { let c = (self.backend.cursor() - 1) as nat; lemma_le_acc_word(d, pos0, bits_in_res as nat, r_old, c, spec_to_le(d(c)), result); }]]
//@REPLACE [[result |= final_bits << bits_in_res;]] => [[let ghost r_old = result; result |= final_bits << bits_in_res;]]
//@EPILOGUE proof { let c = (self.backend.cursor() - 1) as nat; lemma_le_acc_final(d, pos0, bits_in_res as nat, r_old, c, new_word, n_bits as nat, final_bits, result, self.buffer); lemma_le_result(d, pos0, n, result); }
//@END
//@FN file=src/impls/buf_bit_reader.rs item=/impl<WR: WordRead, RP: ReadParams> BufBitReader<LE, WR, RP>/ name=refill
//@SIG fn refill_le(&mut self) -> (r: Result<(), WR::Error>)
//@SPEC     requires old(self).inv(), old(self).bits_in_buffer < {{N}},
//@SPEC     ensures
//@SPEC         final(self).backend.data() == old(self).backend.data(),
//@SPEC         final(self).backend.limit() == old(self).backend.limit(), final(self).backend.len() == old(self).backend.len(),
//@SPEC         r is Ok ==> final(self).inv() && final(self).pos() == old(self).pos() && final(self).bits_in_buffer == old(self).bits_in_buffer + {{N}},
//@SPEC         r is Err ==> final(self).buffer == old(self).buffer && final(self).bits_in_buffer == old(self).bits_in_buffer
//@SPEC             && final(self).backend.cursor() == old(self).backend.cursor() && old(self).backend.cursor() >= old(self).backend.len(),
//@INST <<self.backend.read_word()?.to_le().upcast()>> => <<(self.backend.read_word()?.to_le() as {{BB}})>>
//@INST <<BB<WR>>> => <<{{BB}}>>
//@INST <<BB::<WR>::BITS>> => <<{{M}}usize>>
//@INST <<WR::Word::BITS>> => <<{{N}}usize>>
//@PROLOGUE let ghost pos0 = self.pos(); let ghost nb0 = self.bits_in_buffer as nat; let ghost b0 = self.buffer; let ghost d = self.backend.data(); let ghost c = self.backend.cursor();
//@EPILOGUE proof { lemma_le_refill(d, b0, nb0, pos0, c, spec_to_le(d(c)), self.buffer); }
//@END

//@FN file=src/impls/buf_bit_reader.rs item=/impl<WR: WordRead, RP: ReadParams> BitRead<LE> for BufBitReader<LE, WR, RP>/ name=peek_bits
//@SIG fn peek_bits_le(&mut self, n_bits: usize) -> (r: Result<{{BB}}, WR::Error>)
//@SPEC     requires old(self).inv(), 1 <= n_bits <= {{N}},
//@SPEC     ensures
//@SPEC         final(self).backend.data() == old(self).backend.data(),
//@SPEC         final(self).backend.limit() == old(self).backend.limit(), final(self).backend.len() == old(self).backend.len(),
//@SPEC         r is Ok ==> {
//@SPEC             &&& final(self).inv() && final(self).pos() == old(self).pos() && final(self).bits_in_buffer >= n_bits
//@SPEC             &&& forall|j: nat| j < {{M}} ==> #[trigger] wbit(r->Ok_0 as nat, j) == (j < n_bits && sbit(true, old(self).backend.data(), old(self).pos() + j))
//@SPEC         },
//@SPEC         r is Err ==> final(self).buffer == old(self).buffer && final(self).bits_in_buffer == old(self).bits_in_buffer
//@SPEC             && final(self).backend.cursor() == old(self).backend.cursor() && old(self).pos() + n_bits > old(self).backend.len() * {{N}},
//@INST <<Self::PeekWord::BITS>> => <<{{M}}usize>>
//@INST <<BB::<WR>::BITS>> => <<{{M}}usize>>
//@REPLACE <<self.refill()?;>> => <<self.refill_le()?;>>
//@REPLACE [[Ok((self.buffer << shamt) >> shamt)]] => [[let pv = (self.buffer << shamt) >> shamt; proof { lemma_le_peek(self.backend.data(), self.buffer, self.bits_in_buffer as nat, self.pos(), n_bits as nat, pv); } Ok(pv)]]
//@END

//@FN file=src/impls/buf_bit_reader.rs item=/impl<WR: WordRead, RP: ReadParams> BitRead<LE> for BufBitReader<LE, WR, RP>/ name=skip_bits_after_peek
//@SIG fn skip_bits_after_peek_le(&mut self, n_bits: usize)
//@SPEC     requires old(self).inv(), n_bits <= old(self).bits_in_buffer,
//@SPEC     ensures
//@SPEC         final(self).backend == old(self).backend,
//@SPEC         final(self).inv() && final(self).pos() == old(self).pos() + n_bits,
//@PROLOGUE let ghost pos0 = self.pos(); let ghost nb0 = self.bits_in_buffer as nat; let ghost b0 = self.buffer; let ghost d = self.backend.data();
//@PROOF after=[[self.buffer >>= n_bits;]] proof { lemma_le_consume(d, b0, nb0, pos0, n_bits as nat, self.buffer); }
//@END

//@FN file=src/impls/buf_bit_reader.rs item=/> BitSeek for BufBitReader<LE, WR, RP>/ name=bit_pos
//@SIG fn bit_pos_le(&mut self) -> (r: Result<u64, WR::Error>)
//@SPEC     requires old(self).inv(),
//@SPEC     ensures
//@SPEC         final(self).backend.data() == old(self).backend.data(), final(self).inv(), final(self).pos() == old(self).pos(),
//@SPEC         r is Ok ==> r->Ok_0 == old(self).pos(),
//@INST <<WR::Word::BITS>> => <<{{N}}usize>>
//@PROLOGUE proof { assert(self.backend.cursor() * {{N}} <= self.backend.limit() * {{N}}) by (nonlinear_arith) requires self.backend.cursor() <= self.backend.limit(); }
//@END

//@FN file=src/impls/buf_bit_reader.rs item=/> BitSeek for BufBitReader<LE, WR, RP>/ name=set_bit_pos
//@SIG fn set_bit_pos_le(&mut self, bit_index: u64) -> (r: Result<(), WR::Error>)
//@SPEC     requires old(self).inv(), bit_index / {{N}} < old(self).backend.limit(),
//@SPEC     ensures
//@SPEC         final(self).backend.data() == old(self).backend.data(),
//@SPEC         final(self).backend.limit() == old(self).backend.limit(), final(self).backend.len() == old(self).backend.len(),
//@SPEC         r is Ok ==> final(self).inv() && final(self).pos() == bit_index,
//@INST <<self.backend.read_word()?.to_le().upcast()>> => <<(self.backend.read_word()?.to_le() as {{BB}})>>
//@INST <<BB<WR>>> => <<{{BB}}>>
//@INST <<BB::<WR>::BITS>> => <<{{M}}usize>>
//@INST <<BB::<WR>::ZERO>> => <<(0 as {{BB}})>>
//@INST <<WR::Word::BITS>> => <<{{N}}usize>>
//@PROLOGUE let ghost d = self.backend.data(); let ghost cw = (bit_index / {{N}}) as nat; proof { lemma_fundamental_div_mod(bit_index as int, {{N}}); }
//@PROOF after=<<self.bits_in_buffer = 0;>> proof { assert forall|j: nat| j < {{M}} implies !#[trigger] wbit(self.buffer as nat, j) by { lemma_zero_buffer(j); } }
//@PROOF after=[[self.buffer = new_word >> bit_offset;]] proof { lemma_le_seek(d, cw, bit_offset as nat, spec_to_le(d(cw)), self.buffer); }
//@END
}


} // verus!

fn main() {}
