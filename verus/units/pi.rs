// Unit C03-C04-C06/pi: the real text of `len_pi`, `PiWrite::write_pi` and
// `PiRead::read_pi` (src/codes/pi.rs) against the trait contracts, for EVERY
// parameter k in 0..=63 and every value below 2^64-1, on top of the Rice code
// under contract (rice.inc).
use vstd::prelude::*;
use vstd::arithmetic::power2::*;
use vstd::arithmetic::div_mod::*;
use vstd::bits::*;

verus! {

//@INCLUDE prelude.inc

//@INCLUDE mb_spec.inc

//@INCLUDE rice.inc

//@INCLUDE pi_value.inc

// ---------------------------------------------------------------------------
// pi codes (src/codes/pi.rs)
// ---------------------------------------------------------------------------

/// lambda = floor(log2(n+1))
pub open spec fn pi_lambda(n: u64) -> nat {
    log2f((n + 1) as u64)
}
/// Rice_k(lambda) followed by the lambda low bits of n+1
pub open spec fn pi_bits(le: bool, n: u64, k: nat) -> Seq<bool> {
    rice_bits(le, pi_lambda(n) as u64, k) + field(le, (n + 1) as u64, pi_lambda(n))
}
pub open spec fn pi_len(n: u64, k: nat) -> nat {
    rice_len(pi_lambda(n) as u64, k) + pi_lambda(n)
}

pub proof fn lemma_pi_lambda(n: u64, m: u64, lg: u32)
    requires n < u64::MAX, m == n + 1, lg < 64, pow2(lg as nat) <= m, (m as nat) < pow2((lg + 1) as nat),
    ensures pi_lambda(n) == lg, pi_lambda(n) <= 63,
{
    lemma_log2f(m, lg as nat);
}

pub proof fn lemma_pi_small(lambda: u64, k: nat)
    requires lambda <= 63, k <= 63,
    ensures rice_len(lambda, k) <= 127,
{
    lemma_pow2_pos(k);
    assert((lambda as nat) / pow2(k) <= lambda) by (nonlinear_arith) requires pow2(k) >= 1;
}

//@FN file=src/codes/pi.rs item=- name=len_pi
//@SIG pub fn len_pi(mut n: u64, k: usize) -> (r: usize)
//@SPEC     requires k <= 63, n < u64::MAX,
//@SPEC     ensures r == pi_len(n, k as nat),
//@PROLOGUE let ghost n0 = n;
//@REPLACE <<let lambda = n.ilog2() as usize;>> => <<let lg = n.ilog2(); let lambda = lg as usize;>>
//@PROOF after=<<let lambda = lg as usize;>> proof { lemma_pi_lambda(n0, n, lg); lemma_rice_no_overflow(lambda as u64, k as nat); lemma_pi_small(lambda as u64, k as nat); }
//@END

pub trait PiWrite<E: Endianness>: BitWrite<E> + RiceWrite<E> {
//@FN file=src/codes/pi.rs item=/pub trait PiWrite<E: Endianness>: BitWrite<E> \+ RiceWrite<E>/ name=write_pi
//@SIG fn write_pi(&mut self, mut n: u64, k: usize) -> (r: Result<usize, Self::Error>)
//@SPEC     requires k <= 63, n < u64::MAX,
//@SPEC     ensures r is Ok ==> r->Ok_0 == pi_len(n, k as nat) && final(self).view() == old(self).view() + pi_bits(E::little(), n, k as nat),
//@PROLOGUE let ghost n0 = n;
//@REPLACE <<let lambda = n.ilog2() as usize;>> => <<let lg = n.ilog2(); let lambda = lg as usize;>>
//@PROOF after=<<let lambda = lg as usize;>> proof { lemma_pi_lambda(n0, n, lg); lemma_rice_no_overflow(lambda as u64, k as nat); lemma_pi_small(lambda as u64, k as nat); }
//@PROOF[checks] after=<<n ^= 1 << lambda;>> proof { lemma_xor_top(E::little(), (n0 + 1) as u64, lambda as nat, n); }
//@END
}

pub proof fn lemma_pi_split(s: Seq<bool>, p: int, le: bool, x: u64, k: nat)
    requires k <= 63, x < u64::MAX, starts(s, p, pi_bits(le, x, k)),
    ensures
        pi_lambda(x) <= 63,
        starts(s, p, rice_bits(le, pi_lambda(x) as u64, k)),
        starts(s, p + rice_len(pi_lambda(x) as u64, k), field(le, (x + 1) as u64, pi_lambda(x))),
        pi_bits(le, x, k).len() == pi_len(x, k),
{
    lemma_log2f_exists((x + 1) as u64);
    let lam = pi_lambda(x);
    let u = rice_bits(le, lam as u64, k);
    let m = field(le, (x + 1) as u64, lam);
    let w = pi_bits(le, x, k);
    assert(u.len() == rice_len(lam as u64, k));
    assert(w == u + m);
    assert(s.subrange(p, p + u.len()) =~= w.subrange(0, u.len() as int));
    assert(w.subrange(0, u.len() as int) =~= u);
    assert(s.subrange(p + u.len(), p + u.len() + m.len()) =~= w.subrange(u.len() as int, w.len() as int));
    assert(w.subrange(u.len() as int, w.len() as int) =~= m);
}

/// the Rice part exists for read_rice's precondition
pub proof fn lemma_pi_pre<E: Endianness>(s: Seq<bool>, p: int, k: nat)
    requires
        k <= 63,
        exists|x: u64| x < u64::MAX && #[trigger] starts(s, p, pi_bits(E::little(), x, k)),
    ensures
        exists|y: u64| y < u64::MAX && #[trigger] starts(s, p, rice_bits(E::little(), y, k)),
{
    let x0 = choose|x: u64| x < u64::MAX && #[trigger] starts(s, p, pi_bits(E::little(), x, k));
    lemma_pi_split(s, p, E::little(), x0, k);
    let y0 = pi_lambda(x0) as u64;
    assert(y0 < u64::MAX && starts(s, p, rice_bits(E::little(), y0, k)));
}

/// after the Rice part: lam is the lambda of every candidate value
pub proof fn lemma_pi_q<E: Endianness>(s: Seq<bool>, p: int, pos1: int, lam: u64, k: nat)
    requires
        k <= 63,
        exists|x: u64| x < u64::MAX && #[trigger] starts(s, p, pi_bits(E::little(), x, k)),
        // contract of read_rice at p
        forall|y: u64| y < u64::MAX && #[trigger] starts(s, p, rice_bits(E::little(), y, k)) ==> lam == y && pos1 == p + rice_len(y, k),
    ensures
        lam <= 63,
        forall|x: u64| x < u64::MAX && #[trigger] starts(s, p, pi_bits(E::little(), x, k)) ==> pi_lambda(x) == lam && pos1 == p + rice_len(lam, k),
{
    let le = E::little();
    assert forall|x: u64| x < u64::MAX && #[trigger] starts(s, p, pi_bits(le, x, k)) implies pi_lambda(x) == lam && pos1 == p + rice_len(lam, k) by {
        lemma_pi_split(s, p, le, x, k);
        let y = pi_lambda(x) as u64;
        assert(starts(s, p, rice_bits(le, y, k)));
    }
    let x0 = choose|x: u64| x < u64::MAX && #[trigger] starts(s, p, pi_bits(le, x, k));
    lemma_pi_split(s, p, le, x0, k);
}

/// after the fixed-width part
pub proof fn lemma_pi_r<E: Endianness>(s: Seq<bool>, p: int, pos1: int, pos2: int, lam: u64, top: u64, low: u64, k: nat)
    requires
        k <= 63, lam <= 63, top == 1u64 << lam, pos2 == pos1 + lam, pos2 <= s.len(),
        forall|x: u64| x < u64::MAX && #[trigger] starts(s, p, pi_bits(E::little(), x, k)) ==> pi_lambda(x) == lam && pos1 == p + rice_len(lam, k),
        (low as nat) < pow2(lam as nat),
        field(E::little(), low, lam as nat) == s.subrange(pos1, pos1 + lam),
    ensures
        top + low <= u64::MAX, top + low >= 1,
        forall|x: u64| x < u64::MAX && #[trigger] starts(s, p, pi_bits(E::little(), x, k)) ==> top + low - 1 == x && pos2 == p + pi_len(x, k),
{
    let le = E::little();
    lemma_pi_top(lam, top, low);
    assert forall|x: u64| x < u64::MAX && #[trigger] starts(s, p, pi_bits(le, x, k)) implies top + low - 1 == x && pos2 == p + pi_len(x, k) by {
        lemma_pi_split(s, p, le, x, k);
        let m = (x + 1) as u64;
        lemma_log2f_exists(m);
        lemma_pi_value(le, m, lam as nat, low);
    }
}

pub trait PiRead<E: Endianness>: BitRead<E> + RiceRead<E> {
//@FN file=src/codes/pi.rs item=/pub trait PiRead<E: Endianness>: BitRead<E> \+ RiceRead<E>/ name=read_pi
//@SIG fn read_pi(&mut self, k: usize) -> (r: Result<u64, Self::Error>)
//@SPEC     requires
//@SPEC         k <= 63, old(self).pos() <= old(self).stream().len(),
//@SPEC         exists|x: u64| x < u64::MAX && #[trigger] starts(old(self).stream(), old(self).pos() as int, pi_bits(E::little(), x, k as nat)),
//@SPEC     ensures
//@SPEC         final(self).stream() == old(self).stream(),
//@SPEC         r is Ok ==> forall|x: u64| x < u64::MAX && #[trigger] starts(old(self).stream(), old(self).pos() as int, pi_bits(E::little(), x, k as nat))
//@SPEC             ==> r->Ok_0 == x && final(self).pos() == old(self).pos() + pi_len(x, k as nat),
//@PROLOGUE proof { lemma_pi_pre::<E>(self.stream(), self.pos() as int, k as nat); }
//@PROOF after=<<let lambda = self.read_rice(k)?;>> let ghost pos1 = self.pos() as int; proof { lemma_pi_q::<E>(old(self).stream(), old(self).pos() as int, pos1, lambda, k as nat); }
//@REPLACE_RE <<Ok\(\(1 << lambda\) \+ self\.read_bits\(lambda as usize\)\? - 1\)>> => <<let top: u64 = 1 << lambda; let low = self.read_bits(lambda as usize)?; proof { lemma_pi_r::<E>(old(self).stream(), old(self).pos() as int, pos1, self.pos() as int, lambda, top, low, k as nat); } Ok(top + low - 1)>>
//@END
}

} // verus!

fn main() {}
