#!/usr/bin/env python3
"""check <PROP> [--tier quick|thorough] [--replay FILE]

Decides one property of /verif/properties.jsonl on /repo's current working tree
by discharging its registered obligations (DESIGN §3).

exit 0  every obligation discharged (or a listed known finding)
exit 1  VIOLATION property=<id> replay=<path>   (an obligation that states only
        what the property states failed; counterexample replayed natively when
        the verifier produced one)
exit 2  undecided: build failure, lost anchor, solver timeout, unsupported
        construct, vacuous precondition, zero obligations  (never an alarm)
"""
import argparse
import hashlib
import json
import os
import re
import shutil
import subprocess
import sys
import time
from pathlib import Path

VERIF = Path(__file__).resolve().parent.parent
sys.path.insert(0, str(VERIF / "tools"))
import registry  # noqa: E402
import verus_run  # noqa: E402

REPO = Path(os.environ.get("VERIF_REPO", "/repo"))
CONTRACTS = VERIF / "contracts"
CACHE = Path(os.environ.get("VERIF_CACHE", str(VERIF / ".cache")))   # build / scratch directory (override to run two checks of one property side by side)
JOBS = int(os.environ.get("VERIF_JOBS", "16"))
KANI_ENV = dict(os.environ, RUSTFLAGS="--cfg dsi_bitstream_verif", CARGO_NET_OFFLINE="true",
                CARGO_TERM_COLOR="never")


def log(*a):
    print(*a, file=sys.stderr, flush=True)


# --------------------------------------------------------------------------
# Kani
# --------------------------------------------------------------------------

def prepare_contracts():
    lock_src = REPO / "Cargo.lock"
    lock_dst = CONTRACTS / "Cargo.lock"
    if lock_src.exists():
        # keep the resolved root entry if /repo's lock did not change
        stamp = CACHE / "lock.sha"
        CACHE.mkdir(exist_ok=True)
        h = hashlib.sha256(lock_src.read_bytes()).hexdigest()
        if not lock_dst.exists() or not stamp.exists() or stamp.read_text() != h:
            shutil.copy(lock_src, lock_dst)
            stamp.write_text(h)
    pg = CONTRACTS / "src" / "playback_gen.rs"
    if not pg.exists() or pg.read_text() != "":
        pg.write_text("")


def module_feature(harness):
    """the cargo feature (m_<module>) of the harness crate that compiles `harness`"""
    seg = harness.split("::")
    mod = seg[0]
    if mod == "obl_codes" and len(seg) > 1 and seg[1].startswith("golomb"):
        return "m_golomb"
    return "m_" + mod[len("obl_"):]


# BUILD_KEY names the target directory of the current invocation (one per property, so
# that each check keeps its own incremental build of exactly the modules it needs)
BUILD_KEY = "dev"
MODULE_FEATURES = []


def set_build(key, harnesses):
    global BUILD_KEY, MODULE_FEATURES
    BUILD_KEY = key
    MODULE_FEATURES = sorted({module_feature(h) for h in harnesses if h})


def all_features(features):
    return ",".join(MODULE_FEATURES + ([features] if features else []))


def target_dir(features):
    return CACHE / ("kani-" + BUILD_KEY + ("-" + features.replace(",", "-") if features else ""))


def kani_base(features):
    cmd = ["cargo", "kani", "--target-dir", str(target_dir(features)),
           "-Z", "stubbing", "-Z", "unstable-options"]
    f = all_features(features)
    if f:
        cmd += ["--features", f]
    return cmd


def prune_build(features):
    """remove stale per-fingerprint output directories of the harness crate (they hold one goto file per harness)"""
    base = target_dir(features) / "kani" / "x86_64-unknown-linux-gnu" / "debug" / "build" / "dsi-contracts"
    if base.exists():
        ds = sorted([d for d in base.iterdir() if d.is_dir()], key=lambda d: d.stat().st_mtime)
        for d in ds[:-1]:
            shutil.rmtree(d, ignore_errors=True)


def drop_large_builds(limit_gb=6.0):
    """disk space is limited: a build directory that has grown beyond the limit (one goto binary per harness: the thorough tier of
    C10 leaves 28 GB) is removed at the end of the run; the next run rebuilds it"""
    import atexit

    def _go():
        try:
            for d in CACHE.glob("kani-" + BUILD_KEY + "*"):
                out = subprocess.run(["du", "-sk", str(d)], stdout=subprocess.PIPE, text=True).stdout.split()
                if out and int(out[0]) > limit_gb * 1024 * 1024:
                    shutil.rmtree(d, ignore_errors=True)
        except Exception:
            pass
    atexit.register(_go)


RE_CHECKING = re.compile(r"^(?:Thread (\d+): )?Checking harness (\S+?)\.\.\.\s*$")
RE_THREAD_RES = re.compile(r"^Thread (\d+):\s*$")


def parse_terse(out):
    """Return {harness: {status, time, checks, failed, covers_sat, covers, text}}."""
    res = {}
    cur_by_thread = {}
    cur = None
    block = None
    lines = out.splitlines()
    i = 0

    def finish(h, blk):
        txt = "\n".join(blk)
        st = "unknown"
        if "VERIFICATION:- SUCCESSFUL" in txt:
            st = "ok"
        elif "CBMC timed out" in txt or "TIMEOUT" in txt.upper() or "timed out" in txt:
            st = "timeout"
        elif "VERIFICATION:- FAILED" in txt:
            st = "failed"
        m = re.search(r"Verification Time: ([0-9.]+)s", txt)
        t = float(m.group(1)) if m else 0.0
        m = re.search(r"\*\* (\d+) of (\d+) failed", txt)
        failed, checks = (int(m.group(1)), int(m.group(2))) if m else (0, 0)
        m = re.search(r"\*\* (\d+) of (\d+) cover properties satisfied", txt)
        cs, ct = (int(m.group(1)), int(m.group(2))) if m else (0, 0)
        res[h] = dict(status=st, time=t, checks=checks, failed=failed, covers_sat=cs, covers=ct, text=txt)

    pending = None  # (harness, block)
    for ln in lines:
        m = RE_CHECKING.match(ln)
        if m:
            if pending and m.group(1) is None:
                finish(*pending)
                pending = None
            th = m.group(1)
            if th is None:
                pending = (m.group(2), [])
            else:
                cur_by_thread[th] = m.group(2)
            continue
        m = RE_THREAD_RES.match(ln)
        if m:
            if pending:
                finish(*pending)
            h = cur_by_thread.get(m.group(1))
            pending = (h, []) if h else None
            continue
        if ln.startswith("Manual Harness Summary") or ln.startswith("Complete - "):
            if pending:
                finish(*pending)
                pending = None
            continue
        if pending is not None:
            pending[1].append(ln)
            if ln.startswith("Verification Time:"):
                finish(*pending)
                pending = None
    if pending:
        finish(*pending)
    return res


def run_kani_group(features, obls, timeout_s, jobs=None):
    """Run the harnesses of `obls` (same feature set). Returns (results, build_error)."""
    harnesses = sorted({o.target for o in obls})
    cmd = kani_base(features) + ["--harness-timeout", f"{timeout_s}s", "--output-format", "terse",
                                 "-j", str(jobs if jobs else max(2, JOBS)), "--exact"]
    for h in harnesses:
        cmd += ["--harness", h]
    t0 = time.time()
    p = subprocess.run(cmd, cwd=CONTRACTS, env=KANI_ENV, stdout=subprocess.PIPE, stderr=subprocess.STDOUT, text=True)
    wall = time.time() - t0
    out = p.stdout
    (CACHE / "last_kani_group.log").write_text(out)
    res = parse_terse(out)
    if not res and ("error: could not compile" in out or "error[" in out or p.returncode != 0):
        return {}, out[-6000:], wall
    return res, None, wall


RE_CHECK = re.compile(
    r"^Check \d+: (?P<name>[^\n]+?)\s*\n\s*- Status: (?P<status>\w+)\s*\n\s*- Description: \"(?P<desc>.*?)\"\s*\n(?:\s*- Location: (?P<loc>.*?)\n)?",
    re.M | re.S)


def run_kani_single(features, harness, timeout_s, playback=True):
    cmd = kani_base(features) + ["--harness-timeout", f"{timeout_s}s", "--exact", "--harness", harness]
    if playback:
        cmd += ["-Z", "concrete-playback", "--concrete-playback=print"]
    p = subprocess.run(cmd, cwd=CONTRACTS, env=KANI_ENV, stdout=subprocess.PIPE, stderr=subprocess.STDOUT, text=True)
    return p.stdout


def parse_regular(out):
    fails, unsat_covers, undetermined = [], [], []
    for m in RE_CHECK.finditer(out):
        st = m.group("status")
        d = dict(check=m.group("name"), status=st, desc=m.group("desc"), loc=(m.group("loc") or "").strip())
        if st == "FAILURE":
            fails.append(d)
        elif st in ("UNSATISFIABLE", "UNSATISFIED"):
            unsat_covers.append(d)
        elif st in ("UNDETERMINED", "UNSUPPORTED"):
            undetermined.append(d)
    tests = []
    for m in re.finditer(r"```\n(/// Test generated for harness `(?P<h>[^`]+)`.*?\n///\n/// Check for `(?P<kind>\w+)`: \"(?P<desc>.*?)\"\n(?:///[^\n]*\n|[ \t]*\n)*(?P<body>#\[test\].*?))```", out, re.S):
        tests.append(dict(harness=m.group("h"), kind=m.group("kind"), desc=m.group("desc"), text=m.group(1)))
    status = "ok" if "VERIFICATION:- SUCCESSFUL" in out else ("failed" if "VERIFICATION:- FAILED" in out else "unknown")
    return dict(status=status, fails=fails, unsat_covers=unsat_covers, undetermined=undetermined, tests=tests)


def classify_failure(f):
    """observable | internal | undecided | harness"""
    d, loc = f["desc"], f["loc"]
    if "unwinding assertion" in d:
        return "undecided"
    if "not currently supported" in d or "unsupported" in d.lower():
        return "undecided"
    if d.startswith("OBS "):
        return "observable"
    if d.startswith("INT "):
        return "internal"
    if "/repo/" in loc or loc.startswith("../../repo/") or "repo/src" in loc:
        return "observable"       # a panic / overflow / failed assert inside the library on an in-contract input
    if "contracts/src" in loc or loc.startswith("src/"):
        return "harness"
    # std code reached from the library (e.g. unwrap, slice index, copy_from_slice)
    return "observable"


def decode_vals(test_text):
    vals = []
    for m in re.finditer(r"//\s*(.+)\n\s*vec!\[([0-9, ]*)\]", test_text):
        vals.append(dict(shown=m.group(1).strip(), bytes=[int(x) for x in m.group(2).split(",") if x.strip()]))
    return vals


def native_playback_batch(items, feats=""):
    """items: list of (harness, test_text). One native build, all tests. Returns {test fn name: (reproduced, output tail)}."""
    bodies, names = [], []
    for harness, test_text in items:
        m = re.search(r"fn (kani_concrete_playback_\w+)\(\)", test_text)
        name = m.group(1)
        short = harness.split("::")[-1]
        body = re.sub(r"kani::concrete_playback_run\(concrete_vals, %s\)" % re.escape(short),
                      "kani::concrete_playback_run(concrete_vals, crate::%s)" % harness, test_text)
        uniq = name + "_" + hashlib.sha256(harness.encode()).hexdigest()[:8]
        body = body.replace("fn " + name + "()", "fn " + uniq + "()")
        if uniq not in names:     # several obligations may share one (confirmation) harness and counterexample
            bodies.append(body)
        names.append(uniq)
    pg = CONTRACTS / "src" / "playback_gen.rs"
    pg.write_text("\n".join(bodies))
    env = dict(KANI_ENV, CARGO_TARGET_DIR=str(CACHE / "kani-playback"), RUST_BACKTRACE="0")
    try:
        p = subprocess.run(["cargo", "kani", "playback", "-Z", "concrete-playback"] + (["--features", all_features(feats)] if all_features(feats) else [])
                           + ["--", "kani_concrete_playback", "--nocapture", "--test-threads", "1"],
                           cwd=CONTRACTS, env=env, stdout=subprocess.PIPE, stderr=subprocess.STDOUT, text=True, timeout=1800)
        out = p.stdout
    except subprocess.TimeoutExpired:
        out = "playback timed out"
    finally:
        pg.write_text("")
    res = {}
    for uniq in names:
        m = re.search(r"^test playback_gen::%s \.\.\. (\w+)" % re.escape(uniq), out, re.M)
        mm = re.search(r"thread 'playback_gen::%s'[^\n]*panicked at [^\n]*\n([^\n]*)" % re.escape(uniq), out)
        # with --nocapture the panic text is interleaved between `test X ...` and `FAILED`
        in_failures = bool(re.search(r"^failures:\n(?:\s+\S+\n)*?\s+playback_gen::%s\n" % re.escape(uniq), out, re.M))
        failed = bool(m and m.group(1) == "FAILED") or in_failures or bool(mm)
        res[uniq] = (failed, (mm.group(0) if mm else ("test did not panic" if m else out[-600:])))
    return dict(zip([i[0] + "|" + str(k) for k, i in enumerate(items)], [res[u] for u in names]))


def native_playback(harness, test_text):
    """Compile the harness natively with Kani's concrete values and run it on the real code."""
    m = re.search(r"fn (kani_concrete_playback_\w+)\(\)", test_text)
    name = m.group(1)
    short = harness.split("::")[-1]
    body = re.sub(r"kani::concrete_playback_run\(concrete_vals, %s\)" % re.escape(short),
                  "kani::concrete_playback_run(concrete_vals, crate::%s)" % harness, test_text)
    pg = CONTRACTS / "src" / "playback_gen.rs"
    pg.write_text(body)
    env = dict(KANI_ENV, CARGO_TARGET_DIR=str(CACHE / "kani-playback"), RUST_BACKTRACE="0")
    try:
        p = subprocess.run(["cargo", "kani", "playback", "-Z", "concrete-playback"] + (["--features", all_features("")] if all_features("") else [])
                           + ["--", name, "--nocapture"],
                           cwd=CONTRACTS, env=env, stdout=subprocess.PIPE, stderr=subprocess.STDOUT, text=True, timeout=900)
        out = p.stdout
    except subprocess.TimeoutExpired:
        out = "playback timed out"
    finally:
        pg.write_text("")
    reproduced = ("panicked at" in out) and ("test result: FAILED" in out or "FAILED" in out)
    tail = "\n".join([l for l in out.splitlines() if not l.startswith("warning") and l.strip()][-25:])
    return reproduced, tail


# --------------------------------------------------------------------------
# known findings
# --------------------------------------------------------------------------

def load_known():
    p = VERIF / "known_findings.json"
    if not p.exists():
        return []
    return json.loads(p.read_text()).get("findings", [])


def match_known(known, prop, obl_id, descs):
    """A finding suppresses a failure only if property, obligation (regex) and
    every failed-check description are covered by the entry."""
    for k in known:
        if k.get("status", "open") != "open" or k["property"] != prop:
            continue
        if not re.fullmatch(k["obligation"], obl_id):
            continue
        pats = k.get("failed_checks", [])
        if descs and all(any(re.search(p, d) for p in pats) for d in descs):
            return k
    return None


# --------------------------------------------------------------------------
# main
# --------------------------------------------------------------------------

def write_evidence(prop, ev):
    # VERIF_EVIDENCE_DIR: used by tools/run_seed.sh so that runs against a seeded (modified) tree never
    # overwrite the evidence of the real tree
    d = Path(os.environ["VERIF_EVIDENCE_DIR"]) if os.environ.get("VERIF_EVIDENCE_DIR") else VERIF / "evidence"
    d.mkdir(exist_ok=True)
    (d / f"{prop}.json").write_text(json.dumps(ev, indent=1))


def src_hash(path):
    p = REPO / path
    return hashlib.sha256(p.read_bytes()).hexdigest()[:16] if p.exists() else None


def do_replay(path):
    r = json.loads(Path(path).read_text())
    prop = r["property"]
    if not r.get("playback_test"):
        print(f"replay file has no concrete input (obligation {r['obligation']}): {r.get('verifier_output', '')[:400]}")
        return 2
    prepare_contracts()
    set_build(prop, [r["harness"]])
    ok, tail = native_playback(r["harness"], r["playback_test"])
    print(tail)
    if ok:
        print(f"VIOLATION property={prop} replay={path}")
        return 1
    print("replay did not reproduce on the current tree")
    return 0


def main():
    ap = argparse.ArgumentParser()
    ap.add_argument("prop")
    ap.add_argument("--tier", default=os.environ.get("VERIF_TIER", "quick"), choices=["quick", "thorough"])
    ap.add_argument("--replay")
    ap.add_argument("--only", help="regex on obligation ids (debugging aid; evidence is marked partial)")
    args = ap.parse_args()
    if args.replay:
        sys.exit(do_replay(args.replay))

    prop, tier = args.prop, args.tier
    seed = int(os.environ.get("VERIF_SEED", "0") or 0)
    t_start = time.time()
    obls = registry.for_property(prop, tier)
    if args.only:
        obls = [o for o in obls if re.search(args.only, o.id)]
    if not obls:
        log(f"no obligations registered for {prop}")
        sys.exit(2)
    CACHE.mkdir(exist_ok=True)
    prepare_contracts()
    known = load_known()
    timeout_s = 900 if tier == "quick" else 3600

    pending_playback = []
    results = {}      # obl id -> dict
    undecided = []    # (obl id, reason)
    violations = []   # dicts
    known_hit = []
    solver_s = 0.0
    cmds = []

    # ---- Kani groups --------------------------------------------------------
    kobls = [o for o in obls if o.engine == "kani"]
    set_build(prop, [o.target for o in kobls] + [o.confirm for o in kobls])
    drop_large_builds()
    for features in sorted({o.features for o in kobls}):
        group = [o for o in kobls if o.features == features]
        # memory-heavy harnesses run in a second pass with fewer parallel CBMC processes
        light = [o for o in group if getattr(o, "mem_gb", 0) < 4]
        heavy = [o for o in group if getattr(o, "mem_gb", 0) >= 4]
        res, build_err, wall = run_kani_group(features, light, timeout_s) if light else ({}, None, 0.0)
        # one pass per memory class, each with as many parallel CBMC processes as fit in ~44 GB
        for mem in sorted({o.mem_gb for o in heavy}):
            if build_err is not None:
                break
            cls = [o for o in heavy if o.mem_gb == mem]
            res2, build_err, wall2 = run_kani_group(features, cls, timeout_s, jobs=max(1, min(JOBS, 44 // mem)))
            res.update(res2)
            wall += wall2
        prune_build(features)
        cmds.append("RUSTFLAGS='--cfg dsi_bitstream_verif' cargo kani -Z stubbing --exact --harness <each>"
                    + (f" --features {features}" if features else ""))
        if build_err is not None:
            log("kani build failed:\n" + build_err)
            for o in group:
                undecided.append((o.id, "harness crate does not build against the current tree"))
            continue
        # individual re-runs (with concrete playback) of everything that did not pass, in parallel
        # (a harness that ran into the time limit is not run a second time: it is undecided)
        need = sorted({o.target for o in group if res.get(o.target) is not None and res[o.target]["status"] != "timeout" and not (
            res[o.target]["status"] == "ok" and res[o.target]["covers_sat"] == res[o.target]["covers"] and res[o.target]["checks"] > 0)})
        single_out = {}
        if need:
            from concurrent.futures import ThreadPoolExecutor
            with ThreadPoolExecutor(max_workers=min(8, max(1, JOBS // 2))) as ex:
                for h, out_ in zip(need, ex.map(lambda h: run_kani_single(features, h, timeout_s), need)):
                    single_out[h] = out_
        for o in group:
            r = res.get(o.target)
            if r is None:
                undecided.append((o.id, "harness was not run (no result reported by Kani)"))
                continue
            solver_s += r["time"]
            if r["status"] == "ok" and o.expect_panic:
                why = "vacuous: the harness is expected to end in a panic of the library and no check failed"
                undecided.append((o.id, why))
                results[o.id] = dict(status="undecided", reason=why)
                continue
            if r["status"] == "ok" and r["covers_sat"] == r["covers"] and r["checks"] > 0:
                results[o.id] = dict(status="discharged", backend="kani/cbmc+cadical", time_s=r["time"], checks=r["checks"],
                                     covers=r["covers"])
                continue
            if r["status"] == "timeout":
                why = f"solver time limit ({timeout_s} s) reached"
                undecided.append((o.id, why))
                results[o.id] = dict(status="undecided", reason=why)
                continue
            # triage individually
            out = single_out[o.target]
            pr = parse_regular(out)
            (CACHE / f"fail_{o.id.replace('/', '_')}.log").write_text(out)
            if pr["status"] == "ok" and not pr["unsat_covers"]:
                results[o.id] = dict(status="discharged", backend="kani/cbmc+cadical", time_s=r["time"], checks=r["checks"],
                                     covers=r["covers"], note="passed on individual re-run")
                continue
            cls = [(classify_failure(f), f) for f in pr["fails"]]
            if o.expect_panic:
                # the obligation is "every path ends in this panic of the library": that failed check is the expected outcome
                expected = [f for _, f in cls if re.search(o.expect_panic, f["desc"])]
                cls = [(c, f) for c, f in cls if not re.search(o.expect_panic, f["desc"])]
                if not cls and expected and not pr["undetermined"]:
                    results[o.id] = dict(status="discharged", backend="kani/cbmc+cadical", time_s=r["time"], checks=r["checks"], covers=r["covers"],
                                         note="the only failed check is the expected panic: " + expected[0]["desc"][:120])
                    continue
                if not cls:
                    why = "the expected panic of the library was not reported by the verifier"
                    undecided.append((o.id, why))
                    results[o.id] = dict(status="undecided", reason=why)
                    continue
            obs = [f for c, f in cls if c == "observable"]
            if o.only:
                # assertions of the shared harness that state another property's clause
                foreign = [f for f in obs if f["desc"].startswith("OBS ") and not re.search(o.only, f["desc"])]
                obs = [f for f in obs if f not in foreign]
                if foreign and not obs and not [1 for c, _ in cls if c != "observable"]:
                    results[o.id] = dict(status="discharged", backend="kani/cbmc+cadical", time_s=r["time"], checks=r["checks"],
                                         covers=r["covers"], note="only assertions belonging to other properties failed: "
                                         + "; ".join(sorted({f["desc"] for f in foreign}))[:300])
                    continue
            internal = [f for c, f in cls if c == "internal"]
            if not obs and internal and o.confirm:
                # representation obligation failed: look for an observable consequence
                cout = run_kani_single(o.features, o.confirm, timeout_s)
                cpr = parse_regular(cout)
                cobs = [f for f in cpr["fails"] if classify_failure(f) == "observable"]
                if cobs:
                    (CACHE / f"fail_{o.id.replace('/', '_')}.confirm.log").write_text(cout)
                    pr, out, obs = cpr, cout, cobs
                    o = registry.Obl(**{**o.__dict__, "target": o.confirm, "id": o.id})
            if not obs and not internal:
                why = "solver timeout / no result"
                if pr["unsat_covers"]:
                    why = "vacuous: cover not satisfied: " + "; ".join(c["desc"] for c in pr["unsat_covers"])
                elif any(c == "undecided" for c, _ in cls):
                    why = "unwinding assertion / unsupported construct: " + "; ".join(f["desc"] for c, f in cls if c == "undecided")[:300]
                elif any(c == "harness" for c, _ in cls):
                    why = "failure inside the harness's own code: " + "; ".join(f["desc"] + " @ " + f["loc"] for c, f in cls if c == "harness")[:300]
                elif pr["undetermined"]:
                    why = "undetermined checks: " + "; ".join(c["desc"] for c in pr["undetermined"])[:300]
                undecided.append((o.id, why))
                results[o.id] = dict(status="undecided", reason=why)
                continue
            if not obs and internal:
                why = "internal (representation) obligation failed without an observable one: " + "; ".join(f["desc"] for f in internal)[:300]
                undecided.append((o.id, why + " -- contract needs update or confirmation obligation"))
                results[o.id] = dict(status="undecided", reason=why)
                continue
            descs = sorted({f["desc"] for f in obs})
            k = match_known(known, prop, o.id, descs)
            if k:
                known_hit.append((o.id, k))
                results[o.id] = dict(status="known-finding", finding=k["id"], failed=descs)
                continue
            # violation: replay the counterexample on the real code
            test = None
            for t in pr["tests"]:
                if t["kind"] != "cover" and any(t["desc"] == f["desc"] for f in obs):
                    test = t
                    break
            if test is None:
                for t in pr["tests"]:
                    if t["kind"] != "cover":
                        test = t
                        break
            rdir = VERIF / "replays" / prop
            rdir.mkdir(parents=True, exist_ok=True)
            rpath = rdir / (o.id + ".json")
            rep = dict(property=prop, obligation=o.id, harness=o.target, features=o.features, backend="kani",
                       failed_checks=obs, functions=o.fns)
            suffix = ""
            if test is not None and o.no_playback:
                suffix = " no-failing-input-found"
                rep.update(inputs=decode_vals(test["text"]), note="not replayed natively: " + o.no_playback, verifier_output=out[-4000:])
                rpath.write_text(json.dumps(rep, indent=1))
            elif test is not None:
                rep.update(playback_test=test["text"], inputs=decode_vals(test["text"]),
                           replay_cmd=f"/verif/bin/check {prop} --replay {rpath}")
                pending_playback.append((o.target, test["text"], rep, rpath, len(violations)))
            else:
                suffix = " no-failing-input-found"
                rep["verifier_output"] = out[-4000:]
                rpath.write_text(json.dumps(rep, indent=1))
            violations.append(dict(obl=o.id, replay=str(rpath), suffix=suffix, descs=descs))
            results[o.id] = dict(status="violated", failed=descs, replay=str(rpath))

    # ---- replay all Kani counterexamples natively on the real code (one build) ----
    if pending_playback:
        by_feat = {}
        for item in pending_playback:
            by_feat.setdefault(item[2]["features"], []).append(item)
        for feats, items in by_feat.items():
            pb = native_playback_batch([(h, t) for h, t, _, _, _ in items], feats)
            for k, (h, t, rep, rpath, vi) in enumerate(items):
                ok, tail = pb.get(h + "|" + str(k), (False, "native playback produced no result"))
                rep.update(native_output=tail, reproduced_natively=ok)
                if not ok:
                    violations[vi]["suffix"] = " no-failing-input-found"
                    rep["note"] = "Kani produced a counterexample (inputs above) but the native playback did not panic"
                rpath.write_text(json.dumps(rep, indent=1))

    # ---- Verus units --------------------------------------------------------
    vobls = [o for o in obls if o.engine == "verus"]
    verus_info = {}
    if vobls:
        vres, verus_info = verus_run.run_units(REPO, VERIF, vobls)
        cmds.append("verus <unit extracted from /repo by tools/extract.py>.rs --output-json --time")
        for o in vobls:
            r = vres.get(o.id)
            if r is None:
                undecided.append((o.id, "verus unit did not report this function"))
                continue
            solver_s += r.get("time_s", 0.0)
            if r["status"] == "discharged":
                results[o.id] = r
            elif r["status"] == "undecided":
                undecided.append((o.id, r["reason"]))
                results[o.id] = r
            else:
                descs = r["failed"]
                k = match_known(known, prop, o.id, descs)
                if k:
                    known_hit.append((o.id, k))
                    results[o.id] = dict(status="known-finding", finding=k["id"], failed=descs)
                    continue
                rdir = VERIF / "replays" / prop
                rdir.mkdir(parents=True, exist_ok=True)
                rpath = rdir / (o.id + ".json")
                rep = dict(property=prop, obligation=o.id, backend="verus", failed_checks=descs,
                           verifier_output=r.get("output", ""), functions=o.fns,
                           note="Verus gives no counterexample")
                rpath.write_text(json.dumps(rep, indent=1))
                violations.append(dict(obl=o.id, replay=str(rpath), suffix=" no-failing-input-found", descs=descs))
                results[o.id] = dict(status="violated", failed=descs, replay=str(rpath))

    # ---- native concrete checks ----------------------------------------------
    nobls = [o for o in obls if o.engine == "native"]
    if nobls:
        import native_run
        nres = native_run.run(REPO, VERIF, CACHE, nobls)
        cmds.append("cargo test (concrete obligations, real code)")
        for o in nobls:
            r = nres.get(o.id)
            if r is None:
                undecided.append((o.id, "native check did not report"))
            elif r["status"] == "discharged":
                results[o.id] = r
            elif r["status"] == "undecided":
                undecided.append((o.id, r["reason"]))
                results[o.id] = r
            else:
                descs = r["failed"]
                k = match_known(known, prop, o.id, descs)
                if k:
                    known_hit.append((o.id, k))
                    results[o.id] = dict(status="known-finding", finding=k["id"], failed=descs)
                    continue
                rdir = VERIF / "replays" / prop
                rdir.mkdir(parents=True, exist_ok=True)
                rpath = rdir / (o.id + ".json")
                rpath.write_text(json.dumps(dict(property=prop, obligation=o.id, backend="native", failed_checks=descs,
                                                 native_output=r.get("output", ""), functions=o.fns), indent=1))
                violations.append(dict(obl=o.id, replay=str(rpath), suffix="", descs=descs))
                results[o.id] = dict(status="violated", failed=descs, replay=str(rpath))

    # ---- report --------------------------------------------------------------
    complete = [o for o in obls if o.kind == "complete"]
    bounded = [o for o in obls if o.kind == "bounded"]
    n_disch = sum(1 for o in complete if results.get(o.id, {}).get("status") == "discharged")
    n_bdisch = sum(1 for o in bounded if results.get(o.id, {}).get("status") == "discharged")
    fns = sorted({f for o in obls for f in o.fns})
    files = sorted({f for p in [json.loads(l) for l in (VERIF / "properties.jsonl").read_text().splitlines() if l.strip()]
                    if p["id"] == prop for f in p["anchors"]["files"]})
    samples = []
    for o in obls[:6]:
        samples.append(dict(obligation=o.id, engine=o.engine, target=o.target, kind=o.kind, bound=o.bound,
                            result=results.get(o.id, {}).get("status", "not-run")))
    assumptions = registry_assumptions(prop)
    # the level is the one claimed in MANIFEST.json (tools/propmeta.py): a property whose own functions are only covered by bounded
    # obligations stays "other" even if the callee contracts in its check are complete proofs
    try:
        import propmeta
        level = propmeta.META[prop]["category"]
    except Exception:
        level = "proof" if complete else "other"
    if level == "proof" and not complete:
        level = "other"
    ev = dict(
        property_id=prop, tier=tier, seed=seed, level=level,
        coverage=dict(
            explanation=("contract obligations discharged by a deductive/bit-precise verifier for all inputs within the stated bounds; "
                         "bounded obligations are listed separately and not counted as proved"),
            evaluations=len(obls), distinct_nontrivial=n_disch + n_bdisch,
            rule="one evaluation = one obligation (contract harness or Verus function) run by this check; non-trivial = discharged with its vacuity covers satisfied",
            obligations=len(complete), discharged=n_disch,
            checker_cmd=" ; ".join(sorted(set(cmds))),
            trusted_base=["rustc (Kani's pinned nightly) + Kani 0.68 + CBMC 6.11 + CaDiCaL", "Verus 0.2026.09.13 + Z3",
                          "ghost backends / abstract models / spec functions in /verif/contracts/src (self-tested, canaries)",
                          "extraction rewrites listed in DESIGN §2.4"],
            bounded_obligations=[dict(id=o.id, bound=o.bound, result=results.get(o.id, {}).get("status", "not-run")) for o in bounded],
            bounded_discharged=n_bdisch,
            functions_under_contract=fns,
            source_hashes={f: src_hash(f) for f in files},
            cbmc_checks=sum(r.get("checks", 0) for r in results.values()),
            solver_seconds=round(solver_s, 2),
            per_obligation={k: {kk: vv for kk, vv in v.items() if kk != "output"} for k, v in results.items()},
            undecided=[dict(obligation=a, reason=b) for a, b in undecided],
            known_findings_hit=[dict(obligation=a, finding=k["id"]) for a, k in known_hit],
            verus=verus_info,
            samples=samples,
            exhaustive=False,
            partial_run=bool(args.only),
        ),
        assumptions=assumptions,
        wall_s=round(time.time() - t_start, 2),
        violations=len(violations),
    )
    write_evidence(prop, ev)

    for a, k in known_hit:
        print(f"KNOWN-FINDING: property={prop} {a} {k['what']}")
    for v in violations:
        print(f"VIOLATION property={prop} replay={v['replay']}{v['suffix']}")
        log("  failed: " + " | ".join(v["descs"])[:600])
    log(f"{prop} [{tier}]: {n_disch}/{len(complete)} complete obligations discharged, "
        f"{n_bdisch}/{len(bounded)} bounded, {len(undecided)} undecided, {len(violations)} violated, "
        f"{len(known_hit)} known findings; solver {solver_s:.1f}s wall {time.time() - t_start:.1f}s")
    if violations:
        sys.exit(1)
    if undecided:
        for a, b in undecided:
            log(f"UNDECIDED {a}: {b}")
        sys.exit(2)
    sys.exit(0)


def registry_assumptions(prop):
    p = VERIF / "tools" / "assumptions.json"
    base = []
    if p.exists():
        j = json.loads(p.read_text())
        base = j.get("all", []) + j.get(prop, [])
    # mechanical scan of the harness crate for assumes outside preconditions and for stubs
    scan = []
    used = {"obl_" + m[2:] + ".rs" for m in MODULE_FEATURES} | ({"obl_codes.rs"} if "m_golomb" in MODULE_FEATURES else set())
    for f in sorted((CONTRACTS / "src").glob("*.rs")):
        if f.name.startswith("obl_") and f.name not in used:
            continue
        txt = f.read_text()
        for m in re.finditer(r"#\[kani::stub\(([^)]*)\)\]", txt):
            scan.append(f"kani::stub in {f.name}: {m.group(1).strip()}")
    return base + sorted(set(scan))


if __name__ == "__main__":
    main()
