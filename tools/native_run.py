"""Concrete native obligations: cargo test targets in /verif/contracts/tests run on the real code.
An obligation's target is '<test file stem>:<test fn name>'."""
import os, re, subprocess, time


def run(repo, verif, cache, obls):
    by_file = {}
    for o in obls:
        f, t = o.target.split(":")
        by_file.setdefault(f, []).append((o, t))
    res = {}
    env = dict(os.environ, CARGO_TARGET_DIR=str(cache / "native"), CARGO_NET_OFFLINE="true", RUSTFLAGS="--cfg dsi_bitstream_verif",
               RUST_BACKTRACE="0")
    for f, items in by_file.items():
        t0 = time.time()
        p = subprocess.run(["cargo", "test", "--offline", "--test", f, "--", "--test-threads", "4"], cwd=verif / "contracts", env=env,
                           stdout=subprocess.PIPE, stderr=subprocess.STDOUT, text=True)
        out = p.stdout
        wall = time.time() - t0
        if "error: could not compile" in out or ("test result:" not in out):
            for o, t in items:
                res[o.id] = dict(status="undecided", reason="native test target does not build/run: " + out[-800:])
            continue
        for o, t in items:
            m = re.search(r"^test %s \.\.\. (\w+)" % re.escape(t), out, re.M)
            if not m:
                res[o.id] = dict(status="undecided", reason=f"test {t} not found in {f}")
            elif m.group(1) == "ok":
                res[o.id] = dict(status="discharged", backend="native execution (concrete)", time_s=round(wall / len(items), 2))
            else:
                mm = re.search(r"---- %s stdout ----\n(.*?)(?:\n\n|\nfailures:)" % re.escape(t), out, re.S)
                msg = (mm.group(1).strip() if mm else "test failed")[:600]
                first = msg.splitlines()[1] if len(msg.splitlines()) > 1 else msg
                res[o.id] = dict(status="violated", failed=[first.strip()[:300]], output=msg)
    return res
