#!/usr/bin/env python3
"""Build the framework offline: the native self-test of the spec, then a warm Kani build
(kani-compiler output) of the modules each property's quick check needs."""
import os, subprocess, sys
from pathlib import Path
VERIF = Path(__file__).resolve().parent.parent
sys.path.insert(0, str(VERIF / "tools"))
import check, registry
check.CACHE.mkdir(exist_ok=True)
check.prepare_contracts()
rc = 0
env = dict(os.environ, CARGO_TARGET_DIR=str(check.CACHE / "native"), CARGO_NET_OFFLINE="true", RUSTFLAGS="--cfg dsi_bitstream_verif")
p = subprocess.run(["cargo", "test", "--offline", "--lib"], cwd=check.CONTRACTS, env=env, stdout=subprocess.PIPE, stderr=subprocess.STDOUT, text=True)
ok = "test result: ok" in p.stdout
print("spec self-test:", "ok" if ok else "FAILED")
if not ok:
    print(p.stdout[-3000:])
    rc = 1
if "--no-warm" not in sys.argv:
    for prop in registry.PROPERTIES:
        obls = [o for o in registry.for_property(prop, "quick") if o.engine == "kani"]
        for feats in sorted({o.features for o in obls}):
            grp = [o for o in obls if o.features == feats]
            check.set_build(prop, [o.target for o in grp] + [o.confirm for o in grp])
            cmd = check.kani_base(feats) + ["--only-codegen", "--exact", "--harness", grp[0].target]
            p = subprocess.run(cmd, cwd=check.CONTRACTS, env=check.KANI_ENV, stdout=subprocess.PIPE, stderr=subprocess.STDOUT, text=True)
            print(f"kani build {prop} [{feats or 'default'}] modules={check.MODULE_FEATURES}: rc={p.returncode}", flush=True)
            if p.returncode != 0:
                print(p.stdout[-2000:])
                rc = 1
sys.exit(rc)
