#!/usr/bin/env python3
import os, subprocess, sys
from pathlib import Path
VERIF = Path(__file__).resolve().parent.parent
sys.path.insert(0, str(VERIF / "tools"))
import check
check.CACHE.mkdir(exist_ok=True)
check.prepare_contracts()
rc = 0
for feats in ["", "checks"]:
    cmd = check.kani_base(feats) + ["--only-codegen"]
    p = subprocess.run(cmd, cwd=check.CONTRACTS, env=check.KANI_ENV, stdout=subprocess.PIPE, stderr=subprocess.STDOUT, text=True)
    print(f"kani codegen [{feats or 'default'}]: rc={p.returncode}")
    if p.returncode != 0:
        print(p.stdout[-3000:])
        rc = 1
sys.exit(rc)
