#!/usr/bin/env python3
"""Engine C: build Verus units from /repo's *current* source text and run Verus.

A unit is a template /verif/verus/units/<unit>.rs containing ordinary Verus code
(prelude, spec functions, lemmas, trait declarations carrying the contracts of
DESIGN §2.1) plus directive blocks that pull the *real* text of a function out of
/repo on every run:

    //@FN file=<path under /repo> item=<regex matching the line that opens the enclosing item, or -> name=<fn name> [occurrence=<k>]
    //@SIG <the Verus signature, e.g. `fn next(&mut self) -> (r: Option<(u64, usize)>)`>
    //@SPEC <requires / ensures / decreases clauses (any number of //@SPEC lines)>
    //@LOOP <k> <invariant / decreases clauses for the k-th loop of the body (1-based)>
    //@PROOF after=<<literal anchor text found in the body>> <proof block inserted after the statement containing the anchor>
    //@REPLACE <<literal old>> => <<literal new>>      (a listed, unit-specific rewrite; recorded in the evidence)
    //@END

The body between the function's braces is copied verbatim and then passed through
the global rewrites of DESIGN §2.4 (all mechanical, all recorded):
  R1 strip doc comments and #[inline..]/#[must_use]/#[allow(..)] attributes
  R2 resolve #[cfg(feature = "checks")] / #[cfg(not(feature = "checks"))] blocks for the configuration verified; drop #[cfg(test)] blocks
  R3 rename the identifier λ to lambda
  R4 debug_assert!(c, ..) / debug_assert_ne!(a, b) -> assert(c) (kept as a proof obligation, message dropped)
  R5 core::any::TypeId::of::<E>() == core::any::TypeId::of::<LE>() -> E::is_little()
The parameter list of the real signature is compared (after whitespace
normalisation and R3) with the one in //@SIG; a drift is an error (exit 2 upstream).
"""
import hashlib
import json
import os
import re
import shutil
import subprocess
import tempfile
import time
from pathlib import Path


class ExtractError(Exception):
    pass


# --------------------------------------------------------------------------
# locating items
# --------------------------------------------------------------------------

def _match_brace(src, open_idx):
    """index of the brace matching src[open_idx] == '{' (skips strings, chars, comments)"""
    assert src[open_idx] == "{"
    depth = 0
    i = open_idx
    n = len(src)
    while i < n:
        c = src[i]
        if c == "/" and src.startswith("//", i):
            i = src.index("\n", i) if "\n" in src[i:] else n
            continue
        if c == "/" and src.startswith("/*", i):
            i = src.index("*/", i) + 2
            continue
        if c == '"':
            i += 1
            while src[i] != '"':
                if src[i] == "\\":
                    i += 1
                i += 1
            i += 1
            continue
        if c == "'":
            # char literal or lifetime
            m = re.match(r"'(\\.|[^\\'])'", src[i:])
            if m:
                i += m.end()
                continue
            i += 1
            continue
        if c == "{":
            depth += 1
        elif c == "}":
            depth -= 1
            if depth == 0:
                return i
        i += 1
    raise ExtractError("unbalanced braces")


def find_fn(src, item_re, name, occurrence=1):
    """Return (signature_text, body_text) of fn `name` inside the item whose header matches item_re ('-' = file scope)."""
    if item_re != "-":
        ms = list(re.finditer(item_re, src, re.M))
        if not ms:
            raise ExtractError(f"lost anchor: item /{item_re}/ not found")
        m = ms[0]
        ob = src.index("{", m.end() - 1) if src[m.end() - 1] != "{" else m.end() - 1
        ob = src.index("{", m.start())
        # the item header may contain where-clauses: find the first '{' after the header line(s)
        ob = src.index("{", m.end() - 1)
        cb = _match_brace(src, ob)
        scope = src[ob + 1:cb]
    else:
        scope = src
    fm = list(re.finditer(r"\bfn\s+%s\b" % re.escape(name), scope))
    if len(fm) < occurrence:
        raise ExtractError(f"lost anchor: fn {name} (occurrence {occurrence}) not found in item /{item_re}/")
    f = fm[occurrence - 1]
    ob = scope.index("{", f.end())
    # skip where clauses containing braces? (none in this code base)
    cb = _match_brace(scope, ob)
    return scope[f.start():ob].strip(), scope[ob + 1:cb]


# --------------------------------------------------------------------------
# rewrites
# --------------------------------------------------------------------------

def _strip_cfg_blocks(body, checks):
    """R2: resolve cfg(feature = "checks") blocks/statements."""
    out = body
    changed = True
    while changed:
        changed = False
        m = re.search(r'#\[cfg\((not\()?feature = "checks"\)?\)\]\s*', out)
        if m:
            neg = m.group(1) is not None
            keep = (checks and not neg) or (not checks and neg)
            j = m.end()
            # the guarded thing: a block `{...}` or a statement ending in ';'
            if out[j] == "{":
                e = _match_brace(out, j)
                inner = out[j:e + 1]
                out = out[:m.start()] + (inner if keep else "") + out[e + 1:]
            else:
                # statement (may contain nested parens/braces): scan to ';' at depth 0
                depth = 0
                k = j
                while True:
                    c = out[k]
                    if c in "([{":
                        depth += 1
                    elif c in ")]}":
                        depth -= 1
                    elif c == ";" and depth == 0:
                        break
                    elif c == '"':
                        k += 1
                        while out[k] != '"':
                            if out[k] == "\\":
                                k += 1
                            k += 1
                    k += 1
                stmt = out[j:k + 1]
                out = out[:m.start()] + (stmt if keep else "") + out[k + 1:]
            changed = True
            continue
        m = re.search(r"#\[cfg\(test\)\]\s*", out)
        if m:
            j = m.end()
            # `if cond { ... }` statement or block
            ob = out.index("{", j)
            e = _match_brace(out, ob)
            out = out[:m.start()] + out[e + 1:]
            changed = True
    return out


def _macro_args(s, start):
    """s[start] == '(' : return (args_text, end_index_after_paren)"""
    depth = 0
    i = start
    while True:
        c = s[i]
        if c == '"':
            i += 1
            while s[i] != '"':
                if s[i] == "\\":
                    i += 1
                i += 1
        elif c in "([{":
            depth += 1
        elif c in ")]}":
            depth -= 1
            if depth == 0:
                return s[start + 1:i], i + 1
        i += 1


def _first_arg(args, n=1):
    """split top-level commas; return the first n args"""
    parts, depth, cur = [], 0, ""
    i = 0
    while i < len(args):
        c = args[i]
        if c == '"':
            j = i + 1
            while args[j] != '"':
                if args[j] == "\\":
                    j += 1
                j += 1
            cur += args[i:j + 1]
            i = j + 1
            continue
        if c in "([{":
            depth += 1
        elif c in ")]}":
            depth -= 1
        if c == "," and depth == 0:
            parts.append(cur.strip())
            cur = ""
        else:
            cur += c
        i += 1
    if cur.strip():
        parts.append(cur.strip())
    return parts[:n]


def global_rewrites(body, checks, log):
    b = body
    # R1
    n = len(re.findall(r"^\s*///.*$", b, re.M))
    b = re.sub(r"^\s*///.*\n", "", b, flags=re.M)
    b = re.sub(r"^\s*#\[(inline(\(always\))?|must_use|allow\([^\]]*\))\]\s*\n", "", b, flags=re.M)
    # R2
    b2 = _strip_cfg_blocks(b, checks)
    if b2 != b:
        log.append(f"R2 cfg(feature=\"checks\") resolved for checks={'on' if checks else 'off'}")
    b = b2
    # R3
    if "λ" in b:
        b = b.replace("λ", "lambda")
        log.append("R3 λ -> lambda")
    # R4
    for mac, arity in (("debug_assert_ne!", 2), ("debug_assert!", 1)):
        while True:
            i = b.find(mac)
            if i < 0:
                break
            args, end = _macro_args(b, i + len(mac))
            a = _first_arg(args, arity)
            rep = f"assert({a[0]})" if arity == 1 else f"assert({a[0]} != {a[1]})"
            b = b[:i] + rep + b[end:]
            log.append(f"R4 {mac}(..) -> {rep}")
    # plain assert!(c) -> assert(c) (Verus' exec assert is a proof obligation too)
    while True:
        m = re.search(r"\bassert!\(", b)
        if not m:
            break
        args, end = _macro_args(b, m.end() - 1)
        a = _first_arg(args, 1)
        b = b[:m.start()] + f"assert({a[0]})" + b[end:]
        log.append(f"R4 assert!(..) -> assert({a[0]})")
    # R6
    b = rewrite_map_err(b, log)
    # R5
    pat = r"(core::any::)?TypeId::of::<(\w+)>\(\)\s*==\s*(core::any::)?TypeId::of::<(LE|LittleEndian)>\(\)"
    if re.search(pat, b):
        b = re.sub(pat, r"\2::is_little()", b)
        log.append("R5 TypeId::of::<E>() == TypeId::of::<LE>() -> E::is_little()")
    pat = r"(core::any::)?TypeId::of::<(\w+)>\(\)\s*==\s*(core::any::)?TypeId::of::<(BE|BigEndian)>\(\)"
    if re.search(pat, b):
        b = re.sub(pat, r"!\2::is_little()", b)
        log.append("R5 TypeId::of::<E>() == TypeId::of::<BE>() -> !E::is_little()")
    return b


def _loops(body):
    """positions (start index of keyword, index of the '{' opening the loop body) of loops in order"""
    res = []
    i = 0
    n = len(body)
    while i < n:
        if body.startswith("//", i):
            j = body.find("\n", i)
            i = n if j < 0 else j
            continue
        if body[i] == '"':
            i += 1
            while body[i] != '"':
                if body[i] == "\\":
                    i += 1
                i += 1
            i += 1
            continue
        m = re.match(r"\b(loop|while|for)\b", body[i:])
        if m and (i == 0 or not (body[i - 1].isalnum() or body[i - 1] == "_")):
            # find the '{' of the loop body: first '{' at paren depth 0 after the keyword
            depth = 0
            k = i + m.end()
            while True:
                c = body[k]
                if c in "([":
                    depth += 1
                elif c in ")]":
                    depth -= 1
                elif c == "{" and depth == 0:
                    break
                k += 1
            res.append((i, k))
            i = k + 1
            continue
        i += 1
    return res


def norm_params(sig):
    m = re.search(r"\((.*)\)", sig, re.S)
    inner = sig[sig.index("(") + 1:]
    # parameter list = up to the matching ')'
    depth = 1
    out = ""
    for c in inner:
        if c == "(":
            depth += 1
        elif c == ")":
            depth -= 1
            if depth == 0:
                break
        out += c
    out = re.sub(r"\bmut\s+", "", out)
    return re.sub(r"\s+", "", out.replace("λ", "lambda")).rstrip(",")


def preprocess(template: Path, checks, defs=None):
    """expand //@INJECT ... //@ENDINJECT blocks into the //@HOOK points of //@INCLUDEd files;
    `defs` instantiates {{NAME}} placeholders of a unit template (word-type instantiation)"""
    txt = template.read_text()
    for k, v in (defs or {}).items():
        txt = txt.replace("{{" + k + "}}", v)
    # CHECKS_PRE(value, n): the extra precondition of write_bits in the `checks` configuration
    txt = re.sub(r"CHECKS_PRE\((\w+), (\w+)\)", (lambda m: f"({m.group(1)} as nat) < pow2({m.group(2)} as nat),") if checks else "", txt)
    if "{{" in txt and "}}" in txt:
        m = re.search(r"\{\{(\w+)\}\}", txt)
        if m:
            raise ExtractError(f"unit template parameter {m.group(1)} not instantiated")
    raw = txt.splitlines()
    inject, lines, i = {}, [], 0
    while i < len(raw):
        l = raw[i]
        if l.strip().startswith("//@INJECT"):
            name = l.split()[1]
            i += 1
            blk = []
            while not raw[i].strip().startswith("//@ENDINJECT"):
                blk.append(raw[i])
                i += 1
            inject.setdefault(name, []).extend(blk)
        else:
            lines.append(l)
        i += 1
    def include(path, depth=0):
        if depth > 4:
            raise ExtractError("include nesting too deep")
        inc = path.read_text()
        for k, v in (defs or {}).items():
            inc = inc.replace("{{" + k + "}}", v)
        inc = inc.replace("CHECKS_PRE_WRITE_BITS", "(value as nat) < pow2(n as nat)," if checks else "")
        res = []
        for il in inc.splitlines():
            if il.strip().startswith("//@HOOK"):
                res.extend(inject.get(il.split()[1], []))
            elif il.strip().startswith("//@INCLUDE"):
                res.extend(include(template.parent / il.split()[1], depth + 1))
            else:
                res.append(il)
        return res

    out = []
    for l in lines:
        if l.strip().startswith("//@INCLUDE"):
            out.extend(include(template.parent / l.split()[1]))
        else:
            out.append(l)
    return out


def rewrite_map_err(body, log):
    """R6: `EXPR.map_err(CTOR)?` -> `match EXPR { Ok(v) => v, Err(e) => return Err(CTOR(e)) }`
    (the definition of `?` composed with map_err; Verus has no spec for map_err with a constructor path)."""
    while True:
        m = re.search(r"\.\s*map_err\(\s*([A-Za-z_][\w:]*)\s*\)\s*\?", body)
        if not m:
            return body
        # receiver: scan backwards to the start of the expression
        k = m.start() - 1
        depth = 0
        while k >= 0:
            c = body[k]
            if c == "}" and depth == 0 and "\n" in body[k:m.start()] and body[k + 1:m.start()].lstrip().startswith(("bit_write", "self", "backend", "bit_read")):
                # a block that ended on an earlier line is a statement boundary, not part of the receiver
                break
            if c in ")]}":
                depth += 1
            elif c in "([{":
                if depth == 0:
                    break
                depth -= 1
            elif depth == 0 and (c in ";=,|"):
                break
            k -= 1
        recv = body[k + 1:m.start()]
        lead = recv[:len(recv) - len(recv.lstrip())]
        recv_n = re.sub(r"\s+", " ", recv.strip()).replace(" .", ".")
        rep = f"{lead}(match {recv_n} {{ Ok(v) => v, Err(e) => {{ return Err({m.group(1)}(e)); }} }})"
        body = body[:k + 1] + rep + body[m.end():]
        log.append(f"R6 `{recv_n}.map_err({m.group(1)})?` -> match/return desugaring")


def build_unit(repo: Path, template: Path, checks=False, defs=None):
    """Return (unit_text, info) with info = {functions: [...], rewrites: [...]}"""
    lines = preprocess(template, checks, defs)
    out = []
    info = dict(functions=[], rewrites=[], template=str(template))
    i = 0
    while i < len(lines):
        ln = lines[i]
        if ln.strip().startswith("//@ITEM"):
            kv = dict(re.findall(r"(\w+)=((?:/[^/]*/)|\S+)", ln.split("//@ITEM", 1)[1]))
            src_path = repo / kv["file"]
            if not src_path.exists():
                raise ExtractError(f"lost anchor: {kv['file']} does not exist")
            src = src_path.read_text()
            m = re.search(kv["item"][1:-1], src, re.M)
            if not m:
                raise ExtractError(f"lost anchor: item {kv['item']} not found in {kv['file']}")
            ob = src.index("{", m.end() - 1)
            cb = _match_brace(src, ob)
            item_text = src[m.start():cb + 1]
            item_text = re.sub(r"^\s*///.*\n", "", item_text, flags=re.M)
            out.append(f"// ---- item copied from {kv['file']} ----")
            out.append(item_text)
            info["functions"].append(dict(file=kv["file"], item=kv["item"], name="(item)", sha256=hashlib.sha256(item_text.encode()).hexdigest()[:16]))
            i += 1
            continue
        if ln.strip().startswith("//@FIELDS"):
            # a restated struct declaration: every listed `field: type` must be in the real declaration
            kv = dict(re.findall(r"(\w+)=((?:/[^/]*/)|\S+)", re.split(r"<<|\[\[", ln.split("//@FIELDS", 1)[1], 1)[0]))
            src_path = repo / kv["file"]
            if not src_path.exists():
                raise ExtractError(f"lost anchor: {kv['file']} does not exist")
            src = src_path.read_text()
            m = re.search(kv["item"][1:-1], src, re.M)
            if not m:
                raise ExtractError(f"lost anchor: item {kv['item']} not found in {kv['file']}")
            ob = src.index("{", m.end() - 1)
            item_text = src[m.start():_match_brace(src, ob) + 1]
            flds = re.findall(r"\[\[(.*?)\]\]", ln) or re.findall(r"<<(.*?)>>", ln)
            for fld in flds:
                if not re.search(r"\b" + re.escape(fld) + r"\s*,", item_text):
                    raise ExtractError(f"lost anchor: field `{fld}` not in {kv['item']} of {kv['file']}")
            info["rewrites"].append(f"{kv['file']}: struct declaration restated with the fields " + ", ".join(flds) + " (checked against the real declaration; other generic parameters and marker fields dropped)")
            i += 1
            continue
        if not ln.strip().startswith("//@FN"):
            out.append(ln)
            i += 1
            continue
        kv = dict(re.findall(r"(\w+)=((?:/[^/]*/)|\S+)", ln.split("//@FN", 1)[1]))
        file = kv["file"]
        item = kv.get("item", "-")
        if item.startswith("/") and item.endswith("/"):
            item = item[1:-1]
        name = kv["name"]
        occ = int(kv.get("occurrence", "1"))
        sig, specs, loops, proofs, repls, prologue, loopends, repls_re, insts, epilogue, attrs, sigdrops, callsubs = None, [], {}, [], [], [], {}, [], [], [], [], [], []
        i += 1
        while not lines[i].strip().startswith("//@END"):
            l = lines[i].strip()
            # configuration qualifier: //@PROOF[checks] ... applies only when verifying the `checks` configuration
            mq = re.match(r"(//@\w+)\[(checks|nochecks)\](.*)", l)
            if mq:
                if (mq.group(2) == "checks") != bool(checks):
                    i += 1
                    continue
                l = mq.group(1) + mq.group(3)
            if l.startswith("//@SIG") and not l.startswith("//@SIGDROP"):
                sig = l[len("//@SIG"):].strip()
            elif l.startswith("//@SPEC"):
                specs.append(l[len("//@SPEC"):].rstrip())
            elif l.startswith("//@LOOP") and not l.startswith("//@LOOPEND"):
                m = re.match(r"//@LOOP\s+(\d+)\s+(.*)", l)
                loops.setdefault(int(m.group(1)), []).append(m.group(2))
            elif l.startswith("//@PROLOGUE"):
                prologue.append(l[len("//@PROLOGUE"):].strip())
            elif l.startswith("//@SIGDROP"):
                # text dropped from the real signature before it is compared with //@SIG (e.g. a marker type parameter)
                sigdrops.append(re.match(r"//@SIGDROP\s+<<(.*?)>>", l).group(1))
            elif l.startswith("//@CALLSUB"):
                m = re.match(r"//@CALLSUB\s+<<(.*?)>>\s*=>\s*<<(.*?)>>", l)
                callsubs.append((m.group(1), m.group(2)))
            elif l.startswith("//@ATTR"):
                attrs.append(l[len("//@ATTR"):].strip())
            elif l.startswith("//@EPILOGUE"):
                epilogue.append(l[len("//@EPILOGUE"):].strip())
            elif l.startswith("//@PROOF"):
                m = re.match(r"//@PROOF\s+after=(?:<<(.*?)>>|\[\[(.*?)\]\])(?:#(\d+))?\s+(.*)", l)
                proofs.append((m.group(1) if m.group(1) is not None else m.group(2), m.group(4), int(m.group(3) or 1)))
            elif l.startswith("//@REPLACE_RE"):
                m = re.match(r"//@REPLACE_RE\s+\[\[(.*?)\]\]\s*=>\s*\[\[(.*?)\]\]", l) or re.match(r"//@REPLACE_RE\s+<<(.*?)>>\s*=>\s*<<(.*?)>>", l)
                repls_re.append((m.group(1), m.group(2)))
            elif l.startswith("//@LOOPEND"):
                m = re.match(r"//@LOOPEND\s+(\d+)\s+(.*)", l)
                loopends.setdefault(int(m.group(1)), []).append(m.group(2))
            elif l.startswith("//@INST"):
                # word-type instantiation: applied in order, where present (absence is not an error)
                m = re.match(r"//@INST\s+<<(.*?)>>\s*=>\s*<<(.*?)>>", l)
                insts.append((m.group(1), m.group(2)))
            elif l.startswith("//@REPLACE"):
                m = re.match(r"//@REPLACE\s+\[\[(.*?)\]\]\s*=>\s*\[\[(.*?)\]\]", l) or re.match(r"//@REPLACE\s+<<(.*?)>>\s*=>\s*<<(.*?)>>", l)
                repls.append((m.group(1), m.group(2)))
            elif l.startswith("//@"):
                raise ExtractError(f"unknown directive: {l}")
            i += 1
        i += 1  # skip //@END
        src_path = repo / file
        if not src_path.exists():
            raise ExtractError(f"lost anchor: {file} does not exist")
        src = src_path.read_text()
        real_sig, body = find_fn(src, item, name, occ)
        log = []
        for sd in sigdrops:
            if sd in real_sig:
                real_sig = real_sig.replace(sd, "")
                log.append(f"signature: `{sd}` dropped (parameter not modelled)")
        if norm_params(real_sig) != norm_params(sig):
            raise ExtractError(f"signature drift for {file}::{name}: real `{norm_params(real_sig)}` vs contract `{norm_params(sig)}`")
        body = global_rewrites(body, checks, log)
        for fn_name, new in callsubs:
            # replace every call `fn_name(<balanced arguments>)` (e.g. the construction of an error value) by `new`
            cnt = 0
            while True:
                k = body.find(fn_name + "(")
                if k < 0:
                    break
                ob = k + len(fn_name)
                depth, e = 0, ob
                while True:
                    ch = body[e]
                    if ch == "(":
                        depth += 1
                    elif ch == ")":
                        depth -= 1
                        if depth == 0:
                            break
                    e += 1
                body = body[:k] + new + body[e + 1:]
                cnt += 1
            if cnt:
                log.append(f"call substitution: `{fn_name}(..)` -> `{new}` ({cnt}x; arguments dropped: message text only)")
        for old, new in insts:
            if old in body:
                body = body.replace(old, new)
                log.append(f"instantiation: `{old}` -> `{new}`")
        for old, new in repls:
            if old not in body:
                raise ExtractError(f"lost anchor: REPLACE text `{old}` not in {file}::{name}")
            body = body.replace(old, new)
            log.append(f"unit-specific: `{old}` -> `{new}`")
        for pat, new in repls_re:
            body2, nsub = re.subn(pat, new, body)
            if nsub == 0:
                raise ExtractError(f"lost anchor: REPLACE_RE /{pat}/ matches nothing in {file}::{name}")
            body = body2
            log.append(f"unit-specific (regex): /{pat}/ -> `{new}` ({nsub}x)")
        # proof text at the end of loop bodies (from the last loop to the first)
        lp = _loops(body)
        for k in sorted(loopends, reverse=True):
            if k > len(lp):
                raise ExtractError(f"lost anchor: loop {k} of {file}::{name} (found {len(lp)} loops)")
            _, ob = lp[k - 1]
            cb = _match_brace(body, ob)
            body = body[:cb] + "    " + "\n        ".join(loopends[k]) + "\n        " + body[cb:]
        # loop annotations (from the last loop to the first so that indices stay valid)
        lp = _loops(body)
        for k in sorted(loops, reverse=True):
            if k > len(lp):
                raise ExtractError(f"lost anchor: loop {k} of {file}::{name} (found {len(lp)} loops)")
            _, ob = lp[k - 1]
            body = body[:ob] + "\n" + "\n".join("            " + c for c in loops[k]) + "\n        " + body[ob:]
        unannotated = len(lp) - len(loops)
        for anchor, text, nth in proofs:
            idx = -1
            for _ in range(nth):
                idx = body.find(anchor, idx + 1)
                if idx < 0:
                    break
            if idx < 0:
                raise ExtractError(f"lost anchor: PROOF anchor `{anchor}` (occurrence {nth}) not in {file}::{name}")
            # end of the statement containing the anchor
            depth, k = 0, idx
            while True:
                c = body[k]
                if c in "([{":
                    depth += 1
                elif c in ")]}":
                    depth -= 1
                elif c == ";" and depth <= 0:
                    break
                k += 1
            body = body[:k + 1] + "\n        " + text + body[k + 1:]
        if epilogue:
            # before the tail expression of the function (its last non-blank line; no anchor in the text needed)
            bl = body.rstrip().split("\n")
            tail = bl[-1]
            if tail.rstrip().endswith(";") or tail.rstrip().endswith("}"):
                raise ExtractError(f"lost anchor: {file}::{name} does not end with a one-line tail expression (EPILOGUE)")
            body = "\n".join(bl[:-1]) + "\n        " + "\n        ".join(epilogue) + "\n" + tail + "\n    "
        out.append(f"// ---- extracted from {file} :: {name} (sha256 of source text {hashlib.sha256(body.encode()).hexdigest()[:12]}) ----")
        out.extend(attrs)
        out.append(sig)
        out.extend(specs)
        out.append("{" + ("\n        " + "\n        ".join(prologue) if prologue else "") + body + "}")
        info["functions"].append(dict(file=file, item=item, name=name, sha256=hashlib.sha256((real_sig + body).encode()).hexdigest()[:16],
                                      loops=len(lp), loops_unannotated=unannotated))
        info["rewrites"].extend(f"{file}::{name}: {r}" for r in log)
    return "\n".join(out) + "\n", info


# --------------------------------------------------------------------------
# running Verus
# --------------------------------------------------------------------------

def run_verus(unit_path: Path, timeout=600):
    t0 = time.time()
    p = subprocess.run(["verus", str(unit_path), "--output-json", "--time", "--multiple-errors", "20", "--rlimit", "40"], stdout=subprocess.PIPE, stderr=subprocess.PIPE, text=True,
                       timeout=timeout)
    wall = time.time() - t0
    js = None
    try:
        js = json.loads(p.stdout[p.stdout.index("{"):])
    except Exception:
        pass
    return p.returncode, js, p.stderr, wall


def fn_at_line(unit_text, line):
    """name of the fn enclosing `line` (1-based)"""
    name = None
    for k, l in enumerate(unit_text.splitlines(), 1):
        m = re.match(r"\s*(?:pub\s+)?(?:open\s+|closed\s+)?(?:proof\s+|spec\s+|exec\s+)?fn\s+(\w+)", l)
        if m:
            name = m.group(1)
        if k >= line:
            break
    return name


def run_units(repo, verif, obls):
    """obls: verus obligations with target '<unit>:<function>' (function '*' = whole unit).
    Returns ({obl id: result}, info)."""
    repo, verif = Path(repo), Path(verif)
    by_unit = {}
    for o in obls:
        unit, fn = o.target.split(":")
        by_unit.setdefault((unit, o.features), []).append((o, fn))
    results, infos = {}, {}
    scratch = Path(tempfile.mkdtemp(prefix="verif_verus_"))
    def one(unit, feats, items):
        checks = "checks" in feats
        base, defs = unit, None
        if "@" in unit:
            base, ds = unit.split("@", 1)
            defs = dict(kv.split("=", 1) for kv in ds.split(";"))
        tmpl = verif / "verus" / "units" / f"{base}.rs"
        try:
            text, info = build_unit(repo, tmpl, checks, defs)
        except ExtractError as e:
            for o, fn in items:
                results[o.id] = dict(status="undecided", reason=f"extraction: {e}")
            return
        up = scratch / (re.sub(r"[^A-Za-z0-9_]", "_", unit) + ("_checks" if checks else "") + ".rs")
        up.write_text(text)
        keep = os.environ.get("VERIF_KEEP_UNITS")
        if keep:
            Path(keep).mkdir(parents=True, exist_ok=True)
            shutil.copy(up, Path(keep) / up.name)
        try:
            rc, js, err, wall = run_verus(up)
        except subprocess.TimeoutExpired:
            for o, fn in items:
                results[o.id] = dict(status="undecided", reason="verus timeout")
            return
        vr = (js or {}).get("verification-results", {})
        info.update(verified=vr.get("verified"), errors=vr.get("errors"), wall_s=round(wall, 2),
                    smt_ms=(js or {}).get("times-ms", {}).get("smt", {}).get("total") if js else None,
                    assumptions=scan_assumptions(text))
        infos[unit + ("+checks" if checks else "")] = info
        if js is None or vr.get("encountered-vir-error") or (rc != 0 and not vr):
            msg = (err or "")[-1500:]
            for o, fn in items:
                results[o.id] = dict(status="undecided", reason="verus did not verify the unit (syntax/mode error or crash): " + msg)
            return
        # map errors to functions
        failed = {}
        for m in re.finditer(r"^(error[^\n]*)\n\s*--> [^\n:]*:(\d+):\d+", err, re.M):
            fnn = fn_at_line(text, int(m.group(2)))
            failed.setdefault(fnn, []).append(m.group(1).strip())
        rlimit = "Resource limit (rlimit) exceeded" in err or "rlimit" in err.lower()
        per_fn_time = wall / max(1, len(items))
        for o, fn in items:
            if fn == "*":
                fl = [f"{k}: {x}" for k, v in failed.items() for x in v]
            else:
                fl = failed.get(fn, [])
            if not fl and (vr.get("errors", 0) == 0 or fn != "*"):
                if fn != "*" and not re.search(r"\bfn\s+%s\b" % re.escape(fn), text):
                    results[o.id] = dict(status="undecided", reason=f"function {fn} not present in unit {unit}")
                else:
                    results[o.id] = dict(status="discharged", backend="verus/z3", time_s=round(per_fn_time, 2), unit=unit)
            elif all("rlimit" in x.lower() or "resource limit" in x.lower() for x in fl):
                results[o.id] = dict(status="undecided", reason="verus resource limit: " + "; ".join(fl)[:300])
            else:
                # extract the diagnostic block(s) for the replay file
                blocks = []
                for m in re.finditer(r"^error[^\n]*\n(?:[^\n]*\n){0,14}", err, re.M):
                    mm = re.search(r"--> [^\n:]*:(\d+):", m.group(0))
                    if mm and (fn == "*" or fn_at_line(text, int(mm.group(1))) == fn):
                        blocks.append(m.group(0))
                results[o.id] = dict(status="violated", failed=sorted(set(fl)), output="\n".join(blocks)[:4000], unit=unit)

    try:
        from concurrent.futures import ThreadPoolExecutor
        with ThreadPoolExecutor(max_workers=int(os.environ.get('VERIF_VERUS_JOBS', '8'))) as ex:
            list(ex.map(lambda kv: one(kv[0][0], kv[0][1], kv[1]), list(by_unit.items())))
    finally:
        shutil.rmtree(scratch, ignore_errors=True)
    return results, infos


def scan_assumptions(text):
    out = []
    for k, l in enumerate(text.splitlines(), 1):
        if re.search(r"\b(assume\(|admit\(|external_body|assume_specification|#\[verifier::external)", l) and not l.strip().startswith("//"):
            out.append(f"line {k}: {l.strip()[:140]}")
    return out


if __name__ == "__main__":
    import sys
    repo = Path(os.environ.get("VERIF_REPO", "/repo"))
    t = Path(sys.argv[1])
    defs = dict(a[2:].split("=", 1) for a in sys.argv if a.startswith("-D"))
    sys.argv = [a for a in sys.argv if not a.startswith("-D")]
    text, info = build_unit(repo, t, checks="--checks" in sys.argv, defs=defs or None)
    outp = Path(sys.argv[2]) if len(sys.argv) > 2 and not sys.argv[2].startswith("--") else Path("/tmp/scratch") / t.name
    outp.parent.mkdir(parents=True, exist_ok=True)
    outp.write_text(text)
    print(json.dumps(info, indent=1))
    rc, js, err, wall = run_verus(outp)
    print(err[-6000:])
    print(json.dumps((js or {}).get("verification-results"), indent=1), f"wall {wall:.1f}s")
