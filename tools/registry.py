"""Registry of obligations: which machine-checked obligations decide which property.

Every entry names one obligation (a Kani proof harness in /verif/contracts, a
Verus function in a unit extracted from /repo, or a native concrete check), the
tier it runs in, whether it is *complete* (all inputs, all iterations) or
*bounded* (stated bound, never counted as proved), and the functions of /repo it
puts under contract.
"""

from dataclasses import dataclass, field
from typing import List, Optional

ENDIANS = [("be", "BE"), ("le", "LE")]
WWORDS = ["u8", "u16", "u32", "u64", "u128"]  # writer backend words
RWORDS = ["u8", "u16", "u32", "u64"]          # buffered reader backend words
QUICK_W = {"u8", "u64", "u128"}
QUICK_R = {"u8", "u64"}


@dataclass
class Obl:
    id: str                 # e.g. c01.write_bits.BE.u8
    prop: str               # C01
    engine: str             # kani | verus | native
    target: str             # kani: fully qualified harness; verus: unit:function
    tier: str = "quick"     # quick obligations also run in thorough
    kind: str = "complete"  # complete | bounded
    bound: str = ""         # text of the bound when kind == bounded
    fns: List[str] = field(default_factory=list)   # functions of /repo under contract
    features: str = ""      # cargo features of the harness crate ("" = default)
    note: str = ""
    only: str = ""          # regex: of the harness's own OBS assertions, only these belong to this property
    confirm: str = ""       # confirmation harness run when only INT (representation) assertions fail


def _c01() -> List[Obl]:
    out = []
    for el, E in ENDIANS:
        for w in WWORDS:
            tier = "quick" if w in QUICK_W else "thorough"
            base = f"obl_c01::{el}::{w}_::"
            W = f"BufBitWriter<{E},_<{w}>>"

            def add(name, harness, kind="complete", bound="", fns=(), t=None):
                out.append(Obl(id=f"c01.{name}.{E}.{w}", prop="C01", engine="kani",
                               target=base + harness, tier=t or tier, kind=kind, bound=bound,
                               fns=[f"{W}::{f}" for f in fns]))
            add("new", "c01_new", fns=["new"])
            add("write_bits", "c01_write_bits", fns=["write_bits"])
            add("write_unary.K2", "c01_write_unary_k2", kind="bounded",
                bound="ghost backend window K=2 words: every x explored; Ok-path postcondition for codes ending within 2 words, prefix property beyond",
                fns=["write_unary"])
            add("write_unary.K4", "c01_write_unary_k4", kind="bounded",
                bound="ghost backend window K=4 words", fns=["write_unary"], t="thorough")
            add("flush", "c01_flush", fns=["flush", f"flush_{el}"])
            add("into_inner", "c01_into_inner", fns=["into_inner", f"flush_{el}"])
            add("drop", "c01_drop", fns=["drop", f"flush_{el}"])
    return out


def _reader(prop: str, only: str, which) -> List[Obl]:
    """Obligations on BufBitReader / BitReader harnesses; `which` selects ops."""
    out = []
    pl = prop.lower()
    ops = {
        # name: (harness, kind, bound, fns)
        "new": ("c02_new", "complete", "", ["new"]),
        "read_bits": ("c02_read_bits", "complete", "", ["read_bits"]),
        "peek_bits": ("c02_peek_bits", "complete", "", ["peek_bits", "refill"]),
        "skip_bits_after_peek": ("c02_skip_bits_after_peek", "complete", "", ["skip_bits_after_peek"]),
        "read_unary.K2": ("c02_read_unary_k2", "bounded", "backend window K=2 words (all streams; Ok-path for codes ending within 2 backend reads)", ["read_unary"]),
        "read_unary.K4": ("c02_read_unary_k4", "bounded", "backend window K=4 words", ["read_unary"]),
        "skip_bits.K2": ("c02_skip_bits_k2", "bounded", "backend window K=2 words (every n explored)", ["skip_bits"]),
        "skip_bits.K4": ("c02_skip_bits_k4", "bounded", "backend window K=4 words", ["skip_bits"]),
        "clone": ("c02_clone", "complete", "", ["clone"]),
        "bit_pos": ("c07_bit_pos", "complete", "", ["bit_pos"]),
        "set_bit_pos": ("c07_set_bit_pos", "complete", "", ["set_bit_pos", "bit_pos"]),
    }
    for el, E in ENDIANS:
        for w in RWORDS:
            base = f"obl_reader::{el}::{w}_::"
            R = f"BufBitReader<{E},_<{w}>>"
            for name in which:
                if name not in ops:
                    continue
                h, kind, bound, fns = ops[name]
                tier = "quick" if (w in QUICK_R and not name.endswith(".K4")) else "thorough"
                out.append(Obl(id=f"{pl}.{name}.{E}.{w}", prop=prop, engine="kani", target=base + h, tier=tier,
                               kind=kind, bound=bound, fns=[f"{R}::{f}" for f in fns], only=only,
                               confirm=base + "c02_confirm"))
            if "confirm" in which:
                out.append(Obl(id=f"{pl}.two_step.{E}.{w}", prop=prop, engine="kani", target=base + "c02_confirm", tier="thorough",
                               kind="bounded", bound="one symbolic operation followed by an optional peek and a read (2-3 step histories)",
                               fns=[f"{R}::*"], only=only))
    bops = {
        "new": ("c02_new", "complete", "", ["new"]),
        "read_bits": ("c02_read_bits", "complete", "", ["read_bits"]),
        "peek_bits": ("c02_peek_bits", "complete", "", ["peek_bits"]),
        "skip_bits": ("c02_skips", "complete", "", ["skip_bits", "skip_bits_after_peek"]),
        "read_unary.K2": ("c02_read_unary_k2", "bounded", "backend window K=2 words", ["read_unary"]),
        "read_unary.K4": ("c02_read_unary_k4", "bounded", "backend window K=4 words", ["read_unary"]),
        "clone": ("c02_clone", "complete", "", ["clone"]),
        "set_bit_pos": ("c07_seek", "complete", "", ["bit_pos", "set_bit_pos"]),
    }
    for el, E in ENDIANS:
        for name in which:
            if name not in bops:
                continue
            h, kind, bound, fns = bops[name]
            tier = "thorough" if name.endswith(".K4") else "quick"
            out.append(Obl(id=f"{pl}.{name}.{E}.unbuffered", prop=prop, engine="kani", target=f"obl_bitreader::{el}::{h}", tier=tier,
                           kind=kind, bound=bound, fns=[f"BitReader<{E},_>::{f}" for f in fns], only=only))
    return out


def _c02() -> List[Obl]:
    out = _reader("C02", r"c02|confirm", ["new", "read_bits", "peek_bits", "skip_bits_after_peek", "read_unary.K2", "read_unary.K4",
                                 "skip_bits", "skip_bits.K2", "skip_bits.K4", "clone", "confirm"])
    # zero extension of the memory backend (contract of MemWordReader<_,_,true>)
    for w in ["u8", "u64"]:
        out.append(Obl(id=f"c02.zero_extension.{w}", prop="C02", engine="kani", target=f"obl_c13::{w}_::reader_inf_k3", kind="bounded",
                       bound="array length <= 3 (contents, length, cursor symbolic)", fns=["MemWordReader<_,_,true>::read_word"]))
    return out


def _c07() -> List[Obl]:
    return _reader("C07", r"c07|advance|positioned|move|confirm: position", ["read_bits", "peek_bits", "skip_bits_after_peek", "read_unary.K2",
                                                          "skip_bits", "skip_bits.K2", "bit_pos", "set_bit_pos", "confirm"])


def _c09_impl() -> List[Obl]:
    out = _reader("C09", r"c09", ["read_bits", "peek_bits", "read_unary.K2", "read_unary.K4", "skip_bits.K2"])
    for w in ["u8", "u64"]:
        out.append(Obl(id=f"c09.strict_backend.{w}", prop="C09", engine="kani", target=f"obl_c13::{w}_::reader_strict_k3", kind="bounded",
                       bound="array length <= 3", fns=["MemWordReader<_,_,false>::read_word", "MemWordReader<_,_,false>::set_word_pos"]))
        out.append(Obl(id=f"c09.zero_extended_backend.{w}", prop="C09", engine="kani", target=f"obl_c13::{w}_::reader_inf_k3", kind="bounded",
                       bound="array length <= 3", fns=["MemWordReader<_,_,true>::read_word"]))
    return out


def _c13() -> List[Obl]:
    out = []
    for w in WWORDS:
        for k in (3, 6):
            tier = "quick" if (k == 3 and w in QUICK_W) else "thorough"
            for name, fns in (("reader_inf", ["MemWordReader<_,_,true>::{new,read_word,word_pos,set_word_pos}"]),
                              ("reader_strict", ["MemWordReader<_,_,false>::{new_strict,read_word,word_pos,set_word_pos}"]),
                              ("writer_slice", ["MemWordWriterSlice::{new,len,is_empty,read_word,write_word,flush,word_pos,set_word_pos,into_inner}"])):
                out.append(Obl(id=f"c13.{name}.{w}.K{k}", prop="C13", engine="kani", target=f"obl_c13::{w}_::{name}_k{k}", tier=tier,
                               kind="bounded", bound=f"array length <= {k}; contents, length, cursor, operation and storage kind symbolic", fns=fns))
        for ln in range(4):
            for st in ("owned", "borrowed"):
                tier = "quick" if w == "u8" else "thorough"
                out.append(Obl(id=f"c13.writer_vec.{w}.len{ln}.{st}", prop="C13", engine="kani", target=f"obl_c13::{w}_::writer_vec_len{ln}_{st}", tier=tier,
                               kind="bounded", bound=f"vector of length {ln} ({st} storage); contents, cursor and operation symbolic",
                               fns=["MemWordWriterVec::{new,len,is_empty,read_word,write_word,flush,word_pos,set_word_pos,into_inner}"]))
    return out


def _c17() -> List[Obl]:
    return [Obl(id=f"c17.{n}", prop="C17", engine="kani", target=f"obl_c17::c17_{n}", fns=[f"ToInt for u{n}::to_int", f"ToNat for i{n}::to_nat"])
            for n in ("8", "16", "32", "64", "128", "size")]


def _c11() -> List[Obl]:
    out = []
    budgets = {"u8": 3, "u16": 4, "u32": 6, "u64": 4, "u128": 3}
    for w in WWORDS:
        full = w in ("u8", "u16", "u32")
        tier = "quick" if w in ("u8", "u16", "u64") else "thorough"
        bnd = f"fault schedules of up to {budgets[w]} calls of the wrapped object, every call symbolic (short count / Interrupted / error)"
        for name, fns in (("write_word", ["WordAdapter::write_word"]), ("read_word", ["WordAdapter::read_word"])):
            out.append(Obl(id=f"c11.{name}.{w}", prop="C11", engine="kani", target=f"obl_c11::{w}_::c11_{name}", tier=tier,
                           kind="complete" if full else "bounded",
                           bound="" if full else bnd + " (a complete schedule needs BYTES+2 calls)",
                           fns=fns, note=bnd))
        out.append(Obl(id=f"c11.positions.{w}", prop="C11", engine="kani", target=f"obl_c11::{w}_::c11_positions", tier=tier, kind="bounded",
                       bound="Cursor over at most 2 words plus a partial tail; contents, length and target word symbolic",
                       fns=["WordAdapter::word_pos", "WordAdapter::set_word_pos", "WordAdapter::read_word"]))
    return out


def _c20() -> List[Obl]:
    out = [Obl(id="c20.fcp.new", prop="C20", engine="verus", target="find_change:new", fns=["FindChangePoints::new"]),
           Obl(id="c20.fcp.next", prop="C20", engine="verus", target="find_change:next", fns=["FindChangePoints::next"]),
           Obl(id="c20.fcp.lemma_flat", prop="C20", engine="verus", target="find_change:lemma_flat", fns=[])]
    return out


# ---------------------------------------------------------------------------
# Engine B: generic code functions on the abstract model
# ---------------------------------------------------------------------------
CODE_FNS = {
    "unary": ["BitWrite::write_unary (contract)", "BitRead::read_unary (contract)"],
    "gamma": ["codes::gamma::{write_gamma_param,default_write_gamma,read_gamma_param,default_read_gamma,len_gamma_param,len_gamma}", "codes::gamma_tables::{write_table_*,read_table_*}"],
    "delta": ["codes::delta::{write_delta_param,default_write_delta,read_delta_param,default_read_delta,len_delta_param,len_delta}", "codes::delta_tables::{write_table_*,read_table_*}"],
    "omega": ["codes::omega::{write_omega,recursive_write,read_omega,len_omega,recursive_len}"],
    "zeta": ["codes::zeta::{write_zeta_param,default_write_zeta,read_zeta_param,default_read_zeta,len_zeta_param,len_zeta}", "codes::minimal_binary::*"],
    "zeta3": ["codes::zeta::{write_zeta3_param,read_zeta3_param}", "codes::zeta_tables::{write_table_*,read_table_*}"],
    "pi": ["codes::pi::{write_pi,read_pi,len_pi}", "codes::rice::*"],
    "rice": ["codes::rice::{write_rice,read_rice,len_rice}"],
    "exp_golomb": ["codes::exp_golomb::{write_exp_golomb,read_exp_golomb,len_exp_golomb}", "codes::gamma::*"],
    "vbyte": ["codes::vbyte::{write_vbyte_be,write_vbyte_le,read_vbyte_be,read_vbyte_le,bit_len_vbyte,byte_len_vbyte}"],
    "golomb": ["codes::golomb::{write_golomb,read_golomb,len_golomb}", "codes::minimal_binary::{write_minimal_binary,read_minimal_binary,len_minimal_binary}"],
}


def _fns_for(h: str) -> List[str]:
    for key in ("exp_golomb", "zeta3", "gamma", "delta", "omega", "zeta", "pi", "rice", "vbyte", "unary"):
        if key in h:
            return CODE_FNS[key]
    return []


DEF_H = ["def_unary", "def_gamma", "def_gamma_t", "def_delta", "def_delta_tt", "def_delta_tf", "def_delta_ft", "def_omega", "def_zeta", "def_zeta_t",
         "def_zeta3", "def_zeta3_t", "def_pi", "def_rice", "def_exp_golomb", "def_vbyte_be", "def_vbyte_le"]
LEN_H = ["len_gamma", "len_gamma_t", "len_delta", "len_delta_tt", "len_delta_ft", "len_delta_tf", "len_omega", "len_zeta", "len_zeta_t", "len_pi",
         "len_rice", "len_exp_golomb", "len_vbyte"]
RT_BASE = ["rt_unary", "rt_gamma", "rt_gamma_t", "rt_delta", "rt_delta_t", "rt_omega", "rt_zeta3", "rt_zeta3_t", "rt_vbyte_be", "rt_vbyte_le"]
KGRID = [1, 2, 3, 4, 5, 8, 13, 31, 32, 33, 62, 63]
RT_K = ([f"rt_zeta_k{k}" for k in KGRID] + [f"rt_{c}_k{k}" for c in ("pi", "rice", "exp_golomb") for k in [0] + KGRID])
RT_K_QUICK = {"rt_zeta_k1", "rt_zeta_k2", "rt_zeta_k8", "rt_zeta_k63", "rt_pi_k0", "rt_pi_k2", "rt_pi_k8", "rt_rice_k0", "rt_rice_k3", "rt_rice_k63",
              "rt_exp_golomb_k0", "rt_exp_golomb_k1", "rt_exp_golomb_k8"}
TVB_H = ["tvb_gamma", "tvb_delta_tt", "tvb_delta_tf", "tvb_delta_ft", "tvb_zeta3", "tvb_omega"]
GOLOMB_B = ["b1", "b2", "b3", "b4", "b5", "b6", "b7", "b8", "b9", "b10", "b11", "b12", "b13", "b15", "b16", "b17", "b20", "b31", "b32", "b33", "b63", "b64",
            "b65", "b100", "b2p32m1", "b2p32", "b2p32p1", "b2p63m1", "b2p63", "b2p63p1", "bmax"]
GOLOMB_QUICK = {"b3", "b7", "b10"}
UNARY_BOUND = "codeword must fit the 256-bit abstract stream (unary / Rice / Golomb quotient < ~250); value, parameter and surrounding bits symbolic"


def _kind_for(h: str):
    if "unary" in h or "rice" in h or "golomb" in h and "exp_golomb" not in h:
        return "bounded", UNARY_BOUND
    return "complete", ""


def _codes(prop: str, only: str, groups) -> List[Obl]:
    """groups: list of (harness list, quick-set or None=all quick)"""
    out = []
    pl = prop.lower()
    for hm, E in (("hbe", "BE"), ("hle", "LE")):
        for hs, quick in groups:
            for h in hs:
                kind, bound = _kind_for(h)
                if h.startswith("len_"):
                    kind, bound = "complete", ""
                tier = "quick" if (quick is None or h in quick) else "thorough"
                out.append(Obl(id=f"{pl}.{h}.{E}", prop=prop, engine="kani", target=f"obl_codes::{hm}::{h}", tier=tier, kind=kind, bound=bound,
                               fns=_fns_for(h), only=only))
    return out


def _golomb(prop: str, only: str, which) -> List[Obl]:
    out = []
    pl = prop.lower()
    for gm, E in (("golomb_be", "BE"), ("golomb_le", "LE")):
        for b in GOLOMB_B:
            for h in which:
                tier = "quick" if b in GOLOMB_QUICK else "thorough"
                kind, bound = ("bounded", "constant modulus (grid point " + b + "); " + UNARY_BOUND)
                if h == "len":
                    bound = "constant modulus (grid point " + b + "); every value"
                out.append(Obl(id=f"{pl}.golomb.{h}.{b}.{E}", prop=prop, engine="kani", target=f"obl_codes::{gm}::{b}::{h}", tier=tier, kind=kind,
                               bound=bound, fns=CODE_FNS["golomb"], only=only))
    return out


def _c03() -> List[Obl]:
    return (_codes("C03", r"c03|contract", [(RT_BASE, None), (RT_K, RT_K_QUICK)]) + _golomb("C03", r"c03|contract", ["rt", "mb_rt"]))


def _c04() -> List[Obl]:
    return (_codes("C04", r"c04|contract", [(DEF_H, None)]) + _golomb("C04", r"c04|contract", ["def", "mb_def"]))


def _c05() -> List[Obl]:
    out = _codes("C05", r"c05|contract", [(["tvb_gamma", "tvb_delta_tt", "tvb_delta_tf", "tvb_delta_ft", "tvb_zeta3"], {"tvb_gamma", "tvb_delta_tt", "tvb_zeta3"})])
    # encoding / length tables: table variants against the same definition as the bit-by-bit variants
    out += _codes("C05", r"c04|c06|contract", [(["def_gamma", "def_gamma_t", "def_delta", "def_delta_tt", "def_delta_tf", "def_delta_ft", "def_zeta3", "def_zeta3_t"], None),
                                                (["len_gamma", "len_gamma_t", "len_delta", "len_delta_tt", "len_delta_ft", "len_delta_tf", "len_zeta", "len_zeta_t"], None)])
    for t in ("gamma_be", "gamma_le", "delta_be", "delta_le", "zeta_be", "zeta_le"):
        out.append(Obl(id=f"c05.table.{t}", prop="C05", engine="kani", target=f"obl_codes::tables::{t}", fns=[f"codes::{t.split('_')[0]}_tables::{{READ_*,READ_LEN_*,read_table_{t.split('_')[1]}}}"]))
    return out


def _c06() -> List[Obl]:
    return (_codes("C06", r"c06", [(LEN_H, None), (DEF_H, None)]) + _golomb("C06", r"c06", ["len", "def"])
            + _codes("C06", r"bits consumed", [(["rt_gamma", "rt_delta", "rt_omega", "rt_zeta3", "rt_vbyte_be", "rt_zeta_k2", "rt_pi_k2", "rt_exp_golomb_k1"], None)]))


def _c09_codes() -> List[Obl]:
    return _codes("C09", r"c09", [(["tvb_gamma", "tvb_delta_tt", "tvb_zeta3", "tvb_omega"], {"tvb_gamma", "tvb_zeta3", "tvb_omega"})])


def _c08() -> List[Obl]:
    out = []
    for u, fn in (("copy_to_generic", "copy_to"), ("copy_from_generic", "copy_from")):
        for feats in ("", "checks"):
            sfx = ".checks" if feats else ""
            out.append(Obl(id=f"c08.generic.{fn}{sfx}", prop="C08", engine="verus", target=f"{u}:{fn}", features=feats,
                           fns=[f"traits::bits::{'BitRead' if fn == 'copy_to' else 'BitWrite'}::{fn} (default method)"],
                           note="real text of the default chunked loop inside the contract-carrying trait declaration; unbounded n"))
            out.append(Obl(id=f"c08.generic.{fn}.lemma_chunk{sfx}", prop="C08", engine="verus", target=f"{u}:lemma_chunk", features=feats, fns=[]))
    return out


def all_obligations() -> List[Obl]:
    obls: List[Obl] = []
    for f in (_c01, _c02, _c03, _c04, _c05, _c06, _c07, _c08, _c09_impl, _c09_codes, _c11, _c13, _c17, _c20):
        obls.extend(f())
    ids = [o.id for o in obls]
    assert len(ids) == len(set(ids)), "duplicate obligation ids"
    return obls


def for_property(prop: str, tier: str) -> List[Obl]:
    res = [o for o in all_obligations() if o.prop == prop]
    if tier == "quick":
        res = [o for o in res if o.tier == "quick"]
    return res


PROPERTIES = ["C%02d" % i for i in range(1, 21)]
