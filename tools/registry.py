"""Registry of obligations: which machine-checked obligations decide which property.

Every entry names one obligation (a Kani proof harness in /verif/contracts, a
Verus function in a unit extracted from /repo, or a native concrete check), the
tier it runs in, whether it is *complete* (all inputs, all iterations) or
*bounded* (stated bound, never counted as proved), and the functions of /repo it
puts under contract.
"""

from dataclasses import dataclass, field
from typing import List, Optional

ENDIANS = [("be", "BE"), ("le", "LE")]
WWORDS = ["u8", "u16", "u32", "u64", "u128"]  # writer backend words
RWORDS = ["u8", "u16", "u32", "u64"]          # buffered reader backend words
QUICK_W = {"u8", "u64", "u128"}
QUICK_R = {"u8", "u64"}


@dataclass
class Obl:
    id: str                 # e.g. c01.write_bits.BE.u8
    prop: str               # C01
    engine: str             # kani | verus | native
    target: str             # kani: fully qualified harness; verus: unit:function
    tier: str = "quick"     # quick obligations also run in thorough
    kind: str = "complete"  # complete | bounded
    bound: str = ""         # text of the bound when kind == bounded
    fns: List[str] = field(default_factory=list)   # functions of /repo under contract
    features: str = ""      # cargo features of the harness crate ("" = default)
    note: str = ""


def _c01() -> List[Obl]:
    out = []
    for el, E in ENDIANS:
        for w in WWORDS:
            tier = "quick" if w in QUICK_W else "thorough"
            base = f"obl_c01::{el}::{w}_::"
            W = f"BufBitWriter<{E},_<{w}>>"

            def add(name, harness, kind="complete", bound="", fns=(), t=None):
                out.append(Obl(id=f"c01.{name}.{E}.{w}", prop="C01", engine="kani",
                               target=base + harness, tier=t or tier, kind=kind, bound=bound,
                               fns=[f"{W}::{f}" for f in fns]))
            add("new", "c01_new", fns=["new"])
            add("write_bits", "c01_write_bits", fns=["write_bits"])
            add("write_unary.K2", "c01_write_unary_k2", kind="bounded",
                bound="ghost backend window K=2 words: every x explored; Ok-path postcondition for codes ending within 2 words, prefix property beyond",
                fns=["write_unary"])
            add("write_unary.K4", "c01_write_unary_k4", kind="bounded",
                bound="ghost backend window K=4 words", fns=["write_unary"], t="thorough")
            add("flush", "c01_flush", fns=["flush", f"flush_{el}"])
            add("into_inner", "c01_into_inner", fns=["into_inner", f"flush_{el}"])
            add("drop", "c01_drop", fns=["drop", f"flush_{el}"])
    return out


def all_obligations() -> List[Obl]:
    obls: List[Obl] = []
    for f in (_c01,):
        obls.extend(f())
    ids = [o.id for o in obls]
    assert len(ids) == len(set(ids)), "duplicate obligation ids"
    return obls


def for_property(prop: str, tier: str) -> List[Obl]:
    res = [o for o in all_obligations() if o.prop == prop]
    if tier == "quick":
        res = [o for o in res if o.tier == "quick"]
    return res


PROPERTIES = ["C%02d" % i for i in range(1, 21)]
