"""Registry of obligations: which machine-checked obligations decide which property.

Every entry names one obligation (a Kani proof harness in /verif/contracts, a
Verus function in a unit extracted from /repo, or a native concrete check), the
tier it runs in, whether it is *complete* (all inputs, all iterations) or
*bounded* (stated bound, never counted as proved), and the functions of /repo it
puts under contract.
"""

from dataclasses import dataclass, field
from typing import List, Optional

ENDIANS = [("be", "BE"), ("le", "LE")]
WWORDS = ["u8", "u16", "u32", "u64", "u128"]  # writer backend words
RWORDS = ["u8", "u16", "u32", "u64"]          # buffered reader backend words
QUICK_W = {"u8", "u64", "u128"}
QUICK_R = {"u8", "u64"}


@dataclass
class Obl:
    id: str                 # e.g. c01.write_bits.BE.u8
    prop: str               # C01
    engine: str             # kani | verus | native
    target: str             # kani: fully qualified harness; verus: unit:function
    tier: str = "quick"     # quick obligations also run in thorough
    kind: str = "complete"  # complete | bounded
    bound: str = ""         # text of the bound when kind == bounded
    fns: List[str] = field(default_factory=list)   # functions of /repo under contract
    features: str = ""      # cargo features of the harness crate ("" = default)
    note: str = ""
    only: str = ""          # regex: of the harness's own OBS assertions, only these belong to this property
    confirm: str = ""       # confirmation harness run when only INT (representation) assertions fail
    mem_gb: int = 0         # estimated peak memory of the CBMC run (heavy ones are run with fewer jobs)
    expect_panic: str = ""  # regex: the harness is expected to end in this panic of the library on every path (anything else that fails is a failure)
    no_playback: str = ""   # reason why a counterexample of this harness cannot be replayed by a native single-threaded run


def _c01() -> List[Obl]:
    out = []
    for el, E in ENDIANS:
        for w in WWORDS:
            tier = "quick" if w in QUICK_W else "thorough"
            base = f"obl_c01::{el}::{w}_::"
            W = f"BufBitWriter<{E},_<{w}>>"

            def add(name, harness, kind="complete", bound="", fns=(), t=None):
                out.append(Obl(id=f"c01.{name}.{E}.{w}", prop="C01", engine="kani",
                               target=base + harness, tier=t or tier, kind=kind, bound=bound,
                               fns=[f"{W}::{f}" for f in fns]))
            add("new", "c01_new", fns=["new"])
            add("write_bits", "c01_write_bits", fns=["write_bits"])
            add("write_unary.K2", "c01_write_unary_k2", kind="bounded",
                bound="ghost backend window K=2 words: every x explored; Ok-path postcondition for codes ending within 2 words, prefix property beyond",
                fns=["write_unary"])
            add("write_unary.K4", "c01_write_unary_k4", kind="bounded",
                bound="ghost backend window K=4 words", fns=["write_unary"], t="thorough")
            add("flush", "c01_flush", fns=["flush", f"flush_{el}"])
            add("into_inner", "c01_into_inner", fns=["into_inner", f"flush_{el}"])
            add("drop", "c01_drop", fns=["drop", f"flush_{el}"])
    for fn in ("lemma_history", "lemma_prefix", "lemma_flush_idempotent"):
        out.append(Obl(id=f"c01.{fn}", prop="C01", engine="verus", target=f"history:{fn}", fns=[],
                       note="pure lemma: the per-operation contracts compose over every history and every prefix of it"))
    out += _verus_writer_unary("C01") + _verus_writer_bits("C01")
    # the byte-stream adapter backend delivers every word's bytes whole and in order (shared with C11)
    for w in WWORDS:
        full = w in ("u8", "u16", "u32")
        out.append(Obl(id=f"c01.backend.adapter_write_word.{w}", prop="C01", engine="kani", target=f"obl_c11::{w}_::c11_write_word",
                       tier="quick" if w == "u16" else "thorough", kind="complete" if full else "bounded",
                       bound="" if full else "fault schedules of a bounded number of calls of the wrapped sink (see c11.write_word)",
                       fns=["WordAdapter::write_word (sink with short writes / interrupts / errors)"]))
    return out


WU_LEMMAS = ("lemma_wbit", "lemma_push", "lemma_full_pending", "lemma_be_append_unary", "lemma_be_shift_out", "lemma_be_one_is_unary",
             "lemma_le_append_unary", "lemma_le_shift_out", "lemma_le_top_is_unary", "lemma_zero_word", "lemma_zeros_unary")


WB_LEMMAS = ("lemma_clean_check", "lemma_bit_of", "lemma_trunc_bits", "lemma_ext_bits", "lemma_or_bits", "lemma_low_mask", "lemma_shl_bits", "lemma_shl1_bits", "lemma_shr64_bits",
             "lemma_top_of_field", "lemma_be_wb_easy", "lemma_be_wb_fill", "lemma_be_wb_mid", "lemma_be_wb_tail", "lemma_subrange_step", "lemma_shr_bits",
             "lemma_shr1_bits", "lemma_shr64_1_bits", "lemma_le_wb_easy", "lemma_le_wb_fill", "lemma_le_wb_mid", "lemma_le_wb_tail", "lemma_be_flush", "lemma_le_flush")


def _verus_writer_bits(prop: str) -> List[Obl]:
    """BufBitWriter::write_bits and flush_be/flush_le in Verus (every value, width and Inv_W state), one unit per word type."""
    out = []
    pl = prop.lower()
    for w in WWORDS:
        unit = f"writer_bits@W={w};BITS={w[1:]}"
        for el, E in ENDIANS:
            out.append(Obl(id=f"{pl}.verus.write_bits.{E}.{w}", prop=prop, engine="verus", target=f"{unit}:write_bits_{el}",
                           fns=[f"BufBitWriter<{E},_<{w}>>::write_bits"],
                           note="real text, WW::Word instantiated; every value (dirty or clean), every n in 0..=64, every Inv_W state; default configuration"))
            out.append(Obl(id=f"{pl}.verus.flush.{E}.{w}", prop=prop, engine="verus", target=f"{unit}:flush_{el}",
                           fns=[f"impls::buf_bit_writer::flush_{el} (flush, drop, into_inner of BufBitWriter<{E},_<{w}>>)"],
                           note="pending bits delivered padded with zeros to a whole word; nothing delivered when nothing is pending"))
        for l in WB_LEMMAS:
            out.append(Obl(id=f"{pl}.verus.write_bits.{l}.{w}", prop=prop, engine="verus", target=f"{unit}:{l}", fns=[]))
        out.append(Obl(id=f"{pl}.std_spec.rotate_right.{w}", prop=prop, engine="kani", target=f"obl_stdspec::std_spec_rotate_right_{w}", fns=[f"{w}::rotate_right"],
                       note="discharges the rotate_right axiom of the Verus unit"))
    return out


def _verus_writer_unary(prop: str) -> List[Obl]:
    """Unbounded proof of BufBitWriter::write_unary (every value, zero-word loop by invariant), one Verus unit per word type."""
    out = []
    pl = prop.lower()
    for w in WWORDS:
        bits = w[1:]
        unit = f"writer_unary@W={w};BITS={bits}"
        for el, E in ENDIANS:
            out.append(Obl(id=f"{pl}.verus.write_unary.{E}.{w}", prop=prop, engine="verus", target=f"{unit}:write_unary_{el}",
                           fns=[f"BufBitWriter<{E},_<{w}>>::write_unary"],
                           note="real text, WW::Word instantiated to the word type; every value < 2^64-1, every Inv_W state; view' = view ++ 0^value 1 (unbounded zero-word loop)"))
        for l in WU_LEMMAS:
            out.append(Obl(id=f"{pl}.verus.write_unary.{l}.{w}", prop=prop, engine="verus", target=f"{unit}:{l}", fns=[]))
        out.append(Obl(id=f"{pl}.std_spec.byte_order.{w}", prop=prop, engine="kani", target=f"obl_stdspec::std_spec_byte_order_{w}", fns=[f"{w}::to_be", f"{w}::to_le"],
                       note="discharges the byte-order assume_specification/axioms of the Verus unit and links its view to the canonical byte image"))
    return out


def _reader(prop: str, only: str, which) -> List[Obl]:
    """Obligations on BufBitReader / BitReader harnesses; `which` selects ops."""
    out = []
    pl = prop.lower()
    ops = {
        # name: (harness, kind, bound, fns)
        "new": ("c02_new", "complete", "", ["new"]),
        "read_bits": ("c02_read_bits", "complete", "", ["read_bits"]),
        "peek_bits": ("c02_peek_bits", "complete", "", ["peek_bits", "refill"]),
        "skip_bits_after_peek": ("c02_skip_bits_after_peek", "complete", "", ["skip_bits_after_peek"]),
        "read_unary.K2": ("c02_read_unary_k2", "bounded", "backend window K=2 words (all streams; Ok-path for codes ending within 2 backend reads)", ["read_unary"]),
        "read_unary.K4": ("c02_read_unary_k4", "bounded", "backend window K=4 words", ["read_unary"]),
        "skip_bits.K2": ("c02_skip_bits_k2", "bounded", "backend window K=2 words (every n explored)", ["skip_bits"]),
        "skip_bits.K4": ("c02_skip_bits_k4", "bounded", "backend window K=4 words", ["skip_bits"]),
        "clone": ("c02_clone", "complete", "", ["clone"]),
        "bit_pos": ("c07_bit_pos", "complete", "", ["bit_pos"]),
        "set_bit_pos": ("c07_set_bit_pos", "complete", "", ["set_bit_pos", "bit_pos"]),
    }
    for el, E in ENDIANS:
        for w in RWORDS:
            base = f"obl_reader::{el}::{w}_::"
            R = f"BufBitReader<{E},_<{w}>>"
            for name in which:
                if name not in ops:
                    continue
                h, kind, bound, fns = ops[name]
                tier = "quick" if (w in QUICK_R and not name.endswith(".K4")) else "thorough"
                out.append(Obl(id=f"{pl}.{name}.{E}.{w}", prop=prop, engine="kani", target=base + h, tier=tier,
                               kind=kind, bound=bound, fns=[f"{R}::{f}" for f in fns], only=only,
                               confirm=f"obl_reader::{el}::u8_::c02_confirm_" + name.split(".")[0] if name.split(".")[0] in
                               ("read_bits", "peek_bits", "skip_bits_after_peek", "read_unary", "skip_bits", "set_bit_pos") else ""))
            # multi-step histories are implied by the one-step obligations (each starts from an arbitrary invariant state and
            # re-establishes the invariant); the explicit 3-5 step harness is a cross-check kept for the narrow words only
            # (u32 / u64: more than 35 min of CBMC each, measured)
            if "confirm" in which and w in ("u8", "u16"):
                out.append(Obl(id=f"{pl}.two_step.{E}.{w}", prop=prop, engine="kani", target=base + "c02_confirm", tier="thorough",
                               kind="bounded", bound="one symbolic operation followed by two rounds of (optional peek, read) (3-5 step histories)",
                               fns=[f"{R}::*"], only=only))
    bops = {
        "new": ("c02_new", "complete", "", ["new"]),
        "read_bits": ("c02_read_bits", "complete", "", ["read_bits"]),
        "peek_bits": ("c02_peek_bits", "complete", "", ["peek_bits"]),
        "skip_bits": ("c02_skips", "complete", "", ["skip_bits", "skip_bits_after_peek"]),
        "read_unary.K2": ("c02_read_unary_k2", "bounded", "backend window K=2 words", ["read_unary"]),
        "read_unary.K4": ("c02_read_unary_k4", "bounded", "backend window K=4 words", ["read_unary"]),
        "clone": ("c02_clone", "complete", "", ["clone"]),
        "set_bit_pos": ("c07_seek", "complete", "", ["bit_pos", "set_bit_pos"]),
    }
    for el, E in ENDIANS:
        for name in which:
            if name not in bops:
                continue
            h, kind, bound, fns = bops[name]
            tier = "thorough" if name.endswith(".K4") else "quick"
            out.append(Obl(id=f"{pl}.{name}.{E}.unbuffered", prop=prop, engine="kani", target=f"obl_bitreader::{el}::{h}", tier=tier,
                           kind=kind, bound=bound, fns=[f"BitReader<{E},_>::{f}" for f in fns], only=only))
    return out


RU_LEMMAS = ("lemma_wbit_bb", "lemma_wbit_w", "lemma_lz_bb", "lemma_lz_w", "lemma_tz_bb", "lemma_tz_w", "lemma_shl1_bits", "lemma_shl_bits",
             "lemma_shr1_bits", "lemma_shr_bits", "lemma_upcast_bits", "lemma_zero_bits", "lemma_sbit_word")
BBTYPE = {"u8": "u16", "u16": "u32", "u32": "u64", "u64": "u128"}


def _verus_reader_unary(prop: str, fns=("read_unary", "skip_bits"), lemmas=True) -> List[Obl]:
    """Unbounded proofs of BufBitReader::{read_unary, skip_bits} (word loops by invariant), one Verus unit per word type."""
    out = []
    pl = prop.lower()
    for w in RWORDS:
        n = int(w[1:])
        bb = BBTYPE[w]
        unit = f"reader_unary@W={w};N={n};BB={bb};M={2 * n};LZINC={'lz128.inc' if bb == 'u128' else 'empty.inc'}"
        for el, E in ENDIANS:
            for fn in fns:
                out.append(Obl(id=f"{pl}.verus.{fn}.{E}.{w}", prop=prop, engine="verus", target=f"{unit}:{fn}_{el}",
                               fns=[f"BufBitReader<{E},_<{w}>>::{fn}"],
                               note="real text, WR::Word / BB<WR> instantiated; every Inv_R state, every stream shorter than 2^64 bits, unbounded word loop; "
                                    "result, position and Inv_R' as in DESIGN 2.1"))
        if lemmas:
            for l in RU_LEMMAS:
                out.append(Obl(id=f"{pl}.verus.reader.{l}.{w}", prop=prop, engine="verus", target=f"{unit}:{l}", fns=[]))
            out.append(Obl(id=f"{pl}.std_spec.byte_order.{w}", prop=prop, engine="kani", target=f"obl_stdspec::std_spec_byte_order_{w}", fns=[f"{w}::to_be", f"{w}::to_le"],
                           note="discharges the byte-order assume_specification of the Verus unit and links its view to the canonical byte image"))
            for t in (w, bb):
                out.append(Obl(id=f"{pl}.std_spec.count_zeros.{w}.{t}", prop=prop, engine="kani", target=f"obl_stdspec::std_spec_count_zeros_{t}",
                               fns=[f"{t}::leading_zeros", f"{t}::trailing_zeros"],
                               note="discharges the count-zeros axioms the Verus unit uses (vstd's for u8..u64, lz128.inc for u128)"))
    return out


BRU_LEMMAS = ("lemma_sbit_word", "lemma_wbit_bb", "lemma_lz_bb", "lemma_tz_bb", "lemma_shl_bits", "lemma_shr_bits", "lemma_small", "lemma_shl_shr", "lemma_or64",
              "lemma_result", "lemma_rb_be_single", "lemma_rb_be_double", "lemma_rb_le_single", "lemma_rb_le_double")


RB_FNS = {"read_bits": "read_bits", "peek_bits": "peek_bits", "skip_bits_after_peek": "skip_bits_after_peek", "refill": "refill",
          "bit_pos": "bit_pos", "set_bit_pos": "set_bit_pos"}
RB_LEMMAS = ("lemma_bit_of", "lemma_small", "lemma_cast64_bits", "lemma_up_bits", "lemma_shr64_bits", "lemma_concat64", "lemma_concat64_1", "lemma_be_top",
             "lemma_be_consume", "lemma_be_acc_word", "lemma_be_acc_final", "lemma_be_result", "lemma_be_refill", "lemma_be_peek", "lemma_or_bits_bb",
             "lemma_be_seek", "lemma_mask_bb", "lemma_one_shl_pos", "lemma_or_shl64", "lemma_lowbits64", "lemma_le_low", "lemma_le_cast", "lemma_le_consume",
             "lemma_le_acc_word", "lemma_le_acc_final", "lemma_le_result", "lemma_le_refill", "lemma_le_peek", "lemma_le_seek")


def _verus_reader_bits(prop: str, fns, lemmas=True) -> List[Obl]:
    """BufBitReader::{read_bits, peek_bits, skip_bits_after_peek, refill} and BitSeek::{bit_pos, set_bit_pos} in Verus, one unit per word type."""
    out = []
    pl = prop.lower()
    for w in RWORDS:
        n = int(w[1:])
        bb = BBTYPE[w]
        unit = f"reader_bits@W={w};N={n};BB={bb};M={2 * n};LZINC={'lz128.inc' if bb == 'u128' else 'empty.inc'}"
        for el, E in ENDIANS:
            for fn in fns:
                out.append(Obl(id=f"{pl}.verus.{fn}.{E}.{w}", prop=prop, engine="verus", target=f"{unit}:{fn}_{el}",
                               fns=[f"BufBitReader<{E},_<{w}>>::{fn}"],
                               note="real text, WR::Word / BB<WR> instantiated; every Inv_R state (incl. more than one word buffered), every argument, "
                                    "streams shorter than 2^64 bits; result, position, Inv_R' and error clauses as in DESIGN 2.1"))
        if lemmas:
            for l in RB_LEMMAS:
                out.append(Obl(id=f"{pl}.verus.reader_bits.{l}.{w}", prop=prop, engine="verus", target=f"{unit}:{l}", fns=[]))
    return out


def _verus_bitreader_unary(prop: str, lemmas=True) -> List[Obl]:
    out = []
    pl = prop.lower()
    for el, E in ENDIANS:
        out.append(Obl(id=f"{pl}.verus.bitreader.read_unary.{E}", prop=prop, engine="verus", target=f"bitreader_unary:read_unary_{el}",
                       fns=[f"BitReader<{E},_>::read_unary"],
                       note="real text; every position, every stream shorter than 2^64 bits, unbounded word loop"))
        out.append(Obl(id=f"{pl}.verus.bitreader.read_bits.{E}", prop=prop, engine="verus", target=f"bitreader_unary:read_bits_{el}",
                       fns=[f"BitReader<{E},_>::read_bits"],
                       note="real text; every position and width: value < 2^n, field = the next n stream bits, position + n"))
    if lemmas:
        for l in BRU_LEMMAS:
            out.append(Obl(id=f"{pl}.verus.bitreader.{l}", prop=prop, engine="verus", target=f"bitreader_unary:{l}", fns=[]))
    return out


def _c02() -> List[Obl]:
    out = _verus_reader_unary("C02") + _verus_bitreader_unary("C02") + _verus_reader_bits("C02", ["read_bits", "peek_bits", "skip_bits_after_peek", "refill"])
    out += _reader("C02", r"c02|confirm", ["new", "read_bits", "peek_bits", "skip_bits_after_peek", "read_unary.K2", "read_unary.K4",
                                 "skip_bits", "skip_bits.K2", "skip_bits.K4", "clone", "confirm"])
    out += _verus_mem_words("C02", fns=["read_word_inf"], words=["u8", "u16", "u32", "u64"])
    # zero extension of the memory backend (contract of MemWordReader<_,_,true>)
    for w in ["u8", "u64"]:
        out.append(Obl(id=f"c02.zero_extension.{w}", prop="C02", engine="kani", target=f"obl_c13::{w}_::reader_inf_k3", kind="bounded",
                       bound="array length <= 3 (contents, length, cursor symbolic)", fns=["MemWordReader<_,_,true>::read_word"]))
    return out


def _c07() -> List[Obl]:
    out = (_verus_reader_unary("C07", lemmas=False) + _verus_bitreader_unary("C07", lemmas=False)
           + _verus_reader_bits("C07", ["bit_pos", "set_bit_pos", "read_bits", "peek_bits", "refill", "skip_bits_after_peek"], lemmas=False))
    # (a failed look-ahead must leave the position where it was: the clause is tagged c09 in the harness and belongs to C07 as well)
    out += _reader("C07", r"c07|advance|positioned|move|confirm: position|leaves the reader unchanged", ["read_bits", "peek_bits", "skip_bits_after_peek", "read_unary.K2",
                                                          "skip_bits", "skip_bits.K2", "bit_pos", "set_bit_pos", "confirm"])
    # the seek contracts of the backends the readers are used with
    for w in ["u8", "u64"]:
        for h in ("reader_inf_k3", "reader_strict_k3", "writer_slice_k3"):
            out.append(Obl(id=f"c07.backend.{h}.{w}", prop="C07", engine="kani", target=f"obl_c13::{w}_::{h}", kind="bounded",
                           bound="array length <= 3", fns=["MemWord*::{word_pos,set_word_pos,read_word}"]))
        out.append(Obl(id=f"c07.backend.adapter_positions.{w}", prop="C07", engine="kani", target=f"obl_c11::{w}_::c11_positions", kind="bounded",
                       bound="Cursor over at most 2 words plus a partial tail", fns=["WordAdapter::{word_pos,set_word_pos}"]))
    out.append(Obl(id="c07.backend.writer_vec.u8", prop="C07", engine="kani", target="obl_c13::u8_::writer_vec_len2_borrowed", kind="bounded",
                   bound="vector of length 2", fns=["MemWordWriterVec::{word_pos,set_word_pos,read_word}"]))
    out += _verus_mem_words("C07", fns=["word_pos_inf", "set_word_pos_inf", "word_pos_strict", "set_word_pos_strict", "word_pos_vec", "set_word_pos_vec",
                                        "word_pos_slice", "set_word_pos_slice"], words=["u8", "u16", "u32", "u64"])
    return out


def _c09_impl() -> List[Obl]:
    out = (_verus_reader_unary("C09", lemmas=False) + _verus_bitreader_unary("C09", lemmas=False)
           + _verus_reader_bits("C09", ["read_bits", "peek_bits", "refill"], lemmas=False))
    out += _reader("C09", r"c09", ["read_bits", "peek_bits", "read_unary.K2", "read_unary.K4", "skip_bits.K2", "skip_bits"])
    for w in ["u8", "u64"]:
        out.append(Obl(id=f"c09.strict_backend.{w}", prop="C09", engine="kani", target=f"obl_c13::{w}_::reader_strict_k3", kind="bounded",
                       bound="array length <= 3", fns=["MemWordReader<_,_,false>::read_word", "MemWordReader<_,_,false>::set_word_pos"]))
        out.append(Obl(id=f"c09.zero_extended_backend.{w}", prop="C09", engine="kani", target=f"obl_c13::{w}_::reader_inf_k3", kind="bounded",
                       bound="array length <= 3", fns=["MemWordReader<_,_,true>::read_word"]))
    out += _verus_mem_words("C09", fns=["read_word_strict", "read_word_inf", "read_word_vec", "read_word_slice"], words=["u8", "u16", "u32", "u64"])
    return out


MW_FNS = {
    "read_word_inf": "MemWordReader<_,_,true>::read_word", "word_pos_inf": "MemWordReader<_,_,true>::word_pos", "set_word_pos_inf": "MemWordReader<_,_,true>::set_word_pos",
    "read_word_strict": "MemWordReader<_,_,false>::read_word", "word_pos_strict": "MemWordReader<_,_,false>::word_pos", "set_word_pos_strict": "MemWordReader<_,_,false>::set_word_pos",
    "write_word_vec": "MemWordWriterVec::write_word", "read_word_vec": "MemWordWriterVec::read_word", "word_pos_vec": "MemWordWriterVec::word_pos", "set_word_pos_vec": "MemWordWriterVec::set_word_pos",
    "write_word_slice": "MemWordWriterSlice::write_word", "read_word_slice": "MemWordWriterSlice::read_word", "word_pos_slice": "MemWordWriterSlice::word_pos",
    "set_word_pos_slice": "MemWordWriterSlice::set_word_pos",
}


def _verus_mem_words(prop: str, fns=None, words=None) -> List[Obl]:
    """The in-memory word streams against the array-plus-cursor model for arrays of every length (Verus, one unit per word type)."""
    out = []
    pl = prop.lower()
    for w in (words or WWORDS):
        for fn, real in MW_FNS.items():
            if fns and fn not in fns:
                continue
            out.append(Obl(id=f"{pl}.verus.mem.{fn}.{w}", prop=prop, engine="verus", target=f"mem_words@W={w}:{fn}", fns=[real + f" (W = {w})"],
                           note="real text with the storage parameter instantiated to the slice / vector itself; arrays of every length, every cursor"))
    return out


def _c13() -> List[Obl]:
    out = _verus_mem_words("C13")
    for w in WWORDS:
        for k in (3, 6):
            tier = "quick" if (k == 3 and w in QUICK_W) else "thorough"
            for name, fns in (("reader_inf", ["MemWordReader<_,_,true>::{new,read_word,word_pos,set_word_pos}"]),
                              ("reader_strict", ["MemWordReader<_,_,false>::{new_strict,read_word,word_pos,set_word_pos}"]),
                              ("writer_slice", ["MemWordWriterSlice::{new,len,is_empty,read_word,write_word,flush,word_pos,set_word_pos,into_inner}"])):
                out.append(Obl(id=f"c13.{name}.{w}.K{k}", prop="C13", engine="kani", target=f"obl_c13::{w}_::{name}_k{k}", tier=tier,
                               kind="bounded", bound=f"array length <= {k}; contents, length, cursor, operation and storage kind symbolic", fns=fns))
        for ln in range(4):
            for st in ("owned", "borrowed"):
                # the vector harnesses of the wide words need 10-30 GB and 5-15 min of CBMC each; every array length is
                # covered by the Verus unit mem_words for every word type, so the bounded cross-check keeps two lengths there
                if (w == "u128" and not (ln in (0, 2) and st == "owned")) or (w == "u64" and ln in (1, 3) and st == "borrowed"):
                    continue
                tier = "quick" if w == "u8" else "thorough"
                out.append(Obl(id=f"c13.writer_vec.{w}.len{ln}.{st}", prop="C13", engine="kani", target=f"obl_c13::{w}_::writer_vec_len{ln}_{st}", tier=tier,
                               mem_gb={"u32": 5, "u64": 10, "u128": 30}.get(w, 0), kind="bounded", bound=f"vector of length {ln} ({st} storage); contents, cursor and operation symbolic",
                               fns=["MemWordWriterVec::{new,len,is_empty,read_word,write_word,flush,word_pos,set_word_pos,into_inner}"]))
    return out


def _c17() -> List[Obl]:
    return [Obl(id=f"c17.{n}", prop="C17", engine="kani", target=f"obl_c17::c17_{n}", fns=[f"ToInt for u{n}::to_int", f"ToNat for i{n}::to_nat"])
            for n in ("8", "16", "32", "64", "128", "size")]


def _c11() -> List[Obl]:
    out = []
    budgets = {"u8": 3, "u16": 4, "u32": 6, "u64": 4, "u128": 3}
    for w in WWORDS:
        full = w in ("u8", "u16", "u32")
        tier = "quick" if w in ("u8", "u16", "u64") else "thorough"
        bnd = f"fault schedules of up to {budgets[w]} calls of the wrapped object, every call symbolic (short count / Interrupted / error)"
        for name, fns in (("write_word", ["WordAdapter::write_word"]), ("read_word", ["WordAdapter::read_word"])):
            out.append(Obl(id=f"c11.{name}.{w}", prop="C11", engine="kani", target=f"obl_c11::{w}_::c11_{name}", tier=tier,
                           kind="complete" if full else "bounded",
                           bound="" if full else bnd + " (a complete schedule needs BYTES+2 calls)",
                           fns=fns, note=bnd))
        out.append(Obl(id=f"c11.flush.{w}", prop="C11", engine="kani", target=f"obl_c11::{w}_::c11_flush", tier=tier,
                       fns=["WordAdapter::flush"], note="the wrapped sink's flush may fail (Interrupted or hard error): Ok only if it succeeded"))
        # a bit writer over the adapter hands its flush on to the adapter (shared with C01: the sink may buffer until flushed)
        for el, E in ENDIANS:
            for hn in ("flush", "into_inner", "drop"):
                out.append(Obl(id=f"c11.bit_writer.{hn}.{E}.{w}", prop="C11", engine="kani", target=f"obl_c01::{el}::{w}_::c01_{hn}",
                               tier="quick" if (w in ("u8", "u64") and hn == "flush") else "thorough", only=r"flushes the backend",
                               fns=[f"BufBitWriter<{E},_<{w}>>::{hn} (forwards the flush to its backend)"]))
        out.append(Obl(id=f"c11.positions.{w}", prop="C11", engine="kani", target=f"obl_c11::{w}_::c11_positions", tier=tier, kind="bounded",
                       bound="Cursor over at most 2 words plus a partial tail; contents, length and target word symbolic",
                       fns=["WordAdapter::word_pos", "WordAdapter::set_word_pos", "WordAdapter::read_word"]))
    return out


MONO_H = ["mono_unary", "mono_gamma", "mono_gamma_t", "mono_delta", "mono_delta_ft", "mono_delta_tt", "mono_omega", "mono_zeta", "mono_zeta_t", "mono_pi",
          "mono_rice", "mono_exp_golomb", "mono_vbyte"]


def _c20() -> List[Obl]:
    out = []
    # the length functions do not depend on the endianness: the BE instantiation only
    for h in MONO_H:
        out.append(Obl(id=f"c20.{h}", prop="C20", engine="kani", target=f"obl_codes::hbe::{h}", fns=["codes::len_* (" + h[5:] + ")"],
                       note="two-value obligation a <= b => len(a) <= len(b); parameter symbolic"))
    for b in GOLOMB_B:
        out.append(Obl(id=f"c20.mono_golomb.{b}", prop="C20", engine="kani", target=f"obl_codes::golomb_be::{b}::mono",
                       tier="quick" if b in GOLOMB_QUICK else "thorough", kind="bounded", bound="constant modulus (grid point " + b + "); every pair of values",
                       fns=["codes::golomb::len_golomb"]))
    for fn in ("lemma_golomb_len_monotone", "len_golomb_monotone", "len_golomb", "len_minimal_binary"):
        out.append(Obl(id=f"c20.verus.golomb.{fn}", prop="C20", engine="verus", target=f"golomb:{fn}", fns=["codes::golomb::len_golomb"] if not fn.startswith("lemma") else [],
                       note="every modulus in 1..2^64 and every pair of values: len_golomb is non-decreasing (via its proved closed form)"))
    for t, b in (("single_step", "step positions 0..5, 2^k and 2^k +- 1 up to 2^63, beyond 2^63, near 2^64"), ("two_steps", "pairs of step positions on a grid"),
                 ("library_lengths", "first 200 change points of len_gamma, len_delta, len_omega, len_zeta(_, 3)"),
                 ("zero_first_plateau", "functions with f(0) = 0: constant zero and one step at each grid position")):
        out.append(Obl(id=f"c20.fcp.native.{t}", prop="C20", engine="native", target=f"c20_fcp:c20_fcp_{t}", kind="bounded",
                       bound="concrete execution: " + b, fns=["FindChangePoints::{new,next}"],
                       note="paired with the Verus obligation c20.fcp.next (which decides every monotone function) to provide failing inputs"))
    out += [Obl(id="c20.fcp.new", prop="C20", engine="verus", target="find_change:new", fns=["FindChangePoints::new"]),
           Obl(id="c20.fcp.next", prop="C20", engine="verus", target="find_change:next", fns=["FindChangePoints::next"]),
           Obl(id="c20.fcp.lemma_flat", prop="C20", engine="verus", target="find_change:lemma_flat", fns=[])]
    return out


# ---------------------------------------------------------------------------
# Engine B: generic code functions on the abstract model
# ---------------------------------------------------------------------------
CODE_FNS = {
    "unary": ["BitWrite::write_unary (contract)", "BitRead::read_unary (contract)"],
    "gamma": ["codes::gamma::{write_gamma_param,default_write_gamma,read_gamma_param,default_read_gamma,len_gamma_param,len_gamma}", "codes::gamma_tables::{write_table_*,read_table_*}"],
    "delta": ["codes::delta::{write_delta_param,default_write_delta,read_delta_param,default_read_delta,len_delta_param,len_delta}", "codes::delta_tables::{write_table_*,read_table_*}"],
    "omega": ["codes::omega::{write_omega,recursive_write,read_omega,len_omega,recursive_len}"],
    "zeta": ["codes::zeta::{write_zeta_param,default_write_zeta,read_zeta_param,default_read_zeta,len_zeta_param,len_zeta}", "codes::minimal_binary::*"],
    "zeta3": ["codes::zeta::{write_zeta3_param,read_zeta3_param}", "codes::zeta_tables::{write_table_*,read_table_*}"],
    "pi": ["codes::pi::{write_pi,read_pi,len_pi}", "codes::rice::*"],
    "rice": ["codes::rice::{write_rice,read_rice,len_rice}"],
    "exp_golomb": ["codes::exp_golomb::{write_exp_golomb,read_exp_golomb,len_exp_golomb}", "codes::gamma::*"],
    "vbyte": ["codes::vbyte::{write_vbyte_be,write_vbyte_le,read_vbyte_be,read_vbyte_le,bit_len_vbyte,byte_len_vbyte}"],
    "golomb": ["codes::golomb::{write_golomb,read_golomb,len_golomb}", "codes::minimal_binary::{write_minimal_binary,read_minimal_binary,len_minimal_binary}"],
}


def _fns_for(h: str) -> List[str]:
    for key in ("exp_golomb", "zeta3", "gamma", "delta", "omega", "zeta", "pi", "rice", "vbyte", "unary"):
        if key in h:
            return CODE_FNS[key]
    return []


DEF_H = ["def_unary", "def_gamma", "def_gamma_t", "def_delta", "def_delta_tt", "def_delta_tf", "def_delta_ft", "def_omega", "def_zeta", "def_zeta_t",
         "def_zeta3", "def_zeta3_t", "def_pi", "def_rice", "def_exp_golomb", "def_vbyte_be", "def_vbyte_le"]
LEN_H = ["len_gamma", "len_gamma_t", "len_delta", "len_delta_tt", "len_delta_ft", "len_delta_tf", "len_omega", "len_zeta", "len_zeta_t", "len_pi",
         "len_rice", "len_exp_golomb", "len_vbyte"]
RT_BASE = ["rt_unary", "rt_gamma", "rt_gamma_t", "rt_delta", "rt_delta_t", "rt_omega", "rt_zeta3", "rt_zeta3_t", "rt_vbyte_be", "rt_vbyte_le"]
KGRID = [1, 2, 3, 4, 5, 8, 13, 31, 32, 33, 62, 63]
RT_K = ([f"rt_zeta_k{k}" for k in KGRID] + [f"rt_{c}_k{k}" for c in ("pi", "rice", "exp_golomb") for k in [0] + KGRID])
RT_K_QUICK = {"rt_zeta_k1", "rt_zeta_k2", "rt_zeta_k8", "rt_zeta_k63", "rt_pi_k0", "rt_pi_k2", "rt_pi_k8", "rt_rice_k0", "rt_rice_k3", "rt_rice_k63",
              "rt_exp_golomb_k0", "rt_exp_golomb_k1", "rt_exp_golomb_k8"}
TVB_H = ["tvb_gamma", "tvb_delta_tt", "tvb_delta_tf", "tvb_delta_ft", "tvb_zeta3", "tvb_omega"]
GOLOMB_B = ["b1", "b2", "b3", "b4", "b5", "b6", "b7", "b8", "b9", "b10", "b11", "b12", "b13", "b15", "b16", "b17", "b20", "b31", "b32", "b33", "b63", "b64",
            "b65", "b100", "b2p32m1", "b2p32", "b2p32p1", "b2p63m1", "b2p63", "b2p63p1", "bmax"]
GOLOMB_QUICK = {"b3", "b7", "b10"}
UNARY_BOUND = "codeword must fit the 256-bit abstract stream (unary / Rice / Golomb quotient < ~250); value, parameter and surrounding bits symbolic"


def _kind_for(h: str):
    if "unary" in h or "rice" in h or "golomb" in h and "exp_golomb" not in h:
        return "bounded", UNARY_BOUND
    return "complete", ""


def _codes(prop: str, only: str, groups, feats: str = "") -> List[Obl]:
    """groups: list of (harness list, quick-set or None=all quick); feats: cargo features of /repo the harnesses are built with"""
    out = []
    pl = prop.lower()
    for hm, E in (("hbe", "BE"), ("hle", "LE")):
        for hs, quick in groups:
            for h in hs:
                kind, bound = _kind_for(h)
                if h.startswith("len_"):
                    kind, bound = "complete", ""
                tier = "quick" if (quick is None or h in quick) else "thorough"
                out.append(Obl(id=f"{pl}.{h}.{E}" + (f".{feats}" if feats else ""), prop=prop, engine="kani", target=f"obl_codes::{hm}::{h}", tier=tier, kind=kind, bound=bound,
                               fns=_fns_for(h), only=only, features=feats, note=(f"built with the `{feats}` feature of /repo (the codes have feature-gated branches)" if feats else "")))
    return out


# codes whose write path has a `#[cfg(feature = "checks")]` branch
CHECKS_DEF_H = ["def_gamma", "def_delta", "def_omega", "def_pi", "def_rice", "def_exp_golomb"]


def _golomb(prop: str, only: str, which) -> List[Obl]:
    out = []
    pl = prop.lower()
    for gm, E in (("golomb_be", "BE"), ("golomb_le", "LE")):
        for b in GOLOMB_B:
            for h in which:
                tier = "quick" if b in GOLOMB_QUICK else "thorough"
                kind, bound = ("bounded", "constant modulus (grid point " + b + "); " + UNARY_BOUND)
                if h == "len":
                    bound = "constant modulus (grid point " + b + "); every value"
                out.append(Obl(id=f"{pl}.golomb.{h}.{b}.{E}", prop=prop, engine="kani", target=f"obl_codes::{gm}::{b}::{h}", tier=tier, kind=kind,
                               bound=bound, fns=CODE_FNS["golomb"], only=only))
    return out


def _verus_golomb(prop: str, which, feats=("",)) -> List[Obl]:
    """Verus obligations on the extracted real text of minimal_binary.rs / golomb.rs (every modulus, every value)."""
    out = []
    pl = prop.lower()
    for feat in feats:
        sfx = ".checks" if feat else ""
        for fn, src in which:
            out.append(Obl(id=f"{pl}.verus.{fn}{sfx}", prop=prop, engine="verus", target=f"golomb:{fn}", features=feat,
                           fns=[src] if src else [], note="unbounded modulus / upper bound in 1..2^64 and unbounded quotient (Seq<bool> stream contract)"))
    return out


def _stdspec(prop: str, which) -> List[Obl]:
    return [Obl(id=f"{prop.lower()}.std_spec.{w}", prop=prop, engine="kani", target=f"obl_stdspec::std_spec_{w}", fns=[],
                note="discharges an assume_specification / std rewrite used by the Verus units") for w in which]


def _verus_rice(prop: str, which, feats="") -> List[Obl]:
    out = []
    for fn, src in which:
        out.append(Obl(id=f"{prop.lower()}.verus.rice.{fn}" + (".checks" if feats else ""), prop=prop, engine="verus", target=f"rice:{fn}", fns=[src] if src else [],
                       features=feats, note="every log2_b in 0..=63, every value, unbounded quotient (Seq<bool> stream contract); " + ("checks" if feats else "default") + " configuration"))
    return out


def _verus_zeta(prop: str, which, feats="") -> List[Obl]:
    out = []
    for fn, src in which:
        out.append(Obl(id=f"{prop.lower()}.verus.zeta.{fn}" + (".checks" if feats else ""), prop=prop, engine="verus", target=f"zeta:{fn}", fns=[src] if src else [],
                       features=feats, note=("checks configuration (write_bits requires a clean value); " if feats else "") + "every k in 1..=63, every value below 2^64-1 (interval capped at 2^64), Seq<bool> stream contract; non-table path (tables: Kani C05)"))
    return out


def _verus_pi(prop: str, which, feats="") -> List[Obl]:
    out = []
    for fn, src in which:
        out.append(Obl(id=f"{prop.lower()}.verus.pi.{fn}" + (".checks" if feats else ""), prop=prop, engine="verus", target=f"pi:{fn}", fns=[src] if src else [],
                       features=feats, note="every k in 0..=63, every value below 2^64-1, Seq<bool> stream contract; " + ("checks" if feats else "default") + " configuration"))
    return out


V_P_W = ("write_pi", "codes::pi::PiWrite::write_pi")
V_P_R = ("read_pi", "codes::pi::PiRead::read_pi")
V_P_L = ("len_pi", "codes::pi::len_pi")
V_P_LEMMAS = [(l, "") for l in ("lemma_pi_lambda", "lemma_pi_small", "lemma_pi_split", "lemma_pi_pre", "lemma_pi_q", "lemma_pi_value", "lemma_pi_top", "lemma_pi_r",
                                 "write_rice", "read_rice", "len_rice")]
def _verus_eg(prop: str, which, feats="") -> List[Obl]:
    out = []
    for fn, src in which:
        out.append(Obl(id=f"{prop.lower()}.verus.exp_golomb.{fn}" + (".checks" if feats else ""), prop=prop, engine="verus", target=f"exp_golomb:{fn}", fns=[src] if src else [],
                       features=feats,
                       note="every k in 0..=63, every value below 2^64-1, Seq<bool> stream contract; " + ("checks" if feats else "default") + " configuration; gamma entry points by contract "
                            "(default implementation proved here, table variants by Kani)"))
    return out


def _verus_delta(prop: str, which, feats="") -> List[Obl]:
    out = []
    for fn, src in which:
        out.append(Obl(id=f"{prop.lower()}.verus.delta.{fn}" + (".checks" if feats else ""), prop=prop, engine="verus", target=f"delta:{fn}", fns=[src] if src else [],
                       features=feats,
                       note="every value below 2^64-1, both bit orders, Seq<bool> stream contract; " + ("checks" if feats else "default") + " configuration; the gamma prefix "
                            "(write_gamma_param / read_gamma_param / len_gamma_param) by contract (default implementation proved in the exp_golomb unit, table variants by Kani); "
                            "delta tables: Kani C05"))
    return out


V_D_W = ("default_write_delta", "codes::delta::default_write_delta (write_delta, write_delta_param)")
V_D_R = ("default_read_delta", "codes::delta::default_read_delta (read_delta, read_delta_param)")
V_D_L = ("len_delta_param", "codes::delta::len_delta_param::<false, _> (len_delta without the delta length table)")
V_D_LEMMAS = [(l, "") for l in ("lemma_delta_lambda", "lemma_delta_split", "lemma_delta_pre", "lemma_delta_q", "lemma_delta_r")]

V_G2_W = ("default_write_gamma", "codes::gamma::default_write_gamma")
V_G2_R = ("default_read_gamma", "codes::gamma::default_read_gamma")
V_G2_L = ("len_gamma_param", "codes::gamma::len_gamma_param::<false>")
V_E_W = ("write_exp_golomb", "codes::exp_golomb::ExpGolombWrite::write_exp_golomb")
V_E_R = ("read_exp_golomb", "codes::exp_golomb::ExpGolombRead::read_exp_golomb")
V_E_L = ("len_exp_golomb", "codes::exp_golomb::len_exp_golomb")
V_E_LEMMAS = [(l, "") for l in ("lemma_gamma_lambda", "lemma_gamma_split", "lemma_gamma_q", "lemma_gamma_r", "lemma_eg_quot", "lemma_eg_split", "lemma_eg_pre",
                                 "lemma_eg_q", "lemma_eg_r", "lemma_pi_value", "lemma_pi_top")]
V_Z_W = ("default_write_zeta", "codes::zeta::default_write_zeta (write_zeta, write_zeta_param)")
V_Z_R = ("default_read_zeta", "codes::zeta::default_read_zeta (read_zeta, read_zeta_param)")
V_Z_L = ("len_zeta_param", "codes::zeta::len_zeta_param::<false> (len_zeta without the length table)")
V_Z_LEMMAS = [(l, "") for l in ("lemma_zeta_params", "lemma_zeta_h_bound", "lemma_zeta_spec", "lemma_zeta_range", "lemma_zeta_split", "lemma_zeta_q", "lemma_zeta_r",
                                 "lemma_limit", "lemma_read_short", "lemma_read_long", "write_minimal_binary", "read_minimal_binary", "len_minimal_binary")]
V_R_W = ("write_rice", "codes::rice::RiceWrite::write_rice")
V_R_R = ("read_rice", "codes::rice::RiceRead::read_rice")
V_R_L = ("len_rice", "codes::rice::len_rice")
V_R_LEMMAS = [(l, "") for l in ("lemma_unary_unique", "lemma_bits_determine", "lemma_low_bits", "lemma_field_low", "lemma_field_injective",
                                 "lemma_rice_no_overflow", "lemma_rice_split", "lemma_rice_q", "lemma_rice_r")]
V_MB_W = ("write_minimal_binary", "codes::minimal_binary::MinimalBinaryWrite::write_minimal_binary")
V_MB_R = ("read_minimal_binary", "codes::minimal_binary::MinimalBinaryRead::read_minimal_binary")
V_MB_L = ("len_minimal_binary", "codes::minimal_binary::len_minimal_binary")
V_G_W = ("write_golomb", "codes::golomb::GolombWrite::write_golomb")
V_G_R = ("read_golomb", "codes::golomb::GolombRead::read_golomb")
V_G_L = ("len_golomb", "codes::golomb::len_golomb")
V_LEMMAS = [(l, "") for l in ("lemma_limit", "lemma_bits_determine", "lemma_field_injective", "lemma_read_short", "lemma_read_long",
                               "lemma_unary_unique", "lemma_golomb_split", "lemma_golomb_q", "lemma_golomb_r", "lemma_golomb_no_overflow",
                               "lemma_mb_len_bound", "lemma_log2f_exists", "lemma_log2_search", "lemma_log2f", "lemma_log2_unique", "lemma_mb_bits_len")]


def _c03_compose() -> List[Obl]:
    """C03 quantifies over reader kinds, word sizes and positions: the code-level obligations are on the abstract stream, so the primitives of
    every real reader / writer the codes run on are part of C03's check too (their contracts are C01 / C02)."""
    out = []
    out += _verus_reader_bits("C03", ["read_bits", "peek_bits", "skip_bits_after_peek", "refill"], lemmas=False)
    out += [o for o in _verus_reader_unary("C03", fns=("read_unary",), lemmas=False)]
    out += [o for o in _verus_bitreader_unary("C03", lemmas=False)]
    out += [o for o in _verus_writer_bits("C03") if ".write_bits.BE." in o.id or ".write_bits.LE." in o.id]
    out += [o for o in _verus_writer_unary("C03") if ".write_unary.BE." in o.id or ".write_unary.LE." in o.id]
    for el, E in ENDIANS:
        for op in ("read_bits", "peek_bits", "read_unary_k2"):
            out.append(Obl(id=f"c03.compose.bitreader.{op}.{E}", prop="C03", engine="kani", target=f"obl_bitreader::{el}::c02_{op}", only=r"c02|c09",
                           kind="bounded" if "unary" in op else "complete", bound="backend window K=2 words" if "unary" in op else "",
                           fns=[f"BitReader<{E},_>::{op.replace('_k2', '')}"], note="primitive of the unbuffered reader the codes run on (contract of C02)"))
    return out


def _c03() -> List[Obl]:
    return _c03_compose() + (_verus_golomb("C03", [V_MB_W, V_MB_R, V_G_W, V_G_R] + V_LEMMAS) + _stdspec("C03", ["ilog2"]) + _verus_rice("C03", [V_R_W, V_R_R] + V_R_LEMMAS) + _verus_zeta("C03", [V_Z_W, V_Z_R] + V_Z_LEMMAS) + _verus_pi("C03", [V_P_W, V_P_R] + V_P_LEMMAS) + _verus_eg("C03", [V_G2_W, V_G2_R, V_E_W, V_E_R] + V_E_LEMMAS) + _verus_delta("C03", [V_D_W, V_D_R] + V_D_LEMMAS) +_codes("C03", r"c03|contract", [(RT_BASE, None), (RT_K, RT_K_QUICK)]) + _golomb("C03", r"c03|contract", ["rt", "mb_rt"]))


def _c04() -> List[Obl]:
    return (_verus_golomb("C04", [V_MB_W, V_G_W, ("lemma_limit", "")]) + _stdspec("C04", ["ilog2"]) + _verus_rice("C04", [V_R_W]) + _verus_zeta("C04", [V_Z_W, ("lemma_zeta_params", "")]) + _verus_pi("C04", [V_P_W, ("lemma_pi_lambda", "")]) + _verus_eg("C04", [V_G2_W, V_E_W, ("lemma_eg_quot", "")]) + _verus_delta("C04", [V_D_W, ("lemma_delta_lambda", "")]) +_codes("C04", r"c04|contract", [(DEF_H, None)]) + _codes("C04", r"c04|contract", [(CHECKS_DEF_H, {"def_omega", "def_rice"})], feats="checks")
            + _golomb("C04", r"c04|contract", ["def", "mb_def"]))


def _c05() -> List[Obl]:
    out = _codes("C05", r"c05|contract", [(["tvb_gamma", "tvb_delta_tt", "tvb_delta_tf", "tvb_delta_ft", "tvb_zeta3"], {"tvb_gamma", "tvb_delta_tt", "tvb_zeta3"})])
    # encoding / length tables: table variants against the same definition as the bit-by-bit variants
    out += _codes("C05", r"c04|c06|contract", [(["def_gamma", "def_gamma_t", "def_delta", "def_delta_tt", "def_delta_tf", "def_delta_ft", "def_zeta3", "def_zeta3_t"], None),
                                                (["len_gamma", "len_gamma_t", "len_delta", "len_delta_tt", "len_delta_ft", "len_delta_tf", "len_zeta", "len_zeta_t"], None)])
    for t in ("gamma_be", "gamma_le", "delta_be", "delta_le", "zeta_be", "zeta_le"):
        out.append(Obl(id=f"c05.table.{t}", prop="C05", engine="kani", target=f"obl_codes::tables::{t}", fns=[f"codes::{t.split('_')[0]}_tables::{{READ_*,READ_LEN_*,read_table_{t.split('_')[1]}}}"]))
    return out


LEN_OBJ_NAMES = (["unary", "gamma", "delta", "omega", "vbyte_be", "vbyte_le"] + [f"zeta{k}" for k in range(1, 11)] + [f"rice{k}" for k in range(0, 11)]
                 + [f"pi{k}" for k in range(0, 11)] + [f"golomb{k}" for k in range(1, 11)] + [f"exp_golomb{k}" for k in range(0, 11)])


def _len_objects(prop: str) -> List[Obl]:
    """length-dispatch objects on every named code, every value (code concrete per harness, value symbolic)"""
    quick = {"golomb4", "golomb8", "golomb1", "rice0", "pi0", "zeta1", "exp_golomb0", "omega", "zeta3", "golomb7"}
    out = [Obl(id=f"{prop.lower()}.len_objects.{nm}", prop=prop, engine="kani", target=f"obl_c10::hlen::len_objects_{nm}",
               tier="quick" if nm in quick else "thorough",
               fns=[f"FuncCodeLen::new({nm}).len and Codes::len against the code's own length function, every value"]) for nm in LEN_OBJ_NAMES]
    for E in ("be", "le"):
        out.append(Obl(id=f"{prop.lower()}.len_objects.bits.{E.upper()}", prop=prop, engine="native", target=f"c10_names:c10_names_func_{E}", kind="bounded",
                       bound="concrete execution: all 59 named codes x 11 values", fns=["FuncCodeLen::new(code).len against the bits written and the bits consumed by the named code"]))
    return out


def _c06() -> List[Obl]:
    return _len_objects("C06") + (_verus_golomb("C06", [V_MB_L, V_G_L, V_MB_W, V_G_W, V_MB_R, V_G_R, ("lemma_limit", ""), ("lemma_golomb_no_overflow", "")]) + _stdspec("C06", ["ilog2"]) + _verus_rice("C06", [V_R_L, V_R_W, V_R_R, ("lemma_rice_no_overflow", "")]) + _verus_zeta("C06", [V_Z_L, V_Z_W, V_Z_R, ("lemma_zeta_params", "")]) + _verus_pi("C06", [V_P_L, V_P_W, V_P_R, ("lemma_pi_small", "")]) + _verus_eg("C06", [V_G2_L, V_G2_W, V_G2_R, V_E_L, V_E_W, V_E_R, ("lemma_eg_quot", "")]) + _verus_delta("C06", [V_D_L, V_D_W, V_D_R, ("lemma_delta_lambda", "")]) +_codes("C06", r"c06", [(LEN_H, None), (DEF_H, None)]) + _golomb("C06", r"c06", ["len", "def"])
            + _codes("C06", r"bits consumed", [(["rt_gamma", "rt_delta", "rt_omega", "rt_zeta3", "rt_vbyte_be", "rt_zeta_k2", "rt_pi_k2", "rt_exp_golomb_k1"], None)]))


def _c09_codes() -> List[Obl]:
    return _codes("C09", r"c09", [(["tvb_gamma", "tvb_delta_tt", "tvb_zeta3", "tvb_omega"], {"tvb_gamma", "tvb_zeta3", "tvb_omega"})])


CF_LEMMAS = ("lemma_chunk", "lemma_cast", "lemma_pow2_strictly_increases_or_eq", "lemma_be_append_field", "lemma_be_fill", "lemma_word_field", "lemma_be_tail",
             "lemma_or_bits", "lemma_shr1_bits", "lemma_shr_bits", "lemma_rotr_bits", "lemma_le_append_field", "lemma_le_fill", "lemma_le_tail",
             "lemma_wbit", "lemma_push")


def _verus_writer_copy_from(prop: str) -> List[Obl]:
    """Unbounded proof of the optimised BufBitWriter::copy_from (every n, generic same-endianness source), one Verus unit per word type."""
    out = []
    pl = prop.lower()
    for w in WWORDS:
        bits = w[1:]
        unit = f"writer_copy_from@W={w};BITS={bits}"
        for el, E in ENDIANS:
            out.append(Obl(id=f"{pl}.verus.copy_from.{E}.{w}", prop=prop, engine="verus", target=f"{unit}:copy_from_{el}",
                           fns=[f"BufBitWriter<{E},_<{w}>>::copy_from"],
                           note="real text, WW::Word instantiated; every n, every Inv_W state, any same-endianness BitRead source (trait contract); "
                                "view' = view ++ the reader's next n bits, reader advanced by n; write_bits taken by contract (Kani c01.write_bits)"))
        for l in CF_LEMMAS:
            out.append(Obl(id=f"{pl}.verus.copy_from.{l}.{w}", prop=prop, engine="verus", target=f"{unit}:{l}", fns=[]))
        out.append(Obl(id=f"{pl}.std_spec.rotate_right.{w}", prop=prop, engine="kani", target=f"obl_stdspec::std_spec_rotate_right_{w}", fns=[f"{w}::rotate_right"],
                       note="discharges the rotate_right axiom of the Verus unit"))
        out.append(Obl(id=f"{pl}.std_spec.byte_order.{w}", prop=prop, engine="kani", target=f"obl_stdspec::std_spec_byte_order_{w}", fns=[f"{w}::to_be", f"{w}::to_le"],
                       note="discharges the byte-order axioms of the Verus unit"))
    return out


CT_LEMMAS = ("lemma_ct_clean", "lemma_ct_be_high_zero", "lemma_ct_le_high_zero", "lemma_word_clean", "lemma_mask64_bits", "lemma_small", "lemma_sbits_add", "lemma_cast64_bits", "lemma_up_bits", "lemma_shr_bits_w", "lemma_clear_low", "lemma_ct_be_from_buffer", "lemma_ct_word",
             "lemma_ct_be_final", "lemma_ct_le_from_buffer", "lemma_ct_le_final", "lemma_sbit_word", "lemma_shl1_bits", "lemma_shr_bits", "lemma_upcast_bits",
             "lemma_wbit_bb", "lemma_wbit_w")


def _verus_reader_copy_to(prop: str) -> List[Obl]:
    """Unbounded proof of the optimised BufBitReader::copy_to (every n, every Inv_R state, generic same-endianness destination)."""
    out = []
    pl = prop.lower()
    for w in RWORDS:
        n = int(w[1:])
        bb = BBTYPE[w]
        unit = f"reader_copy_to@W={w};N={n};BB={bb};M={2 * n};LZINC={'lz128.inc' if bb == 'u128' else 'empty.inc'}"
        for el, E in ENDIANS:
            out.append(Obl(id=f"{pl}.verus.copy_to.{E}.{w}", prop=prop, engine="verus", target=f"{unit}:copy_to_{el}",
                           fns=[f"BufBitReader<{E},_<{w}>>::copy_to"],
                           note="real text, WR::Word / BB<WR> instantiated; every n, every Inv_R state (incl. more than one word buffered), any same-endianness "
                                "BitWrite destination (trait contract); writer view' = view ++ the reader's next n bits, reader advanced by n, Inv_R'; "
                                "read_bits taken by contract (Kani c02.read_bits); default configuration"))
        for l in CT_LEMMAS:
            out.append(Obl(id=f"{pl}.verus.copy_to.{l}.{w}", prop=prop, engine="verus", target=f"{unit}:{l}", fns=[]))
        out.append(Obl(id=f"{pl}.std_spec.rotate_left.{bb}", prop=prop, engine="kani", target=f"obl_stdspec::std_spec_rotate_left_{bb}", fns=[f"{bb}::rotate_left"],
                       note="discharges the rotate_left axiom of the Verus unit"))
    out.append(Obl(id=f"{pl}.std_spec.ord_min", prop=prop, engine="kani", target="obl_stdspec::std_spec_ord_min_u64", fns=["Ord::min"],
                   note="discharges the Ord::min rewrite of the Verus unit"))
    out += _verus_reader_bits(prop, ["read_bits"], lemmas=False)
    # the read_bits contract clause the unit relies on (Kani cross-check)
    for el, E in ENDIANS:
        for w in RWORDS:
            out.append(Obl(id=f"{pl}.read_bits_contract.{E}.{w}", prop=prop, engine="kani", target=f"obl_reader::{el}::{w}_::c02_read_bits",
                           tier="quick" if w in QUICK_R else "thorough", only=r"c02.read_bits",
                           fns=[f"BufBitReader<{E},_<{w}>>::read_bits"], note="the read_bits contract the Verus copy_to unit takes as given"))
    return out


def _c08() -> List[Obl]:
    out = _stdspec("C08", ["min_u64"]) + _verus_writer_copy_from("C08") + _verus_reader_copy_to("C08")
    for u, fn in (("copy_to_generic", "copy_to"), ("copy_from_generic", "copy_from")):
        for feats in ("", "checks"):
            sfx = ".checks" if feats else ""
            out.append(Obl(id=f"c08.generic.{fn}{sfx}", prop="C08", engine="verus", target=f"{u}:{fn}", features=feats,
                           fns=[f"traits::bits::{'BitRead' if fn == 'copy_to' else 'BitWrite'}::{fn} (default method)"],
                           note="real text of the default chunked loop inside the contract-carrying trait declaration; unbounded n"))
            out.append(Obl(id=f"c08.generic.{fn}.lemma_chunk{sfx}", prop="C08", engine="verus", target=f"{u}:lemma_chunk", features=feats, fns=[]))
    return out


C14_W = ['write_bits', 'write_unary', 'write_gamma', 'write_delta', 'write_zeta', 'write_zeta3', 'write_omega', 'write_pi', 'write_rice', 'write_exp_golomb', 'write_vbyte_be', 'write_gamma_table', 'write_delta_table', 'write_minimal_binary', 'copy_from']
C14_R = ['read_bits', 'read_unary', 'read_gamma', 'read_delta', 'read_zeta', 'read_zeta3', 'read_omega', 'read_pi', 'read_rice', 'read_exp_golomb', 'read_vbyte_le', 'read_gamma_table', 'read_delta_table', 'read_zeta3_table', 'read_minimal_binary', 'skip_bits', 'peek_skip_after_peek', 'copy_to']
C14_QUICK = {"write_bits", "write_unary", "write_gamma", "write_zeta", "write_omega", "write_delta_table", "copy_from",
             "read_bits", "read_unary", "read_gamma", "read_zeta", "read_zeta3", "read_omega", "read_gamma_table", "skip_bits", "peek_skip_after_peek", "copy_to"}


def _c14() -> List[Obl]:
    out = []
    for hm, E in (("hbe", "BE"), ("hle", "LE")):
        out.append(Obl(id=f"c14.count_writer.flush.{E}", prop="C14", engine="kani", target=f"obl_c14::{hm}::count_writer_flush", fns=["CountBitWriter::flush"]))
        out.append(Obl(id=f"c14.count_reader.seek.{E}", prop="C14", engine="kani", target=f"obl_c14::{hm}::count_reader_seek",
                       fns=["<CountBitReader as BitSeek>::{bit_pos,set_bit_pos}"], note="wrapper created around a stream at an arbitrary position, arbitrary counter"))
        out.append(Obl(id=f"c14.count_writer.seek.{E}", prop="C14", engine="kani", target=f"obl_c14::{hm}::count_writer_seek",
                       fns=["<CountBitWriter as BitSeek>::{bit_pos,set_bit_pos}"]))
        for wrap, names, cls in (("count_writer", C14_W, "CountBitWriter"), ("dbg_writer", C14_W, "DbgBitWriter"),
                                 ("count_reader", C14_R, "CountBitReader"), ("dbg_reader", C14_R, "DbgBitReader")):
            for nm in names:
                quick = nm in C14_QUICK and (wrap.startswith("count") or nm in ("write_bits", "write_gamma", "read_bits", "read_zeta", "read_omega"))
                bounded = nm in ("write_unary", "read_unary", "write_rice", "read_rice", "copy_from", "copy_to", "skip_bits")
                out.append(Obl(id=f"c14.{wrap}.{nm}.{E}", prop="C14", engine="kani", target=f"obl_c14::{hm}::{wrap}_{nm}",
                               tier="quick" if quick else "thorough", kind="bounded" if bounded else "complete",
                               bound="operand bounded by the 256-bit abstract stream (unary/Rice quotient, copy/skip length <= 100)" if bounded else "",
                               fns=[f"{cls}::{nm.replace('_table', '').replace('peek_skip_after_peek', 'peek_bits + skip_bits_after_peek')} (and every code reaching the stream through the wrapper's primitives)"]))
    return out


C10_IDS = ['unary', 'gamma', 'delta', 'omega', 'vbyte_be', 'vbyte_le', 'zeta2', 'zeta3', 'zeta4', 'zeta5', 'zeta6', 'zeta7', 'zeta8', 'zeta9', 'zeta10', 'rice1', 'rice2', 'rice3', 'rice4', 'rice5', 'rice6', 'rice7', 'rice8', 'rice9', 'rice10', 'pi1', 'pi2', 'pi3', 'pi4', 'pi5', 'pi6', 'pi7', 'pi8', 'pi9', 'pi10', 'golomb3', 'golomb5', 'golomb6', 'golomb7', 'golomb9', 'golomb10', 'exp_golomb1', 'exp_golomb2', 'exp_golomb3', 'exp_golomb4', 'exp_golomb5', 'exp_golomb6', 'exp_golomb7', 'exp_golomb8', 'exp_golomb9', 'exp_golomb10']


def _verus_dispatch(prop: str) -> List[Obl]:
    out = []
    for fn, real in (("dyn_write", "<Codes as DynamicCodeWrite>::write (Codes::write)"), ("dyn_read", "<Codes as DynamicCodeRead>::read (Codes::read)"),
                     ("code_len_dispatch", "<Codes as CodeLen>::len")):
        out.append(Obl(id=f"{prop.lower()}.verus.dispatch.{fn}", prop=prop, engine="verus", target=f"dispatch:{fn}", fns=[real],
                       note="every variant and every accepted parameter: the dispatcher has exactly the effect of the named code's own method (relational; "
                            "the codes' effects are uninterpreted functions)"))
    out.append(Obl(id=f"{prop.lower()}.verus.zeta1_is_gamma", prop=prop, engine="verus", target="zeta:lemma_zeta1_is_gamma", fns=[],
                   note="discharges the axiom of the dispatch unit: zeta_1 and gamma have identical codewords and lengths for every value"))
    return out


def _c10() -> List[Obl]:
    out = _verus_dispatch("C10")
    reps = ["gamma", "delta", "omega", "zeta3", "zeta5", "rice4", "pi1", "pi2", "golomb3", "exp_golomb2", "vbyte_be", "vbyte_le"]
    mechs = (("codes_enum", "Codes::{read,write,len}"), ("const", "ConstCode<ID>::{read,write,len}"),
             ("func", "FuncCodeReader/FuncCodeWriter/FuncCodeLen::new + call"), ("factory", "FactoryFuncCodeReader::{new,get}"),
             ("stats", "CodesStatsWrapper::{read,write}"))
    for E in ("be", "le"):
        for mech, what in (("codes", "Codes::{read,write,len}"), ("const", "ConstCode<ID>::{read,write,len}"),
                           ("func", "FuncCodeReader/FuncCodeWriter/FuncCodeLen::new + call"), ("factory", "FactoryFuncCodeReader::{new,get}"),
                           ("stats", "CodesStatsWrapper::{read,write} (pass-through + exactly update(value))")):
            out.append(Obl(id=f"c10.grid.{mech}.{E.upper()}", prop="C10", engine="native", target=f"c10_grid:c10_grid_{mech}_{E}", kind="bounded",
                           bound="concrete execution: all 51 identifiers x 11 values (0,1,2,5,7,77,1000,65535,2^20-1,2^32+5,2^40+7), 5 preceding bits",
                           fns=[what + " for every identifier"]))
    all_ids = (["unary", "gamma", "delta", "omega", "vbyte_be", "vbyte_le"] + [f"zeta{k}" for k in range(2, 11)] + [f"rice{k}" for k in range(1, 11)]
               + [f"pi{k}" for k in range(1, 11)] + [f"golomb{k}" for k in (3, 5, 6, 7, 9, 10)] + [f"exp_golomb{k}" for k in range(1, 11)])
    for hm, E in (("hbe", "BE"), ("hle", "LE")):
        for r in all_ids:
            if r in reps:
                continue
            for mech in ("codes_enum", "const", "func"):
                kind = "bounded" if (r == "unary" or r.startswith("rice") or r.startswith("golomb")) else "complete"
                out.append(Obl(id=f"c10.all_values.{mech}.{r}.{E}", prop="C10", engine="kani", target=f"obl_c10x::{hm}::sym_{mech}_{r}", tier="thorough", kind=kind,
                               bound="codeword must fit the 256-bit model" if kind == "bounded" else "", fns=[f"dispatch of {r} through {mech}: read, write, len for every value"]))
    for hm, E in (("hbe", "BE"), ("hle", "LE")):
        for r in reps:
            for mech in ("codes_enum", "const", "func"):
                quick = E == "BE" and ((mech == "const" and r in ("pi1", "zeta3")) or (mech == "func" and r in ("rice4",)) or (mech == "codes_enum" and r in ("gamma",)))
                kind = "bounded" if r in ("rice4", "golomb3") else "complete"
                out.append(Obl(id=f"c10.all_values.{mech}.{r}.{E}", prop="C10", engine="kani", target=f"obl_c10::{hm}::sym_{mech}_{r}",
                               tier="quick" if quick else "thorough", kind=kind,
                               bound="codeword must fit the 256-bit model" if kind == "bounded" else "", fns=[f"dispatch of {r} through {mech}: read, write, len for every value"]))
    for E in ("be", "le"):
        out.append(Obl(id=f"c10.names.const.{E.upper()}", prop="C10", engine="native", target=f"c10_names:c10_names_const_{E}", kind="bounded",
                       bound="concrete execution: all 59 named constants of code_consts (aliases included) x 11 values, 5 preceding bits",
                       fns=["code_consts::* (the named constants, aliases ZETA1/RICE0/PI0/GOLOMB1,2,4,8/EXP_GOLOMB0 included) through ConstCode<NAME>::{read,write,len}"]))
        out.append(Obl(id=f"c10.names.to_code_const.{E.upper()}", prop="C10", engine="native", target=f"c10_names:c10_names_to_code_const_{E}", kind="bounded",
                       bound="concrete execution: all 59 named codes x 11 values",
                       fns=["Codes::to_code_const (yields the named constant) then Codes::from_code_const + write performs the named code"]))
        for mech, what in (("codes", "Codes::{read,write,len}"), ("func", "FuncCodeReader/FuncCodeWriter/FuncCodeLen::new + call"),
                           ("factory", "FactoryFuncCodeReader::{new,get}"), ("stats", "CodesStatsWrapper::{read,write}")):
            out.append(Obl(id=f"c10.names.{mech}.{E.upper()}", prop="C10", engine="native", target=f"c10_names:c10_names_{mech}_{E}", kind="bounded",
                           bound="concrete execution: all 59 named values of Codes (aliases Zeta{1}, Rice{0}, Pi{0}, Golomb{1,2,4,8}, ExpGolomb{0} included) x 11 values, 5 preceding bits",
                           fns=[what + " for every named enumeration value"]))
    for E in ("be", "le"):
        out.append(Obl(id=f"c10.with_func.{E.upper()}", prop="C10", engine="native", target=f"c10_with_func:c10_with_func_{E}", kind="bounded",
                       bound="concrete execution: 11 values; caller-supplied zeta_4 functions; 8 codes for the pointers handed out",
                       fns=["FuncCodeReader/FuncCodeWriter/FuncCodeLen::{new_with_func,get_func}", "FactoryFuncCodeReader::{new_with_func,inner}"]))
    for t in ("len", "writer", "reader"):
        out.append(Obl(id=f"c10.unsupported.{t}", prop="C10", engine="native", target=f"c10_unsupported:c10_unsupported_{t}", kind="bounded",
                       bound="concrete execution: 32 unsupported codes", fns=[f"FuncCode{t.capitalize() if t != 'len' else 'Len'}::new (rejection)"]))
    return out


def _c12() -> List[Obl]:
    out = []
    LS = (0, 1, 7, 8, 9, 17)
    QL = (7, 9)
    for el, E in ENDIANS:
        for w in WWORDS:
            for L in LS:
                # quick: the narrowest, the 64-bit and the 128-bit word (the chunking of the slice depends on the word size)
                tier = "quick" if ((w in ("u8", "u64") and L in QL) or (w == "u128" and L == 17)) else "thorough"
                out.append(Obl(id=f"c12.write.{E}.{w}.L{L}", prop="C12", engine="kani", target=f"obl_c12::wr_{el}::{w}_::c12_write_l{L}", tier=tier,
                               kind="bounded", bound=f"slice length = {L} bytes (writer state, contents, bit offset symbolic)",
                               fns=[f"<BufBitWriter<{E},_<{w}>> as std::io::Write>::write"]))
        # the io::Write view goes through write_bits(chunk, 64), whose argument check is a feature-gated branch: built with `checks`
        for w, L, tier in (("u64", 9, "quick"), ("u8", 9, "thorough"), ("u128", 17, "thorough")):
            out.append(Obl(id=f"c12.write.{E}.{w}.L{L}.checks", prop="C12", engine="kani", target=f"obl_c12::wr_{el}::{w}_::c12_write_l{L}", tier=tier, features="checks",
                           kind="bounded", bound=f"slice length = {L} bytes (writer state, contents, bit offset symbolic)",
                           fns=[f"<BufBitWriter<{E},_<{w}>> as std::io::Write>::write"], note="built with the `checks` feature of /repo"))
        for w in RWORDS:
            for L in LS:
                tier = "quick" if (w in ("u8", "u64") and L in QL) else "thorough"
                out.append(Obl(id=f"c12.read.{E}.{w}.L{L}", prop="C12", engine="kani", target=f"obl_c12::rd_{el}::{w}_::c12_read_l{L}", tier=tier,
                               kind="bounded", bound=f"slice length = {L} bytes (reader state, stream, bit offset symbolic)",
                               fns=[f"<BufBitReader<{E},_<{w}>> as std::io::Read>::read"]))
        for L in LS:
            out.append(Obl(id=f"c12.read.{E}.unbuffered.L{L}", prop="C12", engine="kani", target=f"obl_c12::rd_{el}::c12_read_unbuffered_l{L}",
                           tier="quick" if L in QL else "thorough", kind="bounded", bound=f"slice length = {L} bytes",
                           fns=[f"<BitReader<{E},_> as std::io::Read>::read"]))
    return out


def _c15() -> List[Obl]:
    out = []
    for sz, tier, txt in (("small", "quick", "CodesStats<3,4,3,3,3>"), ("dflt", "thorough", "CodesStats<10,20,10,10,10> (default)")):
        for h, fns in (("update", ["CodesStats::update", "CodesStats::update_many"]), ("merge", ["CodesStats::add", "AddAssign", "Add", "Sum"]),
                       ("best", ["CodesStats::best_code"]), ("default", ["CodesStats::default"])):
            if sz == "dflt" and h == "update":
                continue    # exceeds one hour of CBMC time (60 tracked codes, 20 Golomb moduli): native obligation c15.default_instance.update_exact instead
            out.append(Obl(id=f"c15.{h}.{sz}", prop="C15", engine="kani", target=f"obl_c15::{sz}_{h}", tier=tier, fns=[f"{f} on {txt}" for f in fns],
                           note="value < 2^40, multiplicity 1, previous totals < 2^40 (the property's no-overflow restriction)" if h == "update" else ""))
        for g in ("0", "77", "big"):
            if sz == "dflt" and g == "big":
                continue    # same: exceeds the time limit
            out.append(Obl(id=f"c15.update_many.{g}.{sz}", prop="C15", engine="kani", target=f"obl_c15::{sz}_update_many_{g}", tier=tier, kind="bounded",
                           bound="value fixed to a grid point (0, 77, 2^33+12345); multiplicity symbolic < 2^20", fns=[f"CodesStats::update_many on {txt}"]))
    for t, b in (("update_exact", "26 values x 4 multiplicities: every tracked total of the default instance against an independent recomputation with Codes::len"),
                 ("best_is_minimum", "single values, pairs and one long multiset: reported cost = minimum total = bits the reported code really needs"),
                 ("merge_is_union", "add, +, +=, sum of two partial statistics = statistics of the union")):
        out.append(Obl(id=f"c15.default_instance.{t}", prop="C15", engine="native", target=f"c15_default:c15_default_{t}", kind="bounded",
                       bound="concrete execution: " + b, fns=["CodesStats<10,20,10,10,10>::{update, update_many, add, best_code}"]))
    for hm, E in (("hbe", "BE"), ("hle", "LE")):
        for disp, tr in (("", "DynamicCode"), ("static_", "StaticCode")):
            rw = "read" if E == "BE" else "write"
            out.append(Obl(id=f"c15.shared.{disp}{rw}", prop="C15", engine="kani", target=f"obl_c15::small_shared_{disp}{rw}",
                           fns=[f"<CodesStatsWrapper as {tr}{rw.capitalize()}>::{rw} (critical sections on the statistics lock under arbitrary interference of other threads)"],
                           note="rely/guarantee on the lock: Mutex::lock is stubbed to overwrite the protected value with an arbitrary one at every acquisition (what other threads may have done); "
                                "every critical section must leave the value unchanged or apply exactly update(value), exactly one applies it; instance <3,4,3,3,3>; mutual exclusion of std::sync::Mutex is trusted",
                           no_playback="the counterexample is an interference schedule (values other threads store between two critical sections), which a single-threaded native run cannot reproduce; Kani's trace values are attached"))
        out.append(Obl(id=f"c15.wrapper.{E}", prop="C15", engine="native", target=f"c10_grid:c10_grid_stats_{E.lower()}", kind="bounded",
                       bound="concrete execution: 51 identifiers x 11 values", fns=["CodesStatsWrapper::{read,write}: pass-through and exactly one update(value) per successful operation"]))
    return out


def _c16() -> List[Obl]:
    out = [Obl(id="c16.ids", prop="C16", engine="kani", target="obl_c16::c16_ids", fns=["Codes::from_code_const", "Codes::to_code_const"]),
           Obl(id="c16.code_to_id_and_back", prop="C16", engine="kani", target="obl_c16::c16_back", fns=["Codes::to_code_const", "Codes::from_code_const"]),
           Obl(id="c16.eq_same_class", prop="C16", engine="kani", target="obl_c16::c16_eq", fns=["<Codes as PartialEq>::eq"])]
    for fn, real in (("codes_eq", "<Codes as PartialEq>::eq"), ("lemma_rice0_unary", ""), ("lemma_golomb1_unary", ""), ("lemma_golomb_pow2_rice", ""),
                     ("lemma_eg0_gamma", "")):
        out.append(Obl(id=f"c16.verus.classes.{fn}", prop="C16", engine="verus", target=f"classes:{fn}", fns=[real] if real else [],
                       note="codes that compare equal have identical codewords for every value and both bit orders (unbounded quotients)"))
    out.append(Obl(id="c16.verus.zeta1_is_gamma", prop="C16", engine="verus", target="zeta:lemma_zeta1_is_gamma", fns=[],
                   note="discharges the zeta_1 = gamma axiom of the classes unit"))
    for cl in ("unary", "gamma", "rice1", "rice2", "rice3"):
        for el in ("be", "le"):
            kind = "bounded" if cl in ("unary", "rice1", "rice2", "rice3") else "complete"
            out.append(Obl(id=f"c16.class.{cl}.{el.upper()}", prop="C16", engine="kani", target=f"obl_c16::class_{cl}_{el}", kind=kind,
                           bound="codeword must fit the 256-bit model (every value otherwise)" if kind == "bounded" else "",
                           fns=["Codes::write / Codes::len for the members of a class of equal codes"]))
    # the classes whose members go through feature-gated (`checks`) branches of the codes, built with that feature
    for cl in ("unary", "gamma"):
        for el in ("be", "le"):
            kind = "bounded" if cl == "unary" else "complete"
            out.append(Obl(id=f"c16.class.{cl}.{el.upper()}.checks", prop="C16", engine="kani", target=f"obl_c16::class_{cl}_{el}", kind=kind, features="checks",
                           tier="quick" if el == "be" else "thorough",
                           bound="codeword must fit the 256-bit model (every value otherwise)" if kind == "bounded" else "",
                           fns=["Codes::write / Codes::len for the members of a class of equal codes"], note="built with the `checks` feature of /repo"))
    for t in ("parameterless", "zeta", "pi", "golomb", "exp_golomb", "rice"):
        out.append(Obl(id=f"c16.str.{t}", prop="C16", engine="native", target=f"c16_strings:c16_str_{t}", kind="bounded",
                       bound="concrete execution: parameter grid {0,1,2,3,7,10,11,63,64,2^32,usize::MAX}", fns=["<Codes as Display>::fmt", "<Codes as FromStr>::from_str"]))
    for t, b in (("reject_malformed", "19 malformed strings"), ("ids_out_of_range_rejected", "identifiers 0..=50 accepted, 6 out-of-range ones rejected"),
                 ("codes_without_identifier_rejected", "8 codes without identifier")):
        out.append(Obl(id=f"c16.{t}", prop="C16", engine="native", target=f"c16_strings:c16_{t}", kind="bounded",
                       bound="concrete execution: " + b, fns=["<Codes as FromStr>::from_str" if "malformed" in t else "Codes::{from_code_const,to_code_const}"]))
    return out


def _c18() -> List[Obl]:
    out = []
    for h, fns in (("write_read_be", ["vbyte_write_be", "vbyte_read_be"]), ("write_read_le", ["vbyte_write_le", "vbyte_read_le"]),
                   ("write_read_generic_be", ["vbyte_write::<BE>", "vbyte_read::<BE>"]), ("write_read_generic_le", ["vbyte_write::<LE>", "vbyte_read::<LE>"]),
                   # (vbyte_write_le hands its sink one byte per call: a sink that makes progress cannot shorten it, so there is no LE twin;
                   #  the LE harness also needs > 900 s of CBMC for its ten nested write_all loops)
                   ("short_sink_be", ["vbyte_write_be (sink accepting 1..=len bytes per call)"]),
                   ("short_sink_generic_be", ["vbyte_write::<BE> (short-write sink)"]),
                   ("complete_be", ["vbyte_read_be", "vbyte_write_be"]), ("complete_le", ["vbyte_read_le", "vbyte_write_le"])):
        out.append(Obl(id=f"c18.{h}", prop="C18", engine="kani", target=f"obl_c18::{h}", fns=["codes::vbyte::" + f for f in fns],
                       tier="thorough" if h.startswith("short_sink_generic") else "quick"))
    # the bit-stream codes against the same definition (C04) and the length function (C06)
    for hm, E in (("hbe", "BE"), ("hle", "LE")):
        for h in ("def_vbyte_be", "def_vbyte_le", "rt_vbyte_be", "rt_vbyte_le", "len_vbyte"):
            out.append(Obl(id=f"c18.bitstream.{h}.{E}", prop="C18", engine="kani", target=f"obl_codes::{hm}::{h}",
                           fns=CODE_FNS["vbyte"], only=r"c04|c06|c03|contract"))
    return out


def _c03_params() -> List[Obl]:
    out = []
    for h in ("reader_be_u16", "reader_le_u16", "reader_be_u32", "reader_le_u32", "writer_be_u8", "writer_le_u64"):
        for m in ("gamma", "delta", "zeta3", "zeta"):
            out.append(Obl(id=f"c03.params.{h}.{m}", prop="C03", engine="kani", target=f"obl_params::c03_params_{h}_{m}",
                           tier="quick" if (h in ("reader_be_u16", "writer_be_u8") and m == "gamma") else "thorough",
                           kind="bounded" if "writer" in h else "complete",
                           bound="backend window of 20 words; writer state and value symbolic (zeta: k = 2)" if "writer" in h else "",
                           note="" if "writer" in h else "end to end: real BufBitWriter default method -> words -> real BufBitReader default method, every value, 0..=9 symbolic preceding bits, 20 symbolic following bits",
                           fns=["codes::params: GammaRead/DeltaRead/ZetaRead for BufBitReader" if "reader" in h else "codes::params: GammaWrite/DeltaWrite/ZetaWrite for BufBitWriter"]))
    return out


def _c05_peek() -> List[Obl]:
    out = _verus_reader_bits("C05", ["peek_bits", "refill"], lemmas=False)
    for el, E in ENDIANS:
        for w in RWORDS:
            out.append(Obl(id=f"c05.peek_width.{E}.{w}", prop="C05", engine="kani", target=f"obl_params::c05_peek_width_{el}_{w}",
                           fns=[f"BufBitReader<{E},_<{w}>>::new (look-ahead announced to check_tables)"]))
            out.append(Obl(id=f"c05.peek_contract.{E}.{w}", prop="C05", engine="kani", target=f"obl_reader::{el}::{w}_::c02_peek_bits", only=r"c02.peek|c09.peek",
                           tier="quick" if w in QUICK_R else "thorough", fns=[f"BufBitReader<{E},_<{w}>>::peek_bits (guaranteed width W::BITS)"]))
        out.append(Obl(id=f"c05.peek_width.{E}.unbuffered", prop="C05", engine="kani", target=f"obl_params::c05_peek_width_unbuffered_{el}",
                       fns=[f"BitReader<{E},_>::new"]))
        # the unbuffered reader's look-ahead is what its table decoding indexes with
        out.append(Obl(id=f"c05.peek_contract.{E}.unbuffered", prop="C05", engine="kani", target=f"obl_bitreader::{el}::c02_peek_bits", only=r"c02|c09",
                       fns=[f"BitReader<{E},_>::peek_bits (guaranteed width 32)"]))
        out.append(Obl(id=f"c05.skip_after_peek.{E}.unbuffered", prop="C05", engine="kani", target=f"obl_bitreader::{el}::c02_skips", only=r"c02|c09|c07",
                       fns=[f"BitReader<{E},_>::skip_bits_after_peek"]))
    for h in ("reader_be_u16", "reader_le_u16"):
        for m in ("gamma", "delta", "zeta3"):
            out.append(Obl(id=f"c05.params.{h}.{m}", prop="C05", engine="kani", target=f"obl_params::c03_params_{h}_{m}", kind="complete",
                           tier="quick" if (m == "gamma" and "be" in h) else "thorough",
                           bound="", fns=["codes::params default read methods (end to end with the real writer)"]))
    return out


def _c19() -> List[Obl]:
    out = []
    for el, E in ENDIANS:
        for w in WWORDS:
            tier = "quick" if w in QUICK_W else "thorough"
            W = f"BufBitWriter<{E},_<{w}>>"
            out.append(Obl(id=f"c19.checks.panic.{E}.{w}", prop="C19", engine="kani", target=f"obl_c01::{el}::{w}_::c19_write_bits_dirty_panics", tier=tier,
                           features="checks", fns=[f"{W}::write_bits (argument check)"], expect_panic=r"does not fit",
                           note="every value with a bit at or above n_bits (every n_bits in 0..=63, every writer state) ends in the library's own panic; "
                                "returning from the call is the failure"))
            out.append(Obl(id=f"c19.checks.clean.{E}.{w}", prop="C19", engine="kani", target=f"obl_c01::{el}::{w}_::c01_write_bits", tier=tier,
                           features="checks", fns=[f"{W}::write_bits"], note="clean arguments: no panic and the same postcondition as without the option"))
    # in-domain code writes never trip the check (the model asserts the `checks` precondition on every write_bits it receives)
    for hm, E in (("hbe", "BE"), ("hle", "LE")):
        for h in ("def_gamma", "def_gamma_t", "def_delta", "def_delta_tt", "def_omega", "def_zeta", "def_zeta3_t", "def_pi", "def_rice", "def_exp_golomb", "def_vbyte_be", "def_vbyte_le"):
            kind, bound = _kind_for(h)
            out.append(Obl(id=f"c19.checks.codes.{h}.{E}", prop="C19", engine="kani", target=f"obl_codes::{hm}::{h}", features="checks",
                           tier="quick" if h in ("def_gamma", "def_delta", "def_omega", "def_pi", "def_rice", "def_exp_golomb") else "thorough",
                           kind=kind, bound=bound, fns=_fns_for(h)))
    for b in ("b3", "b7"):
        out.append(Obl(id=f"c19.checks.codes.golomb.{b}", prop="C19", engine="kani", target=f"obl_codes::golomb_be::{b}::def", features="checks", tier="thorough",
                       kind="bounded", bound="constant modulus; " + UNARY_BOUND, fns=CODE_FNS["golomb"]))
    out += _verus_golomb("C19", [V_MB_W, V_G_W], feats=("checks",))
    out += _verus_zeta("C19", [V_Z_W, ("write_minimal_binary", "")], feats="checks")
    out += _verus_rice("C19", [V_R_W, ("lemma_mask128", ""), ("lemma_masked_field", "")], feats="checks")
    out += _verus_pi("C19", [V_P_W, ("lemma_xor_top", "")], feats="checks")
    out += _verus_eg("C19", [V_G2_W, V_E_W], feats="checks")
    out += _verus_delta("C19", [V_D_W], feats="checks")
    # the word-level writer / copy units under the checks configuration (write_bits requires and is given clean values)
    for w in WWORDS:
        for el, E in ENDIANS:
            out.append(Obl(id=f"c19.verus.checks.write_bits.{E}.{w}", prop="C19", engine="verus", target=f"writer_bits@W={w};BITS={w[1:]}:write_bits_{el}", features="checks",
                           fns=[f"BufBitWriter<{E},_<{w}>>::write_bits (argument check never fires on a clean value)"],
                           note="checks configuration: the assert! on the argument is a proof obligation discharged from value < 2^n"))
            out.append(Obl(id=f"c19.verus.checks.copy_from.{E}.{w}", prop="C19", engine="verus", target=f"writer_copy_from@W={w};BITS={w[1:]}:copy_from_{el}", features="checks",
                           fns=[f"BufBitWriter<{E},_<{w}>>::copy_from"], note="checks configuration: every write_bits call receives a clean value"))
    for w in RWORDS:
        n = int(w[1:])
        bb = BBTYPE[w]
        unit = f"reader_copy_to@W={w};N={n};BB={bb};M={2 * n};LZINC={'lz128.inc' if bb == 'u128' else 'empty.inc'}"
        for el, E in ENDIANS:
            out.append(Obl(id=f"c19.verus.checks.copy_to.{E}.{w}", prop="C19", engine="verus", target=f"{unit}:copy_to_{el}", features="checks",
                           fns=[f"BufBitReader<{E},_<{w}>>::copy_to"], note="checks configuration: the clean-up masks make every write_bits argument clean; same postcondition"))
        for l in ("lemma_ct_clean", "lemma_ct_be_high_zero", "lemma_ct_le_high_zero", "lemma_word_clean", "lemma_mask64_bits", "lemma_small"):
            out.append(Obl(id=f"c19.verus.checks.copy_to.{l}.{w}", prop="C19", engine="verus", target=f"{unit}:{l}", features="checks", fns=[]))
    # bulk copies and byte writes under `checks`; generic copy loops under `no_copy_impls`
    for u, fn in (("copy_to_generic", "copy_to"), ("copy_from_generic", "copy_from")):
        out.append(Obl(id=f"c19.checks.generic.{fn}", prop="C19", engine="verus", target=f"{u}:{fn}", features="checks",
                       fns=[f"traits::bits default {fn}"], note="checks configuration: write_bits carries the extra precondition value < 2^n"))
    for el, E in ENDIANS:
        for w in ("u8", "u64"):
            out.append(Obl(id=f"c19.checks.copy_to.{E}.{w}", prop="C19", engine="kani", target=f"obl_c08::rd_{el}::{w}_::c08_copy_to_k2", features="checks",
                           tier="quick" if w == "u8" else "thorough", kind="bounded", bound="backend window K=2 words", only=r"contract|c08",
                           fns=[f"BufBitReader<{E},_<{w}>>::copy_to"], confirm=f"obl_c08::rd_{el}::u8_::c08_copy_to_confirm"))
            out.append(Obl(id=f"c19.no_copy_impls.copy_to.{E}.{w}", prop="C19", engine="kani", target=f"obl_c08::rd_{el}::{w}_::c08_copy_to_k2", features="no_copy_impls",
                           tier="thorough", kind="bounded", bound="backend window K=2 words",
                           fns=[f"BitRead::copy_to (default) on BufBitReader<{E},_<{w}>>"]))
        for w in ("u8", "u64"):
            out.append(Obl(id=f"c19.checks.copy_from.{E}.{w}", prop="C19", engine="kani", target=f"obl_c08::wr_{el}::{w}_::c08_copy_from", features="checks",
                           tier="quick" if w == "u8" else "thorough", kind="bounded", bound="writer window of 3-4 words", fns=[f"BufBitWriter<{E},_<{w}>>::copy_from"]))
            out.append(Obl(id=f"c19.no_copy_impls.copy_from.{E}.{w}", prop="C19", engine="kani", target=f"obl_c08::wr_{el}::{w}_::c08_copy_from", features="no_copy_impls",
                           tier="quick" if w == "u8" else "thorough", kind="bounded", bound="writer window of 3-4 words",
                           fns=[f"BitWrite::copy_from (default) on BufBitWriter<{E},_<{w}>>"]))
        out.append(Obl(id=f"c19.checks.io_write.{E}.u64", prop="C19", engine="kani", target=f"obl_c12::wr_{el}::u64_::c12_write_l9", features="checks",
                       kind="bounded", bound="slice length = 9 bytes", fns=[f"<BufBitWriter<{E},_<u64>> as std::io::Write>::write"]))
    return out


def _c08_impl() -> List[Obl]:
    out = []
    for el, E in ENDIANS:
        for w in RWORDS:
            for k in (2, 4):
                tier = "quick" if (w == "u8" and k == 2) else "thorough"
                out.append(Obl(id=f"c08.copy_to.{E}.{w}.K{k}", prop="C08", engine="kani", target=f"obl_c08::rd_{el}::{w}_::c08_copy_to_k{k}", tier=tier,
                               kind="bounded", bound=f"backend window K={k} words, writer model of 256 bits; every n, every reader state (incl. more than one word buffered)",
                               fns=[f"BufBitReader<{E},_<{w}>>::copy_to"], confirm=f"obl_c08::rd_{el}::u8_::c08_copy_to_confirm" if w != "u64" else f"obl_c08::rd_{el}::u8_::c08_copy_to_confirm"))
            out.append(Obl(id=f"c08.copy_to.then_continue.{E}.{w}", prop="C08", engine="kani", target=f"obl_c08::rd_{el}::{w}_::c08_copy_to_confirm",
                           tier="quick" if w == "u8" else "thorough", kind="bounded", bound="copy, then an optional peek and a read (continuation operations)",
                           fns=[f"BufBitReader<{E},_<{w}>>::copy_to + peek_bits + read_bits"]))
        for w in WWORDS:
            tier = "quick" if w in ("u8", "u64") else "thorough"
            out.append(Obl(id=f"c08.copy_from.{E}.{w}", prop="C08", engine="kani", target=f"obl_c08::wr_{el}::{w}_::c08_copy_from", tier=tier,
                           kind="bounded", bound="writer window of 2-4 words, source model of 256 bits; every n, every writer state", fns=[f"BufBitWriter<{E},_<{w}>>::copy_from"]))
    return out


def _callee_units() -> List[Obl]:
    """The stream primitives a property's own functions are verified against (taken there by contract) are part of that property's
    check as well: a change to a primitive is then reported by every property it breaks, not only by C01 / C02. Verus units only
    (a few seconds each); the Kani obligations on the primitives stay with C01 / C02 / C03."""
    out = []
    for prop in ("C04", "C06", "C12", "C18"):
        out += _verus_writer_bits(prop)
    for prop in ("C04", "C06"):
        out += _verus_writer_unary(prop)
    out += _verus_reader_bits("C05", ["read_bits", "skip_bits_after_peek"], lemmas=False)
    out += _verus_reader_unary("C05", fns=("read_unary",), lemmas=False) + _verus_bitreader_unary("C05", lemmas=False)
    out += _verus_reader_bits("C06", ["read_bits", "peek_bits", "refill", "skip_bits_after_peek"], lemmas=False)
    out += _verus_reader_unary("C06", fns=("read_unary",), lemmas=False) + _verus_bitreader_unary("C06", lemmas=False)
    for prop in ("C12", "C18"):
        out += _verus_reader_bits(prop, ["read_bits"], lemmas=False)
    out += _verus_bitreader_unary("C12", lemmas=False)
    # the in-memory and byte-stream backends the writers deliver their words to (C01: identical image for every backend kind)
    out += _verus_mem_words("C01", fns=["write_word_vec", "write_word_slice"])
    # the units' lemmas and the std_spec obligations that discharge their axioms stay with C01 / C02
    out = [o for o in out if o.engine == "verus" and o.fns]
    for o in out:
        o.note = (o.note + "; " if o.note else "") + "callee contract of this property's functions"
    return out


def all_obligations() -> List[Obl]:
    obls: List[Obl] = []
    for f in (_callee_units, _c01, _c02, _c03, _c03_params, _c04, _c05, _c05_peek, _c06, _c07, _c08, _c08_impl, _c09_impl, _c09_codes, _c10, _c11, _c12, _c13, _c14, _c15, _c16,
              _c17, _c18, _c19, _c20):
        obls.extend(f())
    ids = [o.id for o in obls]
    assert len(ids) == len(set(ids)), "duplicate obligation ids"
    return obls


def for_property(prop: str, tier: str) -> List[Obl]:
    res = [o for o in all_obligations() if o.prop == prop]
    if tier == "quick":
        res = [o for o in res if o.tier == "quick"]
    return res


PROPERTIES = ["C%02d" % i for i in range(1, 21)]
