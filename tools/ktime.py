#!/usr/bin/env python3
"""ktime.py [--features F] <harness substring>...  : run harnesses, print per-harness status and time."""
import sys, subprocess, time
sys.path.insert(0, '/verif/tools')
import check
args = sys.argv[1:]
feats = ""
if args and args[0] == "--features":
    feats = args[1]; args = args[2:]
check.prepare_contracts()
import os
check.set_build(os.environ.get('KT_KEY', 'dev'), args)
cmd = check.kani_base(feats) + ["--harness-timeout", "420s", "--output-format", "terse", "-j", "16"]
for a in args:
    cmd += ["--harness", a]
t0 = time.time()
p = subprocess.run(cmd, cwd=check.CONTRACTS, env=check.KANI_ENV, stdout=subprocess.PIPE, stderr=subprocess.STDOUT, text=True)
res = check.parse_terse(p.stdout)
for h, r in sorted(res.items(), key=lambda kv: kv[1]["time"]):
    print(f"{r['time']:8.1f}s {r['status']:8s} checks={r['checks']:4d} fail={r['failed']} covers={r['covers_sat']}/{r['covers']}  {h}")
    if r["status"] != "ok" or r['covers_sat'] != r['covers']:
        for l in r["text"].splitlines():
            if "Failed Checks" in l or "File:" in l or "UNSAT" in l:
                print("      ", l.strip())
if not res:
    print(p.stdout[-3000:])
print(f"wall {time.time()-t0:.0f}s, {len(res)} harnesses")
