"""Run the Verus units of a property (filled in by tools/extract.py)."""


def run_units(repo, verif, obls):
    import extract
    return extract.run_units(repo, verif, obls)
