#!/bin/bash
# confirm_seed.sh <ID> [<worktree>] : confirm a seeded change in its scratch worktree and copy it to /verif/seeded/<ID>/
ID=$1; WT=${2:-/tmp/wt/$ID}; OUT=/verif/seeded/$ID
set -u
mkdir -p $OUT
cp $WT/SEED/patch.diff $OUT/patch.diff
cp $WT/SEED/seed_demo.rs $OUT/seed_demo.rs
cp $WT/SEED/meta.json $OUT/agent_meta.json
cd $WT
git checkout -q -- src 2>/dev/null
git apply $OUT/patch.diff || { echo "patch does not apply"; exit 1; }
cp $OUT/seed_demo.rs tests/seed_demo.rs
# 1. with the change: existing suite must pass, demo must fail
cargo test --offline -j 6 --no-fail-fast > $OUT/with_change.log 2>&1
if [ -n "${FEAT:-}" ]; then   # the demo needs a cargo feature: run it separately with the feature on
  cargo test --offline -j 6 --features $FEAT --test seed_demo >> $OUT/with_change.log 2>&1
fi
WITH_FAIL=$(grep -E "^test result: FAILED|error: test failed" $OUT/with_change.log | wc -l)
FAILED_TARGETS=$(grep -E "error: test failed, to rerun pass" $OUT/with_change.log | sed 's/.*pass //' | tr '\n' ' ')
DEMO_FAILS=$(grep -c "to rerun pass \`--test seed_demo\`" $OUT/with_change.log)
if [ -n "${FEAT:-}" ]; then DEMO_FAILS=$(grep -c "^test result: FAILED" $OUT/with_change.log); fi
OTHER_FAILS=$(grep -E "error: test failed, to rerun pass" $OUT/with_change.log | grep -vc "seed_demo")
# 2. without the change: demo must pass
git checkout -q -- src
cargo test --offline -j 6 ${FEAT:+--features $FEAT} --test seed_demo > $OUT/without_change.log 2>&1
DEMO_PASSES=$(grep -c "^test result: ok" $OUT/without_change.log)
git apply $OUT/patch.diff
python3 - <<PY
import json
m=json.load(open("$OUT/agent_meta.json"))
json.dump({"property":"$ID","breaks":m.get("what_it_breaks"),"needs_to_manifest":m.get("needs_to_manifest"),
 "files_changed":m.get("files_changed"),
 "confirmed_by_me":{"existing_suite_passes_with_change": $OTHER_FAILS==0, "demo_fails_with_change": $DEMO_FAILS>0, "demo_passes_without_change": $DEMO_PASSES>0,
   "commands":["git apply patch.diff; cp seed_demo.rs tests/; cargo test --offline --no-fail-fast (only seed_demo may fail)","git checkout -- src; cargo test --offline --test seed_demo (must pass)"]},
 "failed_targets_with_change":"$FAILED_TARGETS".split()}, open("$OUT/meta.json","w"), indent=1)
PY
tail -c 300 $OUT/with_change.log > $OUT/with_change.tail; rm -f $OUT/with_change.log $OUT/without_change.log
echo "$ID: other_fails=$OTHER_FAILS demo_fails=$DEMO_FAILS demo_passes_without=$DEMO_PASSES"
