#!/usr/bin/env python3
"""Regenerate /verif/MANIFEST.json from the registry and tools/propmeta.py."""
import json, sys
from pathlib import Path
VERIF = Path(__file__).resolve().parent.parent
sys.path.insert(0, str(VERIF / "tools"))
import registry, propmeta

props = [json.loads(l) for l in (VERIF / "properties.jsonl").read_text().splitlines() if l.strip()]
checks, na = [], []
for p in props:
    pid = p["id"]
    obls = registry.for_property(pid, "thorough")
    m = propmeta.META.get(pid)
    if not obls or not m:
        reason = propmeta.NOT_CLAIMED.get(pid, "check under construction in this session; no obligation registered yet") if hasattr(propmeta, "NOT_CLAIMED") else "check under construction in this session; no obligation registered yet"
        na.append(dict(property_id=pid, reason=reason))
        continue
    engines = sorted({o.engine for o in obls})
    checks.append(dict(
        property_id=pid,
        quick_cmd=f"bin/check {pid} --tier quick",
        thorough_cmd=f"bin/check {pid} --tier thorough",
        evidence_file=f"/verif/evidence/{pid}.json",
        replay_cmd_template=f"bin/check {pid} --replay {{path}}",
        engine="+".join(engines),
        level_claimed=dict(category=m.get("category", "proof"), text=m["text"], design_ref=m["design"]),
        level_note=m["note"],
        technique=m["technique"],
    ))
man = dict(
    version=1,
    setup_cmd="bin/setup",
    hooks=dict(
        guard="dsi_bitstream_verif",
        enable="RUSTFLAGS='--cfg dsi_bitstream_verif' (set by bin/check for cargo kani); hooks are #[cfg(dsi_bitstream_verif)] accessors verif_from_parts / verif_parts / verif_into_parts",
        baseline_off_cmd="cd /repo && cargo test --workspace --no-fail-fast --offline",
        source_commits=json.loads((VERIF / "tools" / "hook_commits.json").read_text()),
        add_only=True,
    ),
    engines=[
        dict(name="kani-contracts", path="/verif/contracts", serves_properties=sorted({o.prop for o in registry.all_obligations() if o.engine == "kani"}),
             kind_free_text="Kani/CBMC contract harnesses on the real crate (path dependency on /repo): assume invariant+precondition, call the real function, assert the postcondition over abstract views"),
        dict(name="verus-extracted", path="/verif/verus", serves_properties=sorted({o.prop for o in registry.all_obligations() if o.engine == "verus"}),
             kind_free_text="Verus requires/ensures/invariant/decreases on function text extracted mechanically from /repo on every run (tools/extract.py)"),
    ],
    checks=checks,
    not_applicable=na,
    notes="bin/check exit codes: 0 held, 1 VIOLATION, 2 undecided (never an alarm). See DESIGN.md.",
)
(VERIF / "MANIFEST.json").write_text(json.dumps(man, indent=1) + "\n")
print(f"{len(checks)} checks, {len(na)} not claimed")
