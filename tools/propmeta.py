"""Per-property text for MANIFEST.json (what is claimed, what is assumed)."""

META = {
 "C01": dict(
  technique="contract harnesses (assume Inv+pre / call real method / assert post over the stream view) discharged by Kani/CBMC for every word width and endianness",
  text="Proof, per operation and for all inputs and all invariant-satisfying pre-states (hence all histories, by induction over the history): "
       "new, write_bits, flush, into_inner, drop of BufBitWriter meet the stream-view contract of DESIGN 2.1 (canonical image compared bit by bit at a symbolic index) "
       "for BE/LE x u8..u128; write_unary is bounded in the observation window (K words) and not counted as proved.",
  note="Trusted: rustc/Kani/CBMC; ghost backend Rec; layout predicates transcribed from the statement. Backend kinds are covered through the backends' own contracts (C13, C11) plus parametricity. write_unary's zero-word loop is bounded (K=2 quick / 4 thorough words).",
  design="4/C01"),
}

META.update({
 "C02": dict(
  technique="contract harnesses over an arbitrary invariant-satisfying reader state with a symbolic ghost stream, discharged by Kani/CBMC",
  category="proof",
  text="Proof per operation, for every Inv_R state (every buffer fill level incl. more than one word buffered), every symbolic stream (strict or zero-extended) and every n: "
       "read_bits, peek_bits (+repeatability), skip_bits_after_peek, clone, new of BufBitReader (BE/LE x u8..u64) and of the unbuffered BitReader return exactly the canonical-layout bits, advance by exactly n and re-establish the invariant; "
       "hence every history, by induction. read_unary/skip_bits word loops are bounded in the backend window (K words).",
  note="Trusted: Kani/CBMC, ghost backend Oracle, mk_buffer (the invariant's constructor). Zero extension is the contract of MemWordReader (bounded array length). read_unary and skip_bits are bounded (K=2/4 words).",
  design="4/C02"),
 "C07": dict(
  technique="contract harnesses (position view p = cursor*BITS - bits_in_buffer) discharged by Kani/CBMC",
  category="proof",
  text="Proof that bit_pos reports the view position p for every Inv_R state, that every operation moves p by exactly the number of bits it consumes, and that set_bit_pos(q) re-establishes the invariant at p = q for every q in 0..=length (strict) / any q (zero-extended), aligned or not; "
       "by the C02 contracts all later results then equal those of a fresh reader that consumed q bits. Buffered (u8..u64) and unbuffered readers over a seekable ghost backend with a symbolic word offset.",
  note="Backends' own seek contracts are C13 (memory) and C11 (byte adapter). Word loops bounded as in C02.",
  design="4/C07"),
 "C09": dict(
  technique="contract harnesses with a strict/zero-extended ghost backend (Kani/CBMC) + client obligations on truncated valid streams over the abstract model",
  category="proof",
  text="Proof that on a strict backend every primitive returns Ok only if all bits it consumes lie in the data and Err only if a bit beyond the end is needed (a failed peek leaves the reader unchanged), and never fails on a zero-extended one; "
       "for gamma, delta, zeta3 (all table options) and omega: a codeword lying entirely within the data decodes to its value even when the table look-ahead would peek past the end, a cut codeword is an error.",
  note="Code-level part is over the abstract model (trait contract); strict memory backends by their own contract (C13). read_unary/skip_bits bounded in K.",
  design="4/C09"),
 "C11": dict(
  technique="contract harnesses over faulty std::io objects (symbolic short counts / Interrupted / errors per call) discharged by Kani/CBMC",
  category="proof",
  text="Proof for u8/u16/u32 words over complete fault schedules (and bounded schedules for u64/u128) that write_word either transfers exactly to_ne_bytes() once and in order or reports an error, that read_word returns the next BYTES bytes or an error (a partial trailing word is an error), "
       "and (bounded Cursor) that word_pos equals the words transferred and set_word_pos addresses the word.",
  note="std's write_all/read_exact are executed by CBMC, not trusted; alloc::fmt::format is stubbed (error-message text not covered). u64/u128 fault schedules limited to 4/3 calls; Cursor length <= 2 words.",
  design="4/C11"),
 "C13": dict(
  technique="contract harnesses against an array+cursor model, Kani/CBMC, array length bounded",
  category="other",
  text="Bounded contract check (array length <= 3 quick / 6 thorough; contents, length, cursor, operation, storage kind symbolic): every method of MemWordReader (zero-extended and strict), MemWordWriterSlice and MemWordWriterVec (owned and borrowed storage) "
       "agrees with the array-plus-cursor model from an arbitrary state built through the public API, including rejected seeks and errors beyond the end leaving the cursor unchanged.",
  note="Bounded in the array length only (never counted as proved). Positions assumed < 2^56 words. alloc::fmt::format stubbed. Vec<u64..u128> harnesses are in the thorough tier (7 GB each).",
  design="4/C13"),
 "C17": dict(
  technique="loop-free full-domain contract harnesses discharged by Kani/CBMC",
  category="proof",
  text="Complete proof for u8/i8 ... u128/i128 and usize/isize: to_nat(to_int(x)) = x, to_int(to_nat(y)) = y, y >= 0 maps to 2y and y < 0 to -2y-1, for all 2^N values of each type.",
  note="Trusted: Kani/CBMC only.",
  design="4/C17"),
 "C20": dict(
  technique="Verus requires/ensures/invariant/decreases on the extracted real text of FindChangePoints::next; Kani harnesses for length monotonicity",
  category="proof",
  text="Proof (Verus, unbounded, arbitrary deterministic monotone closure): next() first yields (0, f(0)); afterwards it yields the least x > current with f(x) != f(current) together with f(x), and returns None only if no change point exists up to 2^63; both loops terminate and no arithmetic overflows.",
  note="Kraft-McMillan (prefix-free => Kraft sum <= 1) is assumed mathematics; utils/implied.rs (floating point, rand) is not covered. Closure assumed total and deterministic with values < usize::MAX.",
  design="4/C20"),
})

META.update({
 "C03": dict(
  technique="client obligations: the real generic read_*/write_* on the executable trait contract (abstract 256-bit stream), Kani/CBMC; Verus for unbounded Golomb/Rice pieces",
  category="proof",
  text="Proof over the whole value domain (2^64-2 / 2^64-1) with symbolic preceding and following bits: for gamma, delta, omega, zeta3, VByte BE/LE (all table options) and zeta_k/pi_k/exp-Golomb_k on a parameter grid, the real reader applied to what the real writer wrote returns the value and stops exactly at the end of the codeword. "
       "Composition with C01/C02 (every writer/reader configuration refines the same stream contract) gives every word size, reader kind and position. Unary/Rice/Golomb/minimal-binary are bounded (quotient must fit the 256-bit model; Golomb moduli on a constant grid).",
  note="Abstract model BitsStream is the trusted executable form of the trait contract (it also checks the preconditions clients must respect). zeta/pi/Rice/exp-Golomb parameters on the grid {0,1,2,3,4,5,8,13,31,32,33,62,63}; Golomb moduli on a 31-point grid (symbolic divisor is not tractable for SAT).",
  design="4/C03"),
 "C04": dict(
  technique="client obligations against independent spec functions (self-tested on the repository's literal codewords), Kani/CBMC",
  category="proof",
  text="Proof for every value of the domain and symbolic parameter (zeta k in 1..=63, pi/exp-Golomb/Rice k in 0..=63): the bits the real writer appends to the abstract stream equal the codeword built by spec.rs from the published definitions (BE and LE conventions), with every table option; Golomb/minimal binary on a modulus grid (bounded).",
  note="Oracle = /verif/contracts/src/spec.rs, transcribed from module docs; self-tested natively against 160 literal codewords of the repository's tests and doc tables. zeta_k compared where the interval bound is capped at 2^64 (the library and the spec agree on the capped interval).",
  design="4/C04"),
 "C05": dict(
  technique="client obligations comparing table-driven and bit-by-bit paths on arbitrary truncated valid streams over the abstract model (peek width = table index width), Kani/CBMC",
  category="proof",
  text="Proof for all values, symbolic surrounding bits, symbolic truncation point and strict/zero-extended end: reading gamma, delta (all 4 option combinations) and zeta3 with tables returns the same result, value and final position as bit by bit; every decoding-table entry that is present equals the bit-by-bit decoding of its index pattern (symbolic index); "
       "table and non-table writers/length functions agree through the common definition (C04/C06 obligations).",
  note="The peek contract (n <= guaranteed width) is checked by the model; the real readers' guaranteed width is C02's peek obligation; check_tables' text output is not observed.",
  design="4/C05"),
 "C06": dict(
  technique="client obligations (len_* vs spec length vs value returned by write vs bits appended vs bits consumed), Kani/CBMC",
  category="proof",
  text="Proof over the full 64-bit domain and symbolic parameters: every len_* function (with and without length tables) equals the defined codeword length (u128 arithmetic), equals the value returned by the write and the number of bits appended (where the codeword fits the model), and equals the bits the read consumes (round-trip obligations).",
  note="Dispatch-object lengths are part of C10. Unary/Rice/Golomb writes bounded by the 256-bit model; their len functions are proved for every value.",
  design="4/C06"),
 "C08": dict(
  technique="Verus loop invariants on the extracted real text of the default copy_to/copy_from; Kani contract harnesses for the optimised paths",
  category="proof",
  text="Proof (Verus, unbounded n, generic reader and writer, default and checks configurations): the default chunked copy_to/copy_from append exactly the reader's next n bits and advance the reader by n, issuing only calls within the trait preconditions.",
  note="Optimised BufBitReader::copy_to / BufBitWriter::copy_from obligations are registered separately (see known findings). Rewrites: map_err(..)? desugaring (R6), core::cmp::min -> if/else.",
  design="4/C08"),
})
