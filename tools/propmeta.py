"""Per-property text for MANIFEST.json (what is claimed, what is assumed)."""

META = {
 "C01": dict(
  technique="contract harnesses (assume Inv+pre / call real method / assert post over the stream view) discharged by Kani/CBMC for every word width and endianness",
  text="Proof, per operation and for all inputs and all invariant-satisfying pre-states (hence all histories, by induction over the history): "
       "new, write_bits, flush, into_inner, drop of BufBitWriter meet the stream-view contract of DESIGN 2.1 (canonical image compared bit by bit at a symbolic index) "
       "for BE/LE x u8..u128; write_bits, flush_be/flush_le and write_unary (every value, zero-word loop by invariant) are additionally proved by Verus on the extracted text, one unit per word type; the Kani obligations provide counterexamples (write_unary's is window-bounded).",
  note="Trusted: rustc/Kani/CBMC; ghost backend Rec; layout predicates transcribed from the statement. Backend kinds are covered through the backends' own contracts (C13, C11) plus parametricity. Verus units instantiate WW::Word per word type (listed substitutions) and take to_be/to_le by axioms discharged by Kani std_spec obligations.",
  design="4/C01"),
}

META.update({
 "C02": dict(
  technique="contract harnesses over an arbitrary invariant-satisfying reader state with a symbolic ghost stream, discharged by Kani/CBMC",
  category="proof",
  text="Proof per operation, for every Inv_R state (every buffer fill level incl. more than one word buffered), every symbolic stream (strict or zero-extended) and every n: "
       "read_bits, peek_bits (+repeatability), skip_bits_after_peek, clone, new of BufBitReader (BE/LE x u8..u64) and of the unbuffered BitReader return exactly the canonical-layout bits, advance by exactly n and re-establish the invariant; "
       "hence every history, by induction. read_bits, peek_bits, refill, skip_bits_after_peek and the read_unary/skip_bits word loops are additionally proved (unbounded) by Verus on the extracted text (BufBitReader per word type, unbuffered BitReader read_unary), with the Kani obligations kept as cross-checks providing counterexamples.",
  note="Trusted: Kani/CBMC, ghost backend Oracle, mk_buffer (the invariant's constructor). Zero extension is the contract of MemWordReader (bounded array length). Verus units: word instantiation, count-zeros/byte-order axioms discharged by Kani std_spec obligations; streams assumed shorter than 2^64 bits.",
  design="4/C02"),
 "C07": dict(
  technique="contract harnesses (position view p = cursor*BITS - bits_in_buffer) discharged by Kani/CBMC",
  category="proof",
  text="Proof that bit_pos reports the view position p for every Inv_R state, that every operation moves p by exactly the number of bits it consumes, and that set_bit_pos(q) re-establishes the invariant at p = q for every q in 0..=length (strict) / any q (zero-extended), aligned or not; "
       "by the C02 contracts all later results then equal those of a fresh reader that consumed q bits. Buffered (u8..u64) and unbuffered readers over a seekable ghost backend with a symbolic word offset.",
  note="Backends' own seek contracts are C13 (memory) and C11 (byte adapter). Word loops of read_unary/skip_bits: position clauses proved unbounded by the Verus units of C02.",
  design="4/C07"),
 "C09": dict(
  technique="contract harnesses with a strict/zero-extended ghost backend (Kani/CBMC) + client obligations on truncated valid streams over the abstract model",
  category="proof",
  text="Proof that on a strict backend every primitive returns Ok only if all bits it consumes lie in the data and Err only if a bit beyond the end is needed (a failed peek leaves the reader unchanged), and never fails on a zero-extended one; "
       "for gamma, delta, zeta3 (all table options) and omega: a codeword lying entirely within the data decodes to its value even when the table look-ahead would peek past the end, a cut codeword is an error.",
  note="Code-level part is over the abstract model (trait contract); strict memory backends by their own contract (C13). read_unary/skip_bits error clauses are also proved unbounded by the Verus reader units (backend errors assumed to be end-of-data errors).",
  design="4/C09"),
 "C11": dict(
  technique="contract harnesses over faulty std::io objects (symbolic short counts / Interrupted / errors per call) discharged by Kani/CBMC",
  category="proof",
  text="Proof for u8/u16/u32 words over complete fault schedules (and bounded schedules for u64/u128) that write_word either transfers exactly to_ne_bytes() once and in order or reports an error, that read_word returns the next BYTES bytes or an error (a partial trailing word is an error), "
       "and (bounded Cursor) that word_pos equals the words transferred and set_word_pos addresses the word.",
  note="std's write_all/read_exact are executed by CBMC, not trusted; alloc::fmt::format is stubbed (error-message text not covered). u64/u128 fault schedules limited to 4/3 calls; Cursor length <= 2 words.",
  design="4/C11"),
 "C13": dict(
  technique="Verus requires/ensures on the extracted real text of every method against the array-plus-cursor model (arrays of every length); Kani contract harnesses (array length bounded) for counterexamples",
  category="proof",
  text="Proof (Verus, unbounded array length, one unit per word type): read_word / write_word / word_pos / set_word_pos of MemWordReader (zero-extended and strict), MemWordWriterSlice and MemWordWriterVec return the word under the cursor and advance it, store at the cursor (growing a vector with zero fill), report positions exactly, report an error beyond the end without moving the cursor, yield zeros there when zero-extended, and leave the position unchanged on a rejected set-position. Plus a bounded contract check (array length <= 3 quick / 6 thorough; contents, length, cursor, operation, storage kind symbolic): every method of MemWordReader (zero-extended and strict), MemWordWriterSlice and MemWordWriterVec (owned and borrowed storage) "
       "agrees with the array-plus-cursor model from an arbitrary state built through the public API, including rejected seeks and errors beyond the end leaving the cursor unchanged.",
  note="Verus units instantiate the storage parameter B to the slice / vector itself (owned vs borrowed storage differ only in AsRef/AsMut, covered by the Kani harnesses) and replace std::io::Error::new(..) by an opaque value; cursor < usize::MAX assumed. Kani harnesses bounded in the array length (never counted as proved). Positions assumed < 2^56 words. alloc::fmt::format stubbed. Vec<u64..u128> harnesses are in the thorough tier (7 GB each).",
  design="4/C13"),
 "C17": dict(
  technique="loop-free full-domain contract harnesses discharged by Kani/CBMC",
  category="proof",
  text="Complete proof for u8/i8 ... u128/i128 and usize/isize: to_nat(to_int(x)) = x, to_int(to_nat(y)) = y, y >= 0 maps to 2y and y < 0 to -2y-1, for all 2^N values of each type.",
  note="Trusted: Kani/CBMC only.",
  design="4/C17"),
 "C20": dict(
  technique="Verus requires/ensures/invariant/decreases on the extracted real text of FindChangePoints::next; Kani harnesses for length monotonicity",
  category="proof",
  text="Proof (Verus, unbounded, arbitrary deterministic monotone closure): next() first yields (0, f(0)); afterwards it yields the least x > current with f(x) != f(current) together with f(x), and returns None only if no change point exists up to 2^63; both loops terminate and no arithmetic overflows.",
  note="Kraft-McMillan (prefix-free => Kraft sum <= 1) is assumed mathematics; utils/implied.rs (floating point, rand) is not covered. Closure assumed total and deterministic with values < usize::MAX.",
  design="4/C20"),
})

META.update({
 "C03": dict(
  technique="client obligations: the real generic read_*/write_* on the executable trait contract (abstract 256-bit stream), Kani/CBMC; Verus for unbounded Golomb/Rice pieces",
  category="proof",
  text="Proof over the whole value domain (2^64-2 / 2^64-1) with symbolic preceding and following bits: for gamma, delta, omega, zeta3, VByte BE/LE (all table options) and zeta_k/pi_k/exp-Golomb_k on a parameter grid, the real reader applied to what the real writer wrote returns the value and stops exactly at the end of the codeword. "
       "Composition with C01/C02 (every writer/reader configuration refines the same stream contract) gives every word size, reader kind and position. Unary/Rice/Golomb/minimal-binary are bounded (quotient must fit the 256-bit model; Golomb moduli on a constant grid). The non-table delta writer and reader (default_write_delta / default_read_delta) are additionally proved by Verus on the extracted text against the Seq<bool> stream contract (gamma prefix by contract).",
  note="Abstract model BitsStream is the trusted executable form of the trait contract (it also checks the preconditions clients must respect). zeta/pi/Rice/exp-Golomb parameters on the grid {0,1,2,3,4,5,8,13,31,32,33,62,63}; Golomb moduli on a 31-point grid (symbolic divisor is not tractable for SAT).",
  design="4/C03"),
 "C04": dict(
  technique="client obligations against independent spec functions (self-tested on the repository's literal codewords), Kani/CBMC",
  category="proof",
  text="Proof for every value of the domain and symbolic parameter (zeta k in 1..=63, pi/exp-Golomb/Rice k in 0..=63): the bits the real writer appends to the abstract stream equal the codeword built by spec.rs from the published definitions (BE and LE conventions), with every table option; Golomb/minimal binary on a modulus grid (bounded). default_write_delta is additionally proved by Verus (extracted text) to append gamma(floor(log2(n+1))) followed by the low bits of n+1, for every value.",
  note="Oracle = /verif/contracts/src/spec.rs, transcribed from module docs; self-tested natively against 160 literal codewords of the repository's tests and doc tables. zeta_k compared where the interval bound is capped at 2^64 (the library and the spec agree on the capped interval).",
  design="4/C04"),
 "C05": dict(
  technique="client obligations comparing table-driven and bit-by-bit paths on arbitrary truncated valid streams over the abstract model (peek width = table index width), Kani/CBMC",
  category="proof",
  text="Proof for all values, symbolic surrounding bits, symbolic truncation point and strict/zero-extended end: reading gamma, delta (all 4 option combinations) and zeta3 with tables returns the same result, value and final position as bit by bit; every decoding-table entry that is present equals the bit-by-bit decoding of its index pattern (symbolic index); "
       "table and non-table writers/length functions agree through the common definition (C04/C06 obligations).",
  note="The peek contract (n <= guaranteed width) is checked by the model; the real readers' guaranteed width and look-ahead contracts (buffered and unbuffered) are obligations of this check too (c05.peek_contract.*, Verus reader units); check_tables' text output is not observed.",
  design="4/C05"),
 "C06": dict(
  technique="client obligations (len_* vs spec length vs value returned by write vs bits appended vs bits consumed), Kani/CBMC",
  category="proof",
  text="Proof over the full 64-bit domain and symbolic parameters: every len_* function (with and without length tables) equals the defined codeword length (u128 arithmetic), equals the value returned by the write and the number of bits appended (where the codeword fits the model), and equals the bits the read consumes (round-trip obligations).",
  note="Length objects: FuncCodeLen / Codes::len on every named code for every value (c06.len_objects.*), the bits written / consumed by them on a value grid. Unary/Rice/Golomb writes bounded by the 256-bit model; their len functions are proved for every value (Verus for every parameter / modulus). len_delta_param (non-table path), default_write_delta and default_read_delta are Verus-proved on the extracted text (length = bits appended = bits consumed, every value). The stream primitives the codes run on are part of the check as Verus units (callee contracts).",
  design="4/C06"),
 "C08": dict(
  technique="Verus loop invariants on the extracted real text of the default and the optimised copy_to/copy_from; Kani contract harnesses (window-bounded, with counterexamples) for the optimised paths",
  category="proof",
  text="Proof (Verus, unbounded n): the default chunked copy_to/copy_from (generic reader and writer, default and checks configurations) and the optimised BufBitReader::copy_to (u8..u64 words, every Inv_R state including more than one word buffered) and BufBitWriter::copy_from (u8..u128 words) append exactly the reader's next n bits, advance the reader by n, re-establish the representation invariants (so every continuation behaves as after bit-by-bit transfer, by C01/C02) and issue only calls within the trait preconditions. "
       "Kani obligations from arbitrary invariant states (window-bounded) with continuation harnesses provide counterexamples and the observational check.",
  note="Optimised-path units: word instantiation, read_bits/write_bits of the same object taken by contract (discharged by Kani c02.read_bits / c01.write_bits), rotate/cast/min by axioms discharged by Kani std_spec obligations; default and checks configurations. Rewrites: map_err(..)? desugaring (R6), min -> if/else, let-introduction.",
  design="4/C08"),
})

META.update({
 "C10": dict(
  technique="client obligations on the real dispatch code over the abstract stream (Kani/CBMC, symbolic value per identifier) + native concrete grid over every identifier x mechanism",
  category="proof",
  text="Proof, per code identifier and mechanism, for every 64-bit value with symbolic surrounding bits (thorough tier: one Kani obligation per identifier constant; quick tier: representative identifiers): the bits appended, the value decoded and the length computed through Codes::{read,write,len}, ConstCode, FuncCodeReader/Writer/Len, FactoryFuncCodeReader and CodesStats-wrapper equal those of the direct method with the documented parameter. "
       "A concrete native grid (51 identifiers x 11 values x 5 mechanisms x BE/LE, bounded, not counted as proved) covers every mechanism/identifier pair on every run; unsupported identifiers must be rejected.",
  note="Dispatch is compared against the direct method on the abstract model (the direct method's own meaning is C03/C04/C06). The 59 NAMES of code_consts (aliases included) and the 59 named enumeration values are run through every mechanism on a value grid (native, bounded); the thorough tier proves every one of the 51 identifiers for every value through the enumeration, the constants and the function objects. Enumeration parameters beyond the identifier table are compared on the grid 0..=10 only. Unary/Rice/Golomb values limited to codewords fitting the 256-bit model.",
  design="4/C10"),
 "C12": dict(
  technique="contract harnesses on the real io::Write / io::Read impls from an arbitrary invariant state (Kani/CBMC), slice length fixed per obligation",
  category="other",
  text="Bounded contract check: for slice lengths {0,1,7,8,9,17} (each a separate obligation), symbolic slice contents, symbolic writer/reader state (every pending bit offset, every buffer fill level), BE/LE and every backend word size, "
       "io::Write::write returns Ok(len) and appends exactly the slice's bytes as 8-bit fields in order, io::Read::read returns Ok(len) and fills the slice with the next 8*len stream bits grouped in stream order; the byte-aligned memory-image coincidence follows from the canonical image (C01).",
  note="Bounded in the slice length (never counted as proved): the chunked loops of write/read are unwound for the chosen lengths, which cross every branch (empty, shorter than a chunk, exactly one chunk, chunk plus remainder, two chunks plus remainder). The quick tier runs u8 and u64 words with lengths 7 and 9; the thorough tier all words and lengths.",
  design="4/C12"),
 "C14": dict(
  technique="client obligations: the real wrappers around the abstract stream, one obligation per wrapper method (Kani/CBMC)",
  category="proof",
  text="Proof per wrapper method (fixed-width, unary, gamma/delta/zeta with every table option, omega and the other default codes that reach the stream through peek/skip-after-peek, skip_bits, copy_to/copy_from, flush, bit_pos/set_bit_pos), for symbolic inner stream state and arguments: "
       "the result and the inner stream after the wrapped call equal those of the unwrapped call, and the counter grows by exactly the bits appended to / consumed from the inner stream; by induction the counter equals the total since creation for every history. DbgBitReader/DbgBitWriter: transparency.",
  note="Inner stream is the abstract model (any real reader/writer refines it by C01/C02). Unary and copy obligations are bounded by the 256-bit model window. eprintln! output of the Dbg wrappers is not observed.",
  design="4/C14"),
 "C15": dict(
  technique="contract harnesses on CodesStats::{update, update_many, add/+=/sum, best_code, default} (Kani/CBMC) + rely/guarantee obligations on the wrapper's critical sections (Mutex::lock stubbed by an interference model) + native concrete run of the dispatch wrapper",
  category="proof",
  text="Proof for symbolic statistics values and a symbolic observed value: update adds len_<code>(value) to every tracked total with the documented index-to-parameter map and one to the count; merge operators are field-wise sums (so merge = union, by linearity); best_code returns a tracked code with the minimum total and that total. "
       "update_many is bounded (value grid, symbolic multiplicity). The concurrent part is decided by rely/guarantee on the lock (c15.shared.*: Mutex::lock stubbed by an interference model that stores an arbitrary value at every acquisition; every critical section is the identity or exactly update(value), exactly one the update); mutual exclusion of std::sync::Mutex is trusted, schedules are not enumerated.",
  note="Quick tier proves the <3,4,3,3,3>-parameter instance; the thorough tier adds the default <10,20,10,10,10> instance for merge, best_code, default and update_many on two grid values (its symbolic update exceeds one hour of CBMC and is covered by concrete native obligations, labelled bounded). Thread schedules are not enumerated: the wrapper's critical sections are verified under arbitrary interference, mutual exclusion of std::sync::Mutex is trusted.",
  design="4/C15"),
 "C16": dict(
  technique="full enumeration contract harnesses for identifier conversions and equality classes (Kani/CBMC) + native concrete obligations for Display/FromStr",
  category="proof",
  text="Proof: every identifier constant 0..=50 maps to a code that maps back to it; every code with an identifier converts there and back to a code with identical codewords; codes that compare equal belong to the same codeword class, and members of each class write identical bits for every value (symbolic value, BE/LE). "
       "Display/FromStr round trip and the rejection of malformed text are concrete executions on a variant x parameter grid (bounded, not counted as proved): str reasoning is beyond both verifiers.",
  note="usize Display/FromStr being inverse for every parameter is an assumed std contract. Unary/Rice class obligations bounded by the 256-bit model.",
  design="4/C16"),
 "C18": dict(
  technique="full-domain contract harnesses on the real io VByte functions and bit-stream VByte codes (Kani/CBMC, loops <= 10 iterations fully unwound with unwinding assertions)",
  category="proof",
  text="Proof for every 64-bit value: the std::io VByte writers produce the bytes of the independent spec (= the bit-stream code's bytes, C04), readers invert them, generic entry points select the variant of their endianness parameter; "
       "completeness: every terminated string of <= 10 symbolic bytes whose value fits 64 bits decodes to a value whose encoding is that string; lengths equal vbyte_bit_len/8 and step at the sums of powers of 128.",
  note="The io sink/source is a fixed array cursor (ghost), plus a sink that accepts only 1..=len bytes per call for the big-endian writer (the little-endian writer hands over one byte per call); std::io::Error construction paths are stubbed (alloc::fmt::format). BufBit{Reader,Writer}::{read_bits,write_bits}, which the bit-stream codes run on, are part of the check as Verus units.",
  design="4/C18"),
 "C19": dict(
  technique="the C01-C08 obligations re-discharged under --features checks / no_copy_impls (Kani/CBMC, Verus with the checks-configuration precondition) + must-panic harnesses for dirty arguments (the only failed check is the library's own panic)",
  category="proof",
  text="Proof that under the checks feature write_bits panics when and only when the value has a bit at or above the width (every word, BE/LE), that every library-issued write (codes, copies, byte writes) satisfies the cleanliness precondition (the abstract model and the Verus trait contract carry `value < 2^n` in this configuration), "
       "and that the same postconditions hold for the writer, reader, copy and code obligations with each feature set, hence identical observable results. Overflow and debug assertions are failures in both verifiers, which covers the profile dimension.",
  note="Feature sets: quick = checks-specific obligations + representative writer/copy obligations; thorough = all four feature sets. Release-profile code generation itself is trusted to rustc.",
  design="4/C19"),
})
