"""Per-property text for MANIFEST.json (what is claimed, what is assumed)."""

META = {
 "C01": dict(
  technique="contract harnesses (assume Inv+pre / call real method / assert post over the stream view) discharged by Kani/CBMC for every word width and endianness",
  text="Proof, per operation and for all inputs and all invariant-satisfying pre-states (hence all histories, by induction over the history): "
       "new, write_bits, flush, into_inner, drop of BufBitWriter meet the stream-view contract of DESIGN 2.1 (canonical image compared bit by bit at a symbolic index) "
       "for BE/LE x u8..u128; write_unary is bounded in the observation window (K words) and not counted as proved.",
  note="Trusted: rustc/Kani/CBMC; ghost backend Rec; layout predicates transcribed from the statement. Backend kinds are covered through the backends' own contracts (C13, C11) plus parametricity. write_unary's zero-word loop is bounded (K=2 quick / 4 thorough words).",
  design="4/C01"),
}
