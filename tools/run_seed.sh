#!/bin/bash
# run_seed.sh <SEED-ID> <PROP> [<PROP>...] : apply /verif/seeded/<SEED-ID>/patch.diff to /repo, run the checks, undo.
ID=$1; shift
S=/verif/seeded/$ID
cd /repo || exit 1
if [ -n "$(git status --porcelain -- src Cargo.toml)" ]; then echo "/repo is dirty"; exit 1; fi
git apply $S/patch.diff || { echo "patch does not apply"; exit 1; }
: > $S/check_result.txt
for P in "$@"; do
  TIER=${SEED_TIER:-quick}
  VERIF_EVIDENCE_DIR=${VERIF_EVIDENCE_DIR:-/tmp/seed_evidence} /usr/bin/time -f "wall %es" /verif/bin/check $P --tier $TIER > $S/check_$P.out 2> $S/check_$P.err
  RC=$?
  echo "check $P tier=$TIER exit=$RC" >> $S/check_result.txt
  grep -E "^VIOLATION|^KNOWN-FINDING" $S/check_$P.out >> $S/check_result.txt
  grep -E "failed:|UNDECIDED|obligations discharged|wall" $S/check_$P.err | cut -c1-400 >> $S/check_result.txt
done
git checkout -- .
cat $S/check_result.txt
