#!/usr/bin/env python3
"""Rewrites the table of DESIGN.md section 8.7 from tools/registry.py."""
import os, re, sys
sys.path.insert(0, os.path.dirname(os.path.abspath(__file__)))
import registry

obls = registry.all_obligations()
rows = []
for i in range(1, 21):
    p = f"C{i:02d}"
    cells = []
    for tier in ("quick", "thorough"):
        sel = [o for o in obls if o.prop == p and (tier == "thorough" or o.tier == "quick")]
        kc = sum(1 for o in sel if o.engine == "kani" and o.kind == "complete")
        kb = sum(1 for o in sel if o.engine == "kani" and o.kind != "complete")
        v = sum(1 for o in sel if o.engine == "verus")
        nb = sum(1 for o in sel if o.engine == "native")
        cells.append(f"{len(sel)}: {kc} + {kb}b Kani, {v} Verus, {nb}b native")
    rows.append(f"| {p} | {cells[0]} | {cells[1]} |")
path = os.path.join(os.path.dirname(os.path.abspath(__file__)), "..", "DESIGN.md")
s = open(path).read()
new = "| property | quick | thorough |\n|---|---|---|\n" + "\n".join(rows) + "\n"
s2 = re.sub(r"\| property \| quick \| thorough \|\n\|---\|---\|---\|\n(?:\| C\d\d \|[^\n]*\n)+", new, s)
assert s2 != s or new in s
open(path, "w").write(s2)
print("\n".join(rows))
